"""C16 — domain quadtree: tiling, 2:1 balance and boundary-segment targeting (src/initial_mesh.py)."""
import importlib
import math
import signal
import sys
import traceback
from fractions import Fraction as F

import numpy as np

from ..common import q2s, run_driver, seed_rng

PROP_MODS = ['Stbem.Props.C16', 'Stbem.Props.QuadtreeTie', 'Stbem.Props.QuadtreeSim']
RULE = ('lock-step correspondence of src/initial_mesh.py (InitialMesh driven in-process; dyadic floats read as exact '
        'rationals) with the Lean model Stbem.Model.Quadtree: after every operation the answer (children ids / '
        'returned element / vertex index / assertion tag) and the canonical dump (leaves sorted by index with '
        'coordinates, level, parent index; vertex list in creation order; element counter) must be identical. '
        'Exhaustive: every sequence of leaf refinements up to the depth bound from UnitSquare and LShape, dump at '
        'every node; random long sequences (UnitSquare, LShape, PiSquare in units of pi, explicit polyomino roots); '
        'uniform_refine with the iteration order of the Python set passed to the model; every boundary segment '
        '[k/2^l,(k+1)/2^l] of every unit side piece, both orientations, tuple / list / 2x1 ndarray end points, model '
        'fuel l+1, plus targeting on pre-refined meshes and illegal (non-dyadic, too coarse) segments where model '
        'and code must agree on the assertion. Regenerated from the source on every run (translate/quadtreegen.py -> '
        'Gen/QuadtreeGen.lean: Element.__init__/edges, InitialMesh.__init__, vertex_from_coords, bisect_edge, refine, '
        'uniform_refine, refine_msh_bdr, the domain meshes, with the dictionaries nbrs / parent_edge / __bisect_edge as '
        'real maps keyed by vertex-object pairs); every `qt ...` request is answered a second time by the generated '
        'functions on a state of their own (`gqt ...`, Driver/GQuadtreeCmd.lean) and must give the same answer and dump; '
        'Props/QuadtreeTie.lean ties the generated functions to the hand model; Props/QuadtreeSim.lean proves that one generated '
        'refine simulates one model refine under the coherence invariant of the three dictionaries (RefineSim CohInv), for '
        'all states reachable from the generated UnitSquare() / LShape(). '
        'search: model-independent oracle on the real mesh. '
        'non-trivial = balance closure refined at least one extra element, or a targeting call with >= 2 rounds; '
        'distinct = distinct (domain, operation sequence / segment, orientation, end-point type).')
TRUSTED = [
    'Lean 4.33 kernel; axioms propext, Classical.choice, Quot.sound only',
    'hand-written model lean/Stbem/Model/Quadtree.lean, tied to src/initial_mesh.py by the dump correspondence '
    '(harness/checks/C16.py, Driver/QuadtreeCmd.lean)',
    'modelled rather than verified: the dictionaries nbrs / parent_edge / __bisect_edge keyed by Vertex-object pairs '
    'are represented geometrically (same-size square across a side, child position); math.isclose and the eps '
    'tolerance of refine_msh_bdr are equality (sound for dyadic coordinates of depth <= 29: distinct values differ '
    'by more than 1e-9 relatively); binary64 rounding of PiSquare midpoints is not modelled (PiSquare is compared '
    'in units of pi)',
    'the iteration order of the Python set leaf_elements is an input (uniform_refine) or irrelevant (first scan of '
    'refine_msh_bdr for a boundary segment: at most one leaf matches)',
    'translate/quadtreegen.py and its object model (documented in its header and in the header of the generated file: '
    'Vertex / Element objects = records, identity = idx / position in InitialMesh.elements; dict = insertion list, newest '
    'first; the set leaf_elements = list in insertion order; isclose = equality, eps = 0; recursion / while True = fuel), '
    'validated on every run by the generated twins of all qt requests',
]
ASSUMPTIONS = ['roots are congruent squares of one grid with pairwise different vertex coordinates (UnitSquare, '
               'PiSquare, LShape satisfy this); theorems are stated for unit roots at integer positions',
               'refine is called on leaves; refine_msh_bdr on a mesh whose boundary leaf at the segment is not finer '
               'than the segment (the shipped callers use a fresh mesh)']


def translate(res):
    """Regenerates lean/Stbem/Gen/QuadtreeGen.lean from src/initial_mesh.py of the tree under test (a construct outside the
    translated fragment raises TranslationError = broken obligation `translator`)."""
    import os
    from ..common import LEAN, REPO, VERIF, write_if_changed
    tdir = os.path.join(VERIF, 'translate')
    if tdir not in sys.path:
        sys.path.insert(0, tdir)
    import quadtreegen
    stats = quadtreegen.generate(REPO, os.path.join(LEAN, 'Stbem', 'Gen'), write_if_changed)
    for k, v in sorted(stats.items()):
        res.bump('quadtreegen_translated_' + k, v)
    res.count(('translated', 'initial_mesh.py quadtree'), True,
              n=stats.get('for_loops', 0) + stats.get('branches', 0) + stats.get('asserts', 0) + stats.get('dict_reads', 0) +
              stats.get('dict_writes', 0))
    return stats


class Timeout(Exception):
    pass


def _alarm(*a):
    raise Timeout()


_REPORTED = set()


def report(res, key, data):
    """one violation record per key and run"""
    if key in _REPORTED:
        return
    _REPORTED.add(key)
    res.violation(key, data)


def _mod():
    # honour STBEM_REPO: common puts the repo first on sys.path
    return importlib.import_module('src.initial_mesh')


ASSERT_TAGS = [('__bisect_edge', 'assert:bisected'), ('element.level - 1', 'assert:level'),
               ('assert parent', 'assert:parent'), ('axis is not None', 'assert:axis'),
               ('result is None', 'assert:vertex-twice')]


def assert_tag(exc):
    tb = traceback.extract_tb(exc.__traceback__)
    line = (tb[-1].line or '') if tb else ''
    for pat, tag in ASSERT_TAGS:
        if pat in line:
            return tag
    return 'assert:?(%s)' % line.strip()[:60]


# ------------------------------------------------------------------------------------------------
# the real mesh, wrapped
DOMAINS = {
    'unit': dict(init='qt init unit', area=F(1), scale=None),
    'lshape': dict(init='qt init lshape', area=F(3), scale=None),
    'pi': dict(init='qt init unit', area=F(1), scale=math.pi),
}


def level_cap(domain):
    """deepest level that the random histories refine: the equality reading of math.isclose is sound for dyadic
    coordinates up to depth 29; on PiSquare the Element constructor's own squareness assertion (relative tolerance
    1e-9 on a difference of binary64 multiples of pi) starts to fail when level-23 elements are created (recorded as a
    limitation outside the quantifier of C16, which asks for l <= 10)"""
    return 18 if domain == 'pi' else 24


def polyomino(cells, h=1, ox=0, oy=0):
    """vertices / elements of a union of grid squares (list of integer (i, j)), side h, origin (ox, oy)"""
    vs, idx, els = [], {}, []

    def v(i, j):
        if (i, j) not in idx:
            idx[(i, j)] = len(vs)
            vs.append((ox + i * h, oy + j * h))
        return idx[(i, j)]
    for (i, j) in cells:
        els.append((v(i, j), v(i + 1, j), v(i + 1, j + 1), v(i, j + 1)))
    return vs, els


class PyQt:
    def __init__(self, domain, explicit=None):
        im = _mod()
        self.domain = domain
        self.scale = None
        if explicit is not None:
            vs, els = explicit
            self.mesh = im.InitialMesh(vertices=vs, elements=els)
            self.init_line = 'qt init explicit %s %s' % (','.join(q2s(F(c)) for v in vs for c in v),
                                                        ','.join(str(i) for e in els for i in e))
        else:
            self.mesh = dict(unit=im.UnitSquare, lshape=im.LShape, pi=im.PiSquare)[domain]()
            self.scale = DOMAINS[domain]['scale']
            self.init_line = DOMAINS[domain]['init']
        self.idx = {}
        self.ret = []
        self._index()

    def _index(self):
        for i in range(len(self.idx), len(self.mesh.elements)):
            self.idx[id(self.mesh.elements[i])] = i

    def q(self, x):
        """exact rational of a coordinate (in units of pi for PiSquare, snapped to the dyadic grid)"""
        if self.scale is None:
            return F(x)
        return F(round(float(x) / self.scale * 2**40), 2**40)

    def leaves_sorted(self):
        return sorted(self.mesh.leaf_elements, key=lambda e: self.idx[id(e)])

    def leaf_ids(self):
        return [self.idx[id(e)] for e in self.leaves_sorted()]

    def refine(self, i):
        try:
            ch = self.mesh.refine(self.mesh.elements[i])
        except AssertionError as exc:
            return 'err ' + assert_tag(exc)
        self._index()
        self.ret = [self.idx[id(c)] for c in ch]
        return 'ok ' + ','.join(str(c) for c in self.ret)

    def unif(self):
        """returns (protocol line, answer)"""
        order = [self.idx[id(e)] for e in list(self.mesh.leaf_elements)]
        line = 'qt unif ' + (','.join(str(i) for i in order) or '-')
        try:
            self.mesh.uniform_refine()
        except AssertionError as exc:
            return line, 'err ' + assert_tag(exc)
        self._index()
        self.ret = []
        return line, 'ok %d' % len(self.mesh.leaf_elements)

    def bdr(self, a, b):
        try:
            e = self.mesh.refine_msh_bdr(a, b)
        except AssertionError as exc:
            return 'err ' + assert_tag(exc), None
        self._index()
        self.ret = [self.idx[id(e)]]
        return 'ok %d' % self.ret[0], e

    def vertex(self, xy):
        try:
            v = self.mesh.vertex_from_coords(xy)
        except AssertionError as exc:
            return 'err ' + assert_tag(exc)
        if v is None:
            return 'none'
        assert self.mesh.vertices[v.idx] is v
        return 'ok %d' % v.idx

    def dump(self):
        ls = []
        for e in self.leaves_sorted():
            v = e.vertices
            ls.append(':'.join([str(self.idx[id(e)]), q2s(self.q(v[0].x)), q2s(self.q(v[0].y)),
                                q2s(self.q(v[1].x) - self.q(v[0].x)), str(e.level),
                                '-' if e.parent is None else str(self.idx[id(e.parent)])]))
        vs = ' '.join('%s:%s' % (q2s(self.q(v.x)), q2s(self.q(v.y))) for v in self.mesh.vertices)
        return 'L %s|V %s|E %d|R %s' % (' '.join(ls), vs, len(self.mesh.elements), ','.join(str(i) for i in self.ret))


class Batch:
    """protocol lines with the answers of the real code; one driver run at the end"""
    def __init__(self):
        self.lines, self.expect, self.ctx = [], [], []

    def add(self, line, expect, ctx=None):
        self.lines.append(line)
        self.expect.append(expect)
        self.ctx.append(ctx)

    def run(self):
        """every `qt …` request is put to the hand model and, as `gqt …`, to the definitions regenerated from
        src/initial_mesh.py (Gen/QuadtreeGen.lean, Driver/GQuadtreeCmd.lean; a state of their own); both must give the
        answer of the real code"""
        if not self.lines:
            return None
        twins = ['g' + l for l in self.lines]
        out = run_driver(self.lines + twins)
        if len(out) != 2 * len(self.lines):
            return dict(problem='driver returned %d lines for %d' % (len(out), 2 * len(self.lines)))
        n = len(self.lines)
        for kind, outs in (('hand model', out[:n]), ('generated', out[n:])):
            for i, (o, e) in enumerate(zip(outs, self.expect)):
                if e is not None and o != e:
                    j = max(k for k in range(i + 1) if self.lines[k].startswith('qt init'))
                    return dict(kind=kind, line=self.lines[i], model=o[:1500], code=e[:1500], context=self.ctx[i],
                                replay=self.lines[j:i + 1][-40:])
        # where the real code's answer is not recorded (expect None) the two models must still agree with each other
        for i, (o, g) in enumerate(zip(out[:n], out[n:])):
            if self.expect[i] is None and o != g and not o.startswith('err unsupported'):
                return dict(kind='generated vs hand model', line=self.lines[i], model=o[:1500], generated=g[:1500],
                            context=self.ctx[i])
        self.n_generated = n
        return None


def fmt_pt(kind, x, y):
    if kind in ('int-tuple', 'int-array') and float(x) == int(x) and float(y) == int(y):
        # an all-integer request (whole unit pieces written as (1, 0), (1, 1)): Python ints / an integer array
        return (int(x), int(y)) if kind == 'int-tuple' else np.array([[int(x)], [int(y)]])
    if kind in ('tuple', 'int-tuple'):
        return (x, y)
    if kind == 'list':
        return [x, y]
    return np.array([[x], [y]])


KINDS = ['tuple', 'list', 'array']

# unit pieces of the boundary: (start, end) in counter-clockwise order, floats / ints as the factories use them
UNIT_PIECES = [((0, 0), (1, 0)), ((1, 0), (1, 1)), ((1, 1), (0, 1)), ((0, 1), (0, 0))]
LSHAPE_PIECES = [((0, 0), (0, -1)), ((0, -1), (1, -1)), ((1, -1), (1, 0)), ((1, 0), (1, 1)), ((1, 1), (0, 1)),
                 ((0, 1), (-1, 1)), ((-1, 1), (-1, 0)), ((-1, 0), (0, 0))]


def pieces(domain):
    if domain == 'lshape':
        return LSHAPE_PIECES
    return UNIT_PIECES


def segment(piece, l, k, scale=None):
    """end points of the k-th of 2^l sub-segments of the piece, as floats (exact dyadics; times pi for PiSquare)"""
    (ax, ay), (bx, by) = piece
    t0, t1 = k / 2**l, (k + 1) / 2**l
    p = (ax + (bx - ax) * t0, ay + (by - ay) * t0)
    q = (ax + (bx - ax) * t1, ay + (by - ay) * t1)
    if scale is not None:
        p = (p[0] * scale, p[1] * scale)
        q = (q[0] * scale, q[1] * scale)
    return p, q


# ------------------------------------------------------------------------------------------------
def correspond(res, tier):
    rng = seed_rng(res.seed, 'C16')
    batch = Batch()
    thorough = tier != 'quick'

    def code_raises(key, what, data):
        report(res, key, dict(what=what, **data))

    # --- A. exhaustive refinement sequences (dump at every node) -------------------------------
    n_nodes = 0

    def dfs(domain, seq, depth):
        nonlocal n_nodes
        pm = PyQt(domain)
        ans = None
        for i in seq:
            ans = pm.refine(i)
        if seq:
            batch.add('qt refine %d' % seq[-1], ans, dict(domain=domain, seq=list(seq)))
            if ans.startswith('err'):
                code_raises('C16:refine-raises:' + domain, ans, dict(domain=domain, seq=list(seq)))
                return
        batch.add('qt dump', pm.dump(), dict(domain=domain, seq=list(seq)))
        n_nodes += 1
        closure = len(pm.mesh.elements) - (3 if domain == 'lshape' else 1) > 4 * len(seq)
        res.count(('exh', domain, tuple(seq)), closure)
        if depth == 0:
            return
        for i in pm.leaf_ids():
            batch.add('qt push', 'ok')
            dfs(domain, seq + [i], depth - 1)
            batch.add('qt pop', 'ok')

    for domain, depth in ([('unit', 5), ('lshape', 4)] if thorough else [('unit', 4), ('lshape', 3)]):
        batch.add(DOMAINS[domain]['init'], None)
        dfs(domain, [], depth)
        res.notes['exhaustive_depth_' + domain] = depth
    res.notes['exhaustive_nodes'] = n_nodes

    # --- B. random long sequences ---------------------------------------------------------------
    explicit = [polyomino([(0, 0), (1, 0), (0, 1), (1, 1)]), polyomino([(0, 0), (1, 0), (2, 0)]),
                polyomino([(0, 0), (1, 0), (1, 1), (2, 1)], h=2, ox=-3, oy=1),
                polyomino([(0, 0), (0, 1), (1, 1), (2, 1), (2, 0)], h=0.5, ox=0.25, oy=-1)]
    n_rand = 40 if thorough else 10
    for h in range(n_rand):
        which = h % 5
        if which < 3:
            domain = ['unit', 'lshape', 'pi'][which]
            pm = PyQt(domain)
        else:
            domain = 'explicit%d' % (h % len(explicit))
            pm = PyQt(domain, explicit=explicit[h % len(explicit)])
        batch.add(pm.init_line, 'ok %d' % len(pm.mesh.leaf_elements), dict(domain=domain))
        steps = rng.randint(20, 60) if not thorough else rng.randint(40, 160)
        mode = rng.choice(['deep', 'uniformish', 'corner'])
        seq = []
        for k in range(steps):
            ids = pm.leaf_ids()
            if len(ids) > (400 if not thorough else 1200):
                break
            if mode == 'deep':
                lv = max(pm.mesh.elements[i].level for i in ids)
                cand = [i for i in ids if pm.mesh.elements[i].level >= lv - (k % 3 == 0)]
            elif mode == 'corner':
                cand = ids[-6:]
            else:
                cand = ids
            cand = [i for i in cand if pm.mesh.elements[i].level < level_cap(domain)]
            if not cand:
                break
            i = rng.choice(cand)
            seq.append(i)
            ans = pm.refine(i)
            batch.add('qt refine %d' % i, ans, dict(domain=domain, seq=list(seq)))
            if ans.startswith('err'):
                code_raises('C16:refine-raises:' + domain, ans, dict(domain=domain, seq=list(seq)))
                break
            if k % 7 == 0:
                batch.add('qt dump', pm.dump(), dict(domain=domain, seq=list(seq)))
        batch.add('qt dump', pm.dump(), dict(domain=domain, seq=list(seq)))
        # every vertex is found again, a non-vertex is not
        for v in rng.sample(pm.mesh.vertices, min(6, len(pm.mesh.vertices))):
            kind = rng.choice(KINDS)
            batch.add('qt vertex %s %s' % (q2s(pm.q(v.x)), q2s(pm.q(v.y))), pm.vertex(fmt_pt(kind, v.x, v.y)),
                      dict(domain=domain, seq=list(seq), vertex=(v.x, v.y)))
        batch.add('qt vertex 1/3 1/7', pm.vertex((1 / 3, 1 / 7)) if pm.scale is None else None)
        closure = len(pm.mesh.elements) - len([e for e in pm.mesh.elements if e.parent is None]) > 4 * len(seq)
        res.count(('rand', h, res.seed), closure)
        if h < 2:
            res.sample(dict(domain=domain, seq=seq[:15], leaves=len(pm.mesh.leaf_elements)))
        # a stale (already refined) element trips the bisect_edge assertion in both
        if seq and h % 2 == 0:
            ans = pm.refine(seq[0])
            batch.add('qt refine %d' % seq[0], ans, dict(domain=domain, seq=list(seq), stale=seq[0]))
            res.bump('stale_refine_' + ('asserts' if ans.startswith('err') else 'ok'))

    # --- C. uniform_refine (iteration order of the set passed to the model) ----------------------
    for domain in ['unit', 'lshape', 'pi']:
        pm = PyQt(domain)
        batch.add(pm.init_line, None)
        for k in range(4 if thorough else 3):
            line, ans = pm.unif()
            batch.add(line, ans, dict(domain=domain, unif=k))
            batch.add('qt dump', pm.dump(), dict(domain=domain, unif=k))
            res.count(('unif', domain, k), True)
            if ans.startswith('err'):
                code_raises('C16:uniform-refine-raises:' + domain, ans, dict(domain=domain, round=k))
    for h in range(30 if thorough else 8):
        # on a non-uniform mesh uniform_refine may refine, through the balance closure, a leaf that is still in
        # its work list and then trips the bisect_edge assertion; the model reproduces this (not part of C16)
        domain = ['unit', 'lshape'][h % 2]
        pm = PyQt(domain)
        batch.add(pm.init_line, None)
        for k in range(rng.randint(1, 5)):
            i = rng.choice(pm.leaf_ids())
            batch.add('qt refine %d' % i, pm.refine(i))
        line, ans = pm.unif()
        batch.add(line, ans, dict(domain=domain, unif='nonuniform'))
        res.bump('uniform_refine_on_nonuniform_' + ('asserts' if ans.startswith('err') else 'ok'))
        if ans.startswith('ok'):
            batch.add('qt dump', pm.dump())
        res.count(('unif-nonuniform', h, res.seed), True)

    # --- D. boundary targeting --------------------------------------------------------------------
    lmax = 8 if thorough else 5
    n_seg = 0
    for domain in ['unit', 'lshape', 'pi']:
        for pi_, piece in enumerate(pieces(domain)):
            for l in range(lmax + 1):
                for k in range(2**l):
                    p, q = segment(piece, l, k, DOMAINS[domain]['scale'])
                    for orient in (0, 1):
                        a, b = (p, q) if orient == 0 else (q, p)
                        # all three end-point types on the coarse levels, rotating afterwards
                        kinds = KINDS if l <= (5 if thorough else 3) else [KINDS[(k + orient + l) % 3]]
                        for kind in kinds:
                            pm = PyQt(domain)
                            ans, e = pm.bdr(fmt_pt(kind, *a), fmt_pt(kind, *b))
                            ctx = dict(domain=domain, piece=pi_, l=l, k=k, a=a, b=b, kind=kind)
                            batch.add(pm.init_line, None)
                            batch.add('qt bdr %d %s %s %s %s' % (l + 1, q2s(pm.q(a[0])), q2s(pm.q(a[1])),
                                                                q2s(pm.q(b[0])), q2s(pm.q(b[1]))), ans, ctx)
                            n_seg += 1
                            res.count(('bdr', domain, pi_, l, k, orient, kind), l >= 1)
                            if ans.startswith('err'):
                                code_raises('C16:targeting-raises', ans, ctx)
                                continue
                            batch.add('qt dump', pm.dump(), ctx)
                            for pt in (a, b):
                                va = pm.vertex(fmt_pt(kind, *pt))
                                batch.add('qt vertex %s %s' % (q2s(pm.q(pt[0])), q2s(pm.q(pt[1]))), va, ctx)
                                if not va.startswith('ok'):
                                    code_raises('C16:vertex-not-found:' + domain, va, ctx)
    res.notes['segments_lmax'] = lmax
    res.notes['targeting_calls_fresh_mesh'] = n_seg

    # targeting on pre-refined meshes; segments that are finer / coarser than the mesh / not dyadic
    n_pre = 300 if thorough else 60
    for h in range(n_pre):
        domain = ['unit', 'lshape'][h % 2]
        pm = PyQt(domain)
        batch.add(pm.init_line, None)
        for k in range(rng.randint(0, 12)):
            ids = pm.leaf_ids()
            i = rng.choice(ids[-8:] if rng.random() < 0.5 else ids)
            batch.add('qt refine %d' % i, pm.refine(i))
        piece = rng.choice(pieces(domain))
        mode = rng.choice(['dyadic', 'dyadic', 'dyadic', 'nondyadic', 'twice'])
        l = rng.randint(0, 7)
        k = rng.randrange(2**l)
        p, q = segment(piece, l, k)
        if mode == 'nondyadic':
            # (t0 < t1: on a zero-length segment the code descends until the isclose tolerance 1e-9 makes an edge of
            # level ~30 'coincide' with the point - beyond the depth for which isclose is modelled as equality)
            i0 = rng.randrange(0, 96)
            t0, t1 = i0 / 96, rng.randrange(i0 + 1, 97) / 96
            (ax, ay), (bx, by) = piece
            p, q = (ax + (bx - ax) * t0, ay + (by - ay) * t0), (ax + (bx - ax) * t1, ay + (by - ay) * t1)
        if rng.random() < 0.5:
            p, q = q, p
        kind = rng.choice(KINDS)
        ctx = dict(domain=domain, pre=h, mode=mode, a=p, b=q, kind=kind)
        for rep in range(2 if mode == 'twice' else 1):
            ans, e = pm.bdr(fmt_pt(kind, *p), fmt_pt(kind, *q))
            batch.add('qt bdr 80 %s %s %s %s' % (q2s(F(p[0])), q2s(F(p[1])), q2s(F(q[0])), q2s(F(q[1]))), ans, ctx)
            res.bump('pre_refined_targeting_' + ans.split(':')[0].replace(' ', '_').split('_')[0] +
                     ('_' + ans.split(':')[1] if ans.startswith('err') else ''))
            if ans.startswith('err'):
                break
            batch.add('qt dump', pm.dump(), ctx)
        res.count(('bdr-pre', h, res.seed), True)

    # explicit meshes that the Element constructor rejects are rejected by the model with the same assertion
    im = _mod()
    for vs, els in [([(0, 0), (2, 0), (2, 1), (0, 1)], [(0, 1, 2, 3)]), ([(0, 0), (1, 0), (1, 1), (0, 1)], [(0, 3, 2, 1)])]:
        try:
            im.InitialMesh(vertices=vs, elements=els)
            ans = 'ok'
        except AssertionError:
            ans = 'err assert:element'
        batch.add('qt init explicit %s %s' % (','.join(str(c) for v in vs for c in v), ','.join(str(i) for e in els for i in e)),
                  ans if ans.startswith('err') else None)

    dis = batch.run()
    res.notes['model_lines'] = len(batch.lines)
    res.notes['generated_model_lines'] = getattr(batch, 'n_generated', 0)
    if dis is not None:
        res.broken_obligation('correspondence C16: Quadtree model%s and src/initial_mesh.py differ' %
                              (' REGENERATED from src/initial_mesh.py (gqt)' if dis.get('kind', '').startswith('generated') else ''),
                              repr(dis)[:6000])
        res.notes['disagreement'] = dis


# ------------------------------------------------------------------------------------------------
# model-independent oracle
def squares_of(pm):
    """(x0, y0, size, level, elem) with exact rationals; None + reason if a leaf is not an axis-parallel square"""
    out = []
    for e in pm.mesh.leaf_elements:
        v = [(pm.q(w.x), pm.q(w.y)) for w in e.vertices]
        s = v[1][0] - v[0][0]
        if not (s > 0 and v[1] == (v[0][0] + s, v[0][1]) and v[2] == (v[0][0] + s, v[0][1] + s) and
                v[3] == (v[0][0], v[0][1] + s)):
            return None, 'leaf %r is not an axis-parallel square with vertices in counter-clockwise order' % (e, )
        out.append((v[0][0], v[0][1], s, e.level, e))
    return out, None


def in_domain(domain, x0, y0, s):
    """closed square inside the domain (unit roots)"""
    if domain in ('unit', 'pi'):
        return 0 <= x0 and x0 + s <= 1 and 0 <= y0 and y0 + s <= 1
    if not (-1 <= x0 and x0 + s <= 1 and -1 <= y0 and y0 + s <= 1):
        return False
    return not (x0 < 0 and y0 < 0)      # the open quadrant (-1,0)^2 is missing


def oracle(pm, domain):
    """list of violated clauses ('tag: text')"""
    bad = []
    sq, why = squares_of(pm)
    if sq is None:
        return ['not-square: ' + why]
    if sum(s * s for (_, _, s, _, _) in sq) != DOMAINS[domain]['area']:
        bad.append('area: the leaf areas sum to %s, the domain has %s' % (sum(s * s for (_, _, s, _, _) in sq),
                                                                          DOMAINS[domain]['area']))
    for (x0, y0, s, lv, e) in sq:
        if not in_domain(domain, x0, y0, s):
            bad.append('outside: leaf %r is not inside the domain' % (e, ))
            break
        if s != F(1, 2**lv):
            bad.append('level: leaf %r of size %s has level %d' % (e, s, lv))
            break
    n = len(sq)
    for i in range(n):
        x0, y0, s, lv, e = sq[i]
        for j in range(i + 1, n):
            u0, w0, t, lw, f = sq[j]
            ox = min(x0 + s, u0 + t) - max(x0, u0)
            oy = min(y0 + s, w0 + t) - max(y0, w0)
            if ox > 0 and oy > 0:
                bad.append('overlap: leaves %r and %r overlap' % (e, f))
                return bad
            if ((ox == 0 and oy > 0) or (oy == 0 and ox > 0)) and abs(lv - lw) > 1:
                bad.append('balance: edge-adjacent leaves %r (level %d) and %r (level %d)' % (e, lv, f, lw))
                return bad
    coords = [(pm.q(v.x), pm.q(v.y)) for v in pm.mesh.vertices]
    if len(set(coords)) != len(coords):
        dup = [c for c in set(coords) if coords.count(c) > 1][0]
        bad.append('vertex-twice: vertex coordinates %s occur %d times' % (dup, coords.count(dup)))
    for i, v in enumerate(pm.mesh.vertices):
        if v.idx != i:
            bad.append('vertex-index: vertex %d carries idx %d' % (i, v.idx))
            break
    return bad


def has_edge(pm, e, a, b):
    """the element has an edge with exactly the end points a, b (either direction)"""
    want = {(pm.q(a[0]), pm.q(a[1])), (pm.q(b[0]), pm.q(b[1]))}
    vs = [(pm.q(v.x), pm.q(v.y)) for v in e.vertices]
    return any({vs[i], vs[(i + 1) % 4]} == want for i in range(4))


def check_targeting(res, pm, domain, a, b, kind, ctx, fuse=20):
    """one targeting call on the real mesh under a wall-clock fuse; returns False after a violation"""
    signal.alarm(fuse)
    try:
        try:
            e = pm.mesh.refine_msh_bdr(fmt_pt(kind, *a), fmt_pt(kind, *b))
        finally:
            signal.alarm(0)
    except Timeout:
        report(res, 'C16:targeting-no-termination', dict(fuse_s=fuse, **ctx))
        return False
    except RecursionError:
        report(res, 'C16:targeting-no-termination', dict(recursion=True, **ctx))
        return False
    except Exception as exc:  # noqa: BLE001 - any exception on a legal segment violates the property
        report(res, 'C16:targeting-raises', dict(error=repr(exc)[:300], **ctx))
        return False
    pm._index()
    if e not in pm.mesh.leaf_elements:
        report(res, 'C16:targeting-returns-non-leaf', dict(returned=repr(e), **ctx))
        return False
    if not has_edge(pm, e, a, b):
        report(res, 'C16:targeting-wrong-element', dict(returned=repr(e), **ctx))
        return False
    return check_targeted(res, pm, domain, a, b, kind, ctx)


def check_targeted(res, pm, domain, a, b, kind, ctx):
    """the state a targeting call must leave (also: the mesh a *BoundaryRefined helper hands out)"""
    owners = [f for f in pm.mesh.leaf_elements if has_edge(pm, f, a, b)]
    if len(owners) != 1:
        report(res, 'C16:targeting-edge-owners', dict(owners=[repr(f) for f in owners], **ctx))
        return False
    for pt in (a, b):
        try:
            v = pm.mesh.vertex_from_coords(fmt_pt(kind, *pt))
        except Exception as exc:  # noqa: BLE001
            report(res, 'C16:vertex-lookup-raises', dict(error=repr(exc)[:300], point=pt, **ctx))
            return False
        if v is None or (pm.q(v.x), pm.q(v.y)) != (pm.q(pt[0]), pm.q(pt[1])):
            report(res, 'C16:vertex-not-found:' + domain, dict(point=pt, got=repr(v), **ctx))
            return False
    bad = oracle(pm, domain)
    if bad:
        report(res, 'C16:' + bad[0].split(':')[0] + ':after-targeting', dict(clause=bad[0], **ctx))
        return False
    return True


def search(res, tier, boost=False):
    rng = seed_rng(res.seed, 'C16s')
    thorough = tier != 'quick'
    signal.signal(signal.SIGALRM, _alarm)
    mult = 3 if boost else 1
    # 1. invariants after every refinement of random sequences
    n_hist = (60 if thorough else 12) * mult
    for h in range(n_hist):
        domain = ['unit', 'lshape', 'pi'][h % 3]
        pm = PyQt(domain)
        seq = []
        mode = rng.choice(['deep', 'any', 'last'])
        for k in range(rng.randint(5, 40 if not thorough else 70)):
            ids = pm.leaf_ids()
            if len(ids) > (150 if not thorough else 260):
                break
            if mode == 'deep':
                lv = max(pm.mesh.elements[i].level for i in ids)
                ids = [i for i in ids if pm.mesh.elements[i].level == lv]
            elif mode == 'last':
                ids = ids[-5:]
            ids = [i for i in ids if pm.mesh.elements[i].level < level_cap(domain)]
            if not ids:
                break
            i = rng.choice(ids)
            seq.append(i)
            ctx = dict(domain=domain, seq=list(seq))
            signal.alarm(20)
            try:
                try:
                    ch = pm.mesh.refine(pm.mesh.elements[i])
                finally:
                    signal.alarm(0)
            except (Timeout, RecursionError):
                report(res, 'C16:refine-no-termination:' + domain, ctx)
                break
            except Exception as exc:  # noqa: BLE001
                report(res, 'C16:refine-raises:' + domain, dict(error=repr(exc)[:300], **ctx))
                break
            pm._index()
            res.count(('search-refine', h, k, res.seed), True)
            bad = oracle(pm, domain)
            if len(ch) != 4 or any(c not in pm.mesh.leaf_elements for c in ch):
                bad.append('children: refine did not return four leaves')
            if bad:
                report(res, 'C16:' + bad[0].split(':')[0] + ':' + domain, dict(clause=bad[0], **ctx))
                break
    # 2. targeting of every boundary segment on a fresh mesh (independent of the correspondence run)
    lmax = (8 if thorough else 5)
    for domain in ['unit', 'lshape', 'pi']:
        stop = False
        for pi_, piece in enumerate(pieces(domain)):
            for l in range(lmax + 1):
                ks = range(2**l) if (l <= 6 or boost) else sorted(rng.sample(range(2**l), 64))
                for k in ks:
                    p, q = segment(piece, l, k, DOMAINS[domain]['scale'])
                    orient = (k + l) % 2 if l > 3 else None
                    for o in ((0, 1) if orient is None else (orient, )):
                        a, b = (p, q) if o == 0 else (q, p)
                        kind = KINDS[(k + l + o) % 3]
                        pm = PyQt(domain)
                        ctx = dict(domain=domain, piece=pi_, l=l, k=k, a=a, b=b, kind=kind, pre=[])
                        res.count(('search-bdr', domain, pi_, l, k, o), l >= 1)
                        if not check_targeting(res, pm, domain, a, b, kind, ctx):
                            stop = True
                            break
                    if stop:
                        break
                if stop:
                    break
            if stop:
                break
    # 2a'. whole unit pieces requested with integer-typed coordinates (Python ints, an integer array), both orientations
    for domain in ['unit', 'lshape']:
        for pi_, piece in enumerate(pieces(domain)):
            p, q = segment(piece, 0, 0, DOMAINS[domain]['scale'])
            if not all(float(v) == int(v) for v in tuple(p) + tuple(q)):
                continue
            for o in (0, 1):
                a, b = (p, q) if o == 0 else (q, p)
                for kind in ('int-tuple', 'int-array'):
                    pm = PyQt(domain)
                    ctx = dict(domain=domain, piece=pi_, l=0, k=0, a=a, b=b, kind=kind, pre=[], integer_typed=True)
                    res.count(('search-bdr-int', domain, pi_, o, kind), True)
                    check_targeting(res, pm, domain, a, b, kind, ctx, fuse=60)
    # 2b. DEEP segments (levels 9 .. level_cap): the descent's end-point comparison is a tolerance test in the code, so
    # short segments far from the origin (large coordinate, tiny length) are where it can stop early or overshoot;
    # first / last / second-to-last / middle / random positions of every piece, both orientations
    n_deep = 0
    for domain in ['unit', 'lshape', 'pi']:
        cap = level_cap(domain)
        levels = list(range(9, cap + 1)) if (thorough or boost) else sorted(set([9, 12, 15, cap - 7, cap - 5, cap - 3, cap - 1, cap]))
        pcs = pieces(domain)
        stop = False
        for l in levels:
            n = 2**l
            ks = [0, 1, n // 2 - 1, n // 2, n - 2, n - 1, rng.randrange(n), rng.randrange(n)]
            if not (thorough or boost):
                ks = [ks[(l + j) % len(ks)] for j in range(3)] + [n - 1]
            for j, k in enumerate(sorted(set(ks))):
                pi_ = (l + j) % len(pcs) if not (thorough or boost) else rng.randrange(len(pcs))
                p, q = segment(pcs[pi_], l, k, DOMAINS[domain]['scale'])
                a, b = (p, q) if (l + j + k) % 2 == 0 else (q, p)
                kind = KINDS[(k + l + j) % 3]
                pm = PyQt(domain)
                ctx = dict(domain=domain, piece=pi_, l=l, k=k, a=a, b=b, kind=kind, pre=[], deep=True)
                res.count(('search-bdr-deep', domain, pi_, l, k), True)
                n_deep += 1
                if not check_targeting(res, pm, domain, a, b, kind, ctx, fuse=60):
                    stop = True
                    break
            if stop:
                break
    res.bump('search_deep_segments', n_deep)
    # 2c. the request as the initial-potential code makes it: end points are the BOUNDARY PARAMETRISATION's coordinates
    # gamma(c), gamma(d) of a boundary element [c, d] (binary64; on the pi-square they differ by an ulp or two from the
    # domain mesh's own bisection arithmetic), handed to the public helper; afterwards both end points must be
    # retrievable with vertex_from_coords and exactly one leaf has the segment as an edge (compared with the
    # tolerance the code itself uses, rel 1e-9)
    import src.parametrization as Pm
    import src.initial_mesh as Im
    from ..slchecks import addr_interval
    import contextlib, io
    n_par = 0
    for cname, helper in (('UnitSquare', 'UnitSquareBoundaryRefined'), ('PiSquare', 'PiSquareBoundaryRefined'), ('LShape', 'LShapeBoundaryRefined')):
        with contextlib.redirect_stdout(io.StringIO()):
            gamma = getattr(Pm, cname)()
        for pc in range(len(gamma.pw_gamma)):
            plen = float(gamma.pw_start[pc + 1] - gamma.pw_start[pc])
            l0 = 1 if plen > 1.5 and cname == 'LShape' else 0       # long sides of the L-shape: two unit pieces
            for l in range(l0, (7 if thorough or boost else 6)):
                ks = range(2**l) if (l <= 5 or thorough or boost) else sorted(rng.sample(range(2**l), 16))
                for k in ks:
                    c, d = addr_interval(gamma, (pc, l, k))
                    v0 = gamma.pw_gamma[pc](c)
                    v1 = gamma.pw_gamma[pc](d)
                    if (k + l) % 2:
                        v0, v1 = v1, v0
                    ctx = dict(curve=cname, piece=pc, l=l, k=k, v0=[float(np.asarray(v0).flatten()[0]), float(np.asarray(v0).flatten()[1])],
                               v1=[float(np.asarray(v1).flatten()[0]), float(np.asarray(v1).flatten()[1])], request='as InitialOperator.linform makes it')
                    n_par += 1
                    res.count(('search-bdr-param', cname, pc, l, k), l >= 1)
                    try:
                        with contextlib.redirect_stdout(io.StringIO()):
                            m = getattr(Im, helper)(v0, v1)
                            w0, w1 = m.vertex_from_coords(v0), m.vertex_from_coords(v1)
                    except Exception as exc:  # noqa: BLE001
                        report(res, 'C16:targeting-raises:parametrisation-coordinates', dict(error=repr(exc)[:300], **ctx))
                        break
                    if w0 is None or w1 is None:
                        report(res, 'C16:vertex-not-found:parametrisation-coordinates', dict(missing=['v0', 'v1'][0 if w0 is None else 1], **ctx))
                        break
                    close = lambda a_, b_: math.isclose(float(a_), float(b_), rel_tol=1e-9, abs_tol=1e-12)
                    f0, f1 = np.asarray(v0).flatten(), np.asarray(v1).flatten()
                    if not (close(w0.x, f0[0]) and close(w0.y, f0[1]) and close(w1.x, f1[0]) and close(w1.y, f1[1])):
                        report(res, 'C16:vertex-not-found:parametrisation-coordinates', dict(got=[repr(w0), repr(w1)], **ctx))
                        break
                    owners = [e for e in m.leaf_elements if w0 in e.vertices and w1 in e.vertices]
                    if len(owners) != 1:
                        report(res, 'C16:targeting-edge-owners:parametrisation-coordinates', dict(owners=len(owners), **ctx))
                        break
    res.bump('search_parametrisation_segments', n_par)
    # 3. targeting on pre-refined meshes whose boundary leaf at the segment is not finer than the segment
    n_pre = (200 if thorough else 40) * mult
    for h in range(n_pre):
        domain = ['unit', 'lshape'][h % 2]
        pm = PyQt(domain)
        pre = []
        for k in range(rng.randint(1, 10)):
            ids = pm.leaf_ids()
            i = rng.choice(ids[-8:] if rng.random() < 0.5 else ids)
            pre.append(i)
            pm.mesh.refine(pm.mesh.elements[i])
            pm._index()
        piece = rng.choice(pieces(domain))
        l = rng.randint(0, 8)
        k = rng.randrange(2**l)
        p, q = segment(piece, l, k)
        # legal iff some leaf edge contains the segment
        sq, _ = squares_of(pm)
        lo = (min(F(p[0]), F(q[0])), min(F(p[1]), F(q[1])))
        hi = (max(F(p[0]), F(q[0])), max(F(p[1]), F(q[1])))

        def contains(x0, y0, s):
            if lo[0] == hi[0]:
                return (lo[0] in (x0, x0 + s)) and y0 <= lo[1] and hi[1] <= y0 + s
            return (lo[1] in (y0, y0 + s)) and x0 <= lo[0] and hi[0] <= x0 + s
        if not any(contains(x0, y0, s) for (x0, y0, s, _, _) in sq):
            res.bump('search_pre_refined_skipped_too_fine')
            continue
        if rng.random() < 0.5:
            p, q = q, p
        kind = rng.choice(KINDS)
        ctx = dict(domain=domain, pre=pre, a=p, b=q, kind=kind, l=l, k=k)
        res.count(('search-bdr-pre', h, res.seed), True)
        check_targeting(res, pm, domain, p, q, kind, ctx)
    helper_histories(res, rng, (30 if thorough else 9) * mult, 12 if thorough else 6)


def helper_histories(res, rng, n_hist, n_req):
    """4. the public helpers Unit/Pi/LShapeBoundaryRefined as a history of requests: the caller refines the mesh it was
    handed (linform does not, a user may) and asks for the same or another segment again, end points in any container"""
    im = _mod()
    helpers = dict(unit=im.UnitSquareBoundaryRefined, lshape=im.LShapeBoundaryRefined, pi=im.PiSquareBoundaryRefined)
    for h in range(n_hist):
        domain = ['unit', 'lshape', 'pi'][h % 3]
        pool = []
        for _ in range(3):
            piece = rng.choice(pieces(domain))
            l = rng.randint(0, 5)
            pool.append(segment(piece, l, rng.randrange(2**l), DOMAINS[domain]['scale']))
        log = []
        for r in range(n_req):
            p, q = rng.choice(pool)
            if rng.random() < 0.3:
                p, q = q, p
            kind = rng.choice(KINDS)
            log.append(dict(request=[p, q], kind=kind))
            ctx = dict(domain=domain, helper=helpers[domain].__name__, history=list(log))
            signal.alarm(20)
            try:
                try:
                    m = helpers[domain](fmt_pt(kind, *p), fmt_pt(kind, *q))
                finally:
                    signal.alarm(0)
            except (Timeout, RecursionError):
                report(res, 'C16:targeting-no-termination:helper', ctx)
                break
            except Exception as exc:  # noqa: BLE001
                report(res, 'C16:targeting-raises:helper', dict(error=repr(exc)[:300], **ctx))
                break
            pm = PyQt(domain)
            pm.mesh, pm.idx = m, {}
            pm._index()
            res.count(('search-helper', h, r, res.seed), r >= 1)
            if not any(has_edge(pm, f, p, q) for f in m.leaf_elements):
                report(res, 'C16:targeting-edge-owners:helper', dict(owners=[], **ctx))
                break
            if not check_targeted(res, pm, domain, p, q, kind, ctx):
                break
            # the caller goes on refining the mesh it was handed
            refined = []
            for _ in range(rng.randint(0, 3)):
                leaves = list(m.leaf_elements)
                own = [f for f in leaves if has_edge(pm, f, p, q)]
                f = rng.choice(own if own and rng.random() < 0.6 else leaves)
                if f.level >= level_cap(domain) - 1:
                    continue
                refined.append(pm.idx[id(f)])
                m.refine(f)
                pm._index()
            log[-1]['then_refined_elements'] = refined


def replay(res, rec):
    """re-runs the failing input of a violation record on the real code"""
    d = rec.get('data', {})
    domain = d.get('domain', 'unit')
    if domain.startswith('explicit'):
        print('replay of explicit meshes: rerun the check with the recorded seed')
        return 1
    pm = PyQt(domain)
    signal.signal(signal.SIGALRM, _alarm)
    try:
        for i in d.get('pre', []) or d.get('seq', []):
            pm.mesh.refine(pm.mesh.elements[i])
            pm._index()
    except Exception as exc:  # noqa: BLE001
        print('reproduced: refine raises %r' % (exc, ))
        return 1
    bad = oracle(pm, domain)
    if bad:
        print('reproduced: ' + bad[0])
        return 1
    if 'a' in d:
        ok = check_targeting(res, pm, domain, tuple(d['a']), tuple(d['b']), d.get('kind', 'tuple'), dict(d))
        print('reproduced' if not ok else 'not reproduced')
        return 0 if ok else 1
    print('not reproduced')
    return 0
