"""C13 — the symmetric part of the single-layer Galerkin matrix is positive definite (PARTIAL).

What this check does: the bound `lambda_min(D^-1/2 sym(A) D^-1/2) > 0.01` is DECIDED, per assembled binary64 matrix, by
a certificate checker that is proved sound and complete in Lean (`Stbem/Props/C13.lean`) and run as compiled Lean code
(`stbem-driver`, command `pd check`) on the exact rational values of the floats.  The claim "on EVERY mesh" is not
decided by anything here (it needs the coercivity of the heat single-layer operator plus quadrature/rounding error
bounds): the meshes are a sample, the oracle is verified.
"""
import contextlib
import io
import math
from fractions import Fraction as F

import numpy as np

import os
import sys

from ..common import LEAN, VERIF, q2s, run_driver, seed_rng, write_if_changed

PROP_MODS = ['Stbem.Props.C13']
LEVEL = 'proof'
MU = F(1, 100)                          # the bound of the property text
LADDER = [F(1, 20), F(1, 10), F(3, 20), F(1, 5), F(1, 4), F(3, 10), F(2, 5), F(1, 2)]   # informative: largest certified bound (0.15 "is observed")
RULE = ('(i) model tie, exact: random rational / dyadic matrices n = 1..7 (definite, indefinite, singular, non-symmetric, '
        'zero or negative diagonal) sent to the driver; `pd pivots`, `pd shift`, `pd quad` must equal an independent '
        'Fraction implementation (textbook LDL^T by columns on the symmetrised matrix) and the answer ok / notpd k must '
        'equal Sylvester\'s criterion evaluated with Fraction determinants (first non-positive leading principal minor). '
        '(ii) certification: the REAL float matrix SingleLayerOperator(mesh).bilform_matrix(elems, elems) (serial path, '
        'no cache) on every shipped curve x {initial meshes and time grids, uniform, random bisections with aspect '
        '<= 32, Doerfler isotropic / anisotropic with random indicators, meshes graded towards a space-time point, '
        'refine_grading, anisotropic stacks}; every entry converted exactly (Fraction(float)) and sent as '
        '`pd check 1/100 n ...` (n <= 52 quick / 80 thorough) and, with a floating-point Cholesky hint, as `pd dom 1/100 n ...` '
        '(sound hint-based certificate, all sizes up to 135 / 262); notpd = the verified checker proves that this assembled '
        'matrix violates the bound '
        '(VIOLATION on every mesh, open or closed curve, any aspect); ok = certificate checked. '
        'Cross-check with numpy eigvalsh of the scaled symmetric part (sign disagreement = broken obligation). '
        '(iii) consequences on the same meshes: 4x4 child blocks of the hierarchical estimator certified by the driver and '
        'their three scaling factors > 0, the h-h/2 fine matrix certified and the estimator value real and >= 0, det > 0. '
        'non-trivial = matrix with at least one non-zero off-diagonal entry; distinct = distinct (curve, mesh history).')
TRUSTED = [
    'Lean 4.33 kernel; axioms propext, Classical.choice, Quot.sound only',
    'Mathlib (ordered fields, Matrix, det, Real.sqrt)',
    'the certificate checker is the compiled Lean function Stbem.PosDef.checkQ (lean/Stbem/Model/PosDef.lean): sound AND '
    'complete for every rational matrix (Props/C13.lean certPD_iff, scaled_bound_iff, scaled_bound_real_iff); for larger '
    'matrices the compiled hint-based checker domCertScaledQ (sound for every hint: domCertScaledQ_sound; the hint, a '
    'floating-point Cholesky factor from numpy, is untrusted); the Lean '
    'compiler / runtime (GMP rationals) executing it and the driver parser (Driver/PosDefCmd.lean, Driver/Util.lean) are '
    'trusted; the parser and row order are exercised by the exact tie (i)',
    'Python: Fraction(float) is the exact value of a binary64 number; numpy only as an untrusted cross-check',
    'NOT decided: the bound on EVERY mesh (needs coercivity of the heat single-layer operator in H^{-1/2,-1/4} and '
    'quadrature + rounding error bounds) -- the meshes explored are a sample; this is why the claim is partial',
]
ASSUMPTIONS = [
    'the bound is decided per assembled binary64 matrix (exact rational arithmetic on the stored values), not for the '
    'exact Galerkin matrix and not for all meshes',
    'quantifier: every mesh the code accepts (open or closed curve, any aspect ratio, user-supplied time grids)',
    'binary64 effects inside numpy.linalg.solve / the estimators are outside every theorem (the consequences are '
    'theorems about exact real arithmetic on the stored matrix)',
]

CURVES = ['UnitSquare', 'PiSquare', 'LShape', 'Circle', 'UnitInterval']
_STATE = {}


def quiet():
    return contextlib.redirect_stdout(io.StringIO())


def translate(res):
    """The sign patterns of the hierarchical estimator are regenerated from the source (Gen/Consts.lean, shared with C20);
    `hierarchical_scaling_pos` is stated over the generated constant and the search uses the same patterns."""
    sys.path.insert(0, os.path.join(VERIF, 'translate'))
    import consts as T
    c = T.generate(os.environ.get('STBEM_REPO', '/repo'), os.path.join(LEAN, 'Stbem', 'Gen'), write_if_changed)
    _STATE['patterns'] = [list(p) for p in c['patterns']]
    res.notes['hier_patterns_from_source'] = _STATE['patterns']


# ------------------------------------------------------------------------------------------------------------------
# independent exact reference (plain Fractions; no code shared with the model)
def ref_shift(A, mu):
    n = len(A)
    S = [[(A[i][j] + A[j][i]) / 2 for j in range(n)] for i in range(n)]
    return [[S[i][j] - (mu * S[i][i] if i == j else 0) for j in range(n)] for i in range(n)]


def ref_ldl(M):
    """Textbook LDL^T by columns (M symmetric): pivots, or index of the first non-positive pivot."""
    n = len(M)
    L = [[F(0)] * n for _ in range(n)]
    d = []
    for k in range(n):
        p = M[k][k] - sum(L[k][j] * L[k][j] * d[j] for j in range(k))
        if p <= 0:
            return None, k
        d.append(p)
        for i in range(k + 1, n):
            L[i][k] = (M[i][k] - sum(L[i][j] * L[k][j] * d[j] for j in range(k))) / p
    return d, None


def ref_det(M):
    """Fraction determinant by elimination with row exchanges."""
    M = [row[:] for row in M]
    n, det = len(M), F(1)
    for c in range(n):
        piv = next((r for r in range(c, n) if M[r][c] != 0), None)
        if piv is None:
            return F(0)
        if piv != c:
            M[c], M[piv] = M[piv], M[c]
            det = -det
        det *= M[c][c]
        for r in range(c + 1, n):
            f = M[r][c] / M[c][c]
            for k in range(c, n):
                M[r][k] -= f * M[c][k]
    return det


def ref_sylvester(M):
    """Index of the first non-positive leading principal minor, None when all are positive."""
    for k in range(1, len(M) + 1):
        if ref_det([row[:k] for row in M[:k]]) <= 0:
            return k - 1
    return None


def ref_dom(M, R):
    """Hint-based certificate in plain Fractions: N = R^T M R, rows + columns strictly diagonally dominant."""
    n = len(M)
    MR = [[sum(M[i][k] * R[k][j] for k in range(n)) for j in range(n)] for i in range(n)]
    N = [[sum(R[k][i] * MR[k][j] for k in range(n)) for j in range(n)] for i in range(n)]
    return all(sum(abs(N[i][j]) for j in range(n)) + sum(abs(N[j][i]) for j in range(n)) < 4 * N[i][i] for i in range(n))


def ref_unit_upper_inverse_T(M):
    """R with R^T M R diagonal when the LDL^T of (symmetric) M exists: R = L^-T, L unit lower triangular; else identity."""
    n = len(M)
    L = [[F(int(i == j)) for j in range(n)] for i in range(n)]
    d = []
    for k in range(n):
        p = M[k][k] - sum(L[k][j] * L[k][j] * d[j] for j in range(k))
        if p == 0:
            return [[F(int(i == j)) for j in range(n)] for i in range(n)]
        d.append(p)
        for i in range(k + 1, n):
            L[i][k] = (M[i][k] - sum(L[i][j] * L[k][j] * d[j] for j in range(k))) / p
    # invert the unit lower triangular L by forward substitution, return the transpose of the inverse
    Li = [[F(int(i == j)) for j in range(n)] for i in range(n)]
    for c in range(n):
        for i in range(c + 1, n):
            Li[i][c] = -sum(L[i][k] * Li[k][c] for k in range(c, i))
    return [[Li[j][i] for j in range(n)] for i in range(n)]


def enc_matrix(A):
    return ' '.join(q2s(v) for row in A for v in row)


def random_exact_matrix(rng, n):
    kind = rng.choice(['spd', 'spd-nonsym', 'indef', 'singular', 'dyadic', 'negdiag', 'border'])
    if kind == 'dyadic':
        A = [[F(rng.uniform(-1, 1)) for _ in range(n)] for _ in range(n)]
        for i in range(n):
            A[i][i] = F(rng.uniform(0.5, 4.0)) * rng.choice([1, 1, 1, n])
        return kind, A
    G = [[F(rng.randint(-4, 4), rng.randint(1, 3)) for _ in range(n)] for _ in range(n)]
    A = [[sum(G[k][i] * G[k][j] for k in range(n)) for j in range(n)] for i in range(n)]   # G^T G  (psd)
    if kind in ('spd', 'spd-nonsym', 'border'):
        for i in range(n):
            A[i][i] += F(rng.randint(1, 5), rng.randint(1, 4))
    if kind in ('spd-nonsym', 'indef', 'border'):
        for i in range(n):
            for j in range(i):
                s = F(rng.randint(-6, 6), rng.randint(1, 3))       # skew part: does not change the quadratic form
                A[i][j] += s
                A[j][i] -= s
    if kind == 'indef':
        i = rng.randrange(n)
        A[i][i] -= F(rng.randint(1, 40), 2)
    if kind == 'negdiag':
        i = rng.randrange(n)
        A[i][i] = F(-rng.randint(0, 3))
    if kind == 'singular' and n > 1:
        A[-1] = A[0][:]
        for r in A:
            r[-1] = r[0]
    return kind, A


def tie_exact(res, tier):
    """(i) the driver command against the independent Fraction reference and Sylvester's criterion."""
    rng = seed_rng(res.seed, 'C13tie')
    n_cases = 60 if tier == 'quick' else 400
    corpus = [('corpus', [[F(4), F(1), F(0)], [F(-1), F(3), F(1)], [F(2), F(0), F(5)]], F(1, 100)),     # exA of Props/C13.lean
              ('corpus', [[F(1), F(3)], [F(1), F(1)]], F(1, 100)),                                      # exB (indefinite)
              ('corpus', [[F(0)]], F(0)), ('corpus', [[F(1)]], F(1)), ('corpus', [[F(1)]], F(99, 100)),
              ('corpus', [[F(2), F(-2)], [F(-2), F(2)]], F(0)),                                         # singular psd
              ('corpus', [[F(1), F(1, 2)], [F(1, 2), F(1)]], F(1, 2))]                                  # exactly on the boundary
    cases = corpus[:]
    for _ in range(n_cases):
        n = rng.randint(1, 7)
        kind, A = random_exact_matrix(rng, n)
        mu = rng.choice([F(0), F(1, 100), F(1, 100), F(1, 4), F(9, 10), F(-1, 2)])
        cases.append((kind, A, mu))
    lines, meta = [], []
    for kind, A, mu in cases:
        n = len(A)
        x = [F(rng.randint(-5, 5), rng.randint(1, 3)) for _ in range(n)]
        M0 = ref_shift(A, mu)
        hk = rng.choice(['identity', 'ldl', 'ldl-perturbed', 'random'])
        if hk == 'identity':
            R = [[F(int(i == j)) for j in range(n)] for i in range(n)]
        elif hk == 'random':
            R = [[F(rng.randint(-3, 3), rng.randint(1, 3)) for _ in range(n)] for _ in range(n)]
        else:
            R = ref_unit_upper_inverse_T(M0)
            if hk == 'ldl-perturbed':
                R = [[v + F(rng.randint(-1, 1), 64) for v in row] for row in R]
        lines += ['pd pivots %s %d %s' % (q2s(mu), n, enc_matrix(A)),
                  'pd check %s %d %s' % (q2s(mu), n, enc_matrix(A)),
                  'pd shift %s %d %s' % (q2s(mu), n, enc_matrix(A)),
                  'pd quad %d %s %s' % (n, enc_matrix(A), ','.join(q2s(v) for v in x)),
                  'pd dom %s %d %s %s' % (q2s(mu), n, enc_matrix(A), enc_matrix(R))]
        meta.append((kind, A, mu, x, hk, R))
    # malformed requests must be rejected, not defaulted
    bad = ['pd check 1/100 2 1 2 3', 'pd check x 1 1', 'pd check 1/100 1 1/0', 'pd quad 2 1 0 0 1 1', 'pd nonsense',
           'pd dom 1/100 2 1 0 0 1 1 0 0', 'pd dom 1/100 1 1 x']
    out = run_driver(lines + bad)
    for b, o in zip(bad, out[len(lines):]):
        res.count(('bad', b), False)
        if o != 'bad-op':
            res.broken_obligation('correspondence C13: malformed request not rejected', '%s -> %s' % (b, o))
    for idx, (kind, A, mu, x, hk, R) in enumerate(meta):
        o_piv, o_chk, o_shift, o_quad, o_dom = out[5 * idx:5 * idx + 5]
        n = len(A)
        M = ref_shift(A, mu)
        d, bad_k = ref_ldl(M)
        syl = ref_sylvester(M)
        want_piv = 'ok ' + ','.join(q2s(v) for v in d) if d is not None else 'notpd %d' % bad_k
        want_shift = ';'.join(','.join(q2s(v) for v in row) for row in M)
        want_quad = q2s(sum(x[i] * A[i][j] * x[j] for i in range(n) for j in range(n)))
        want_chk = 'ok' if syl is None else 'notpd %d' % syl
        got_chk = 'ok' if o_chk.startswith('ok ') else o_chk
        res.count(('tie', kind, n, q2s(mu), want_chk.split()[0], enc_matrix(A)), n > 1)
        res.bump('tie_' + ('ok' if syl is None else 'notpd'))
        want_dom = 'ok' if ref_dom(M, R) else 'undecided'
        res.bump('tie_hint_' + want_dom)
        if want_dom == 'ok' and syl is not None:
            res.broken_obligation('correspondence C13: reference hint-based certificate accepts a matrix that fails '
                                  'Sylvester\'s criterion (contradicts domCert_sound)', repr((kind, hk)))
        for what, want, got in (('pivots', want_piv, o_piv), ('certificate vs Sylvester', want_chk, got_chk),
                                ('scaledShift', want_shift, o_shift), ('quad', want_quad, o_quad),
                                ('hint-based certificate', want_dom, o_dom)):
            if want != got:
                res.broken_obligation('correspondence C13: driver and independent exact reference differ (%s)' % what,
                                      'kind %s mu %s A %s\nreference: %s\ndriver:    %s' %
                                      (kind, q2s(mu), [[q2s(v) for v in r] for r in A], want[:400], got[:400]))
                return
        if idx < 2:
            res.sample(dict(kind='exact tie', matrix=[[q2s(v) for v in r] for r in A], mu=q2s(mu), driver=o_piv[:120]))


# ------------------------------------------------------------------------------------------------------------------
# meshes
def aspect(e):
    return float(e.h_x)**2 / float(e.h_t)


def make_curve(name):
    from src import parametrization as P
    return {'UnitSquare': P.UnitSquare, 'PiSquare': P.PiSquare, 'LShape': P.LShape, 'Circle': P.Circle,
            'UnitInterval': P.UnitInterval}[name]()


def bisect_ok(e, ax, lim=32.0):
    """Bisection in time doubles h_x^2/h_t."""
    return ax == 1 or 2 * aspect(e) <= lim


def apply_op(mesh, op):
    """One recorded mesh operation (leaves are addressed by their position in `leaf_elements`, an OrderedDict)."""
    k = op[0]
    if k == 'refine_axis':
        mesh.refine_axis(list(mesh.leaf_elements)[op[1]], op[2])
    elif k == 'refine':
        mesh.refine(list(mesh.leaf_elements)[op[1]])
    elif k == 'uniform_refine':
        mesh.uniform_refine()
    elif k == 'dorfler-iso':
        mesh.dorfler_refine_isotropic(np.array(op[1], dtype=float), op[2])
    elif k == 'dorfler-aniso':
        mesh.dorfler_refine_anisotropic(np.array(op[1], dtype=float), op[2])
    elif k == 'refine_grading':
        mesh.refine_grading(sigma=op[1], K=op[2])
    elif k == 'point':
        pass                      # annotation only
    else:
        raise ValueError(op)


def curve_of(name):
    """shipped curve by name, or a user rectangle 'Rect:a:b' (sides a and b; non-dyadic side ratios such as 3:2)"""
    if name.startswith('Rect:'):
        from src.parametrization import PiecewisePolygon
        _, a, b = name.split(':')
        a, b = float(a), float(b)
        with quiet():
            return PiecewisePolygon([np.array([0., 0.]), np.array([a, 0.]), np.array([a, b]), np.array([0., b]), np.array([0., 0.])])
    return make_curve(name)


def rebuild_mesh(hist):
    """The mesh of a recorded history (replay)."""
    from src.mesh import MeshParametrized
    assert hist[0][0] == 'init'
    gamma = curve_of(hist[0][1])
    with quiet():
        if len(hist[0]) > 3:
            mesh = MeshParametrized(gamma, initial_space_mesh=list(hist[0][3]), initial_time_mesh=list(hist[0][2]))
        else:
            mesh = MeshParametrized(gamma, initial_time_mesh=list(hist[0][2]))
        for op in hist[1:]:
            apply_op(mesh, op)
    return gamma, mesh


def build_mesh(rng, curve, family, size):
    """Returns (gamma, mesh, history) -- the history is replay data for `rebuild_mesh`."""
    from src.mesh import MeshParametrized
    if family == 'space-grid' and rng.random() < 0.5:
        # user rectangles with sides 3:2 (panels meeting at a corner have a non-integer length ratio); small with T = 1,
        # large with very long time slabs - in both cases h_x^2/h_t <= 0.1 (kernel nearly constant over the panels)
        curve = rng.choice(['Rect:0.09375:0.0625', 'Rect:3.0:2.0'])
    gamma = curve_of(curve)
    hist = []
    tgrid = [0, 1]
    if family == 'time-grid':
        tgrid = rng.choice([[0, 0.5, 1], [0, 1, 2], [0, 0.25, 1], [0, 1, 3]])
    if family == 'extreme-slabs':
        # finding F13 (known): four slabs of 1e-9 on the unrefined curve, aspect h_x^2/h_t = 1e9
        tgrid = [1e-9 * k for k in range(5)]
    if family == 'thin-slabs':
        # user-supplied time grids with many slabs that are very thin against h_x^2 (time stepping schemes, grids graded
        # towards t = 0): elements flat in time, couplings between time-separated slabs are narrow ridges along x = y
        kind = rng.choice(['equal', 'graded', 'equal-then-coarse'])
        nsl = max(3, min(16, size // max(1, len(gamma.pw_gamma))))
        if kind == 'equal':
            h = rng.choice([3e-5, 1e-4, 2.0**-12, 1e-6])
            tgrid = [h * k for k in range(nsl + 1)]
        elif kind == 'graded':
            nsl = min(nsl, 12)      # first slab 4^-11: aspect up to 4e7; beyond ~3e8 see finding F13 (corpus case below)
            tgrid = [0.0] + [2.0**-(2 * (nsl - k)) for k in range(1, nsl + 1)]
        else:
            h = rng.choice([3e-5, 2.0**-14, 1e-6])
            tgrid = [h * k for k in range(nsl - 2)] + [1e-2, 0.1, 1.0]
    sgrid = None
    if family == 'space-grid':
        # user-supplied initial SPACE grids whose panels on one side have non-dyadic length ratios (3:2, 2:3, 5:3 ...),
        # with long time slabs (elements tall in time: neighbour couplings are large against the diagonal)
        fr = rng.choice([[0.25, 0.625], [0.4], [0.375, 0.625], [0.3, 0.5, 0.8]])
        if curve.startswith('Rect:'):
            fr = []          # whole sides: the ratio 3:2 sits at the corners
        sgrid = [0.0]
        for k in range(len(gamma.pw_gamma)):
            lo, hi = float(gamma.pw_start[k]), float(gamma.pw_start[k + 1])
            sub = fr if (k % 2 == 0 or len(gamma.pw_gamma) == 1) else []
            sgrid += [lo + (hi - lo) * f for f in sub] + [hi]
        tgrid = rng.choice([[0, 64.], [0, 128., 512.], [0, 10], [0, 64., 128.]])
        if curve.startswith('Rect:0.09'):
            tgrid = rng.choice([[0, 1.], [0, 0.5, 1.]])
    with quiet():
        if sgrid is None:
            mesh = MeshParametrized(gamma, initial_time_mesh=tgrid)
        else:
            mesh = MeshParametrized(gamma, initial_space_mesh=sgrid, initial_time_mesh=tgrid)
    hist.append(['init', curve, tgrid] if sgrid is None else ['init', curve, tgrid, sgrid])

    def leaves():
        return list(mesh.leaf_elements)

    def do(op):
        apply_op(mesh, op)
        hist.append(op)

    def rand_bisect(k, mode='mixed'):
        for _ in range(k):
            ls = leaves()
            i = rng.randrange(len(ls))
            ax = {'time': 0, 'space': 1, 'mixed': 0 if rng.random() < 0.5 else 1}[mode]
            if not bisect_ok(ls[i], ax):
                ax = 1
            do(['refine_axis', i, ax])

    with quiet():
        if family in ('initial', 'time-grid', 'thin-slabs', 'extreme-slabs', 'space-grid'):
            pass
        elif family == 'uniform':
            while len(mesh.leaf_elements) * 4 <= size:
                do(['uniform_refine'])
        elif family == 'random':
            while len(mesh.leaf_elements) < size:
                rand_bisect(1)
        elif family in ('dorfler-iso', 'dorfler-aniso'):
            rand_bisect(rng.randint(0, 4))
            while len(mesh.leaf_elements) < size:
                n = len(mesh.leaf_elements)
                theta = rng.choice([0.3, 0.5, 0.7, 0.9])
                if family == 'dorfler-iso':
                    eta = np.array([rng.random()**3 for _ in range(n)])
                else:
                    eta = np.array([[rng.random()**3, rng.random()**3] for _ in range(n)])
                    # time refinement only where the aspect bound admits it
                    for k, e in enumerate(leaves()):
                        if not bisect_ok(e, 0):
                            eta[k, 0] = 0.0
                    if eta.sum() == 0:
                        break
                do([family, eta.tolist(), theta])
        elif family == 'point-graded':
            # refine (both directions) the leaf containing a fixed space-time point, the conformity closure does the rest
            L = float(gamma.gamma_length)
            px = rng.choice([0.0, L / 4, L / 2, rng.random() * L])
            pt = rng.choice([0.0, 1.0, rng.random()])
            hist.append(['point', px, pt])
            while len(mesh.leaf_elements) < size:
                ls = leaves()
                cand = [i for i, e in enumerate(ls) if e.time_interval[0] <= pt <= e.time_interval[1]
                        and e.space_interval[0] <= px <= e.space_interval[1]]
                i = min(cand, key=lambda i: (ls[i].h_t * ls[i].h_x, i))
                before = len(ls)
                do(['refine', i])
                if len(mesh.leaf_elements) == before:
                    break
        elif family == 'refine-grading':
            rand_bisect(rng.randint(0, 3))
            sigma = rng.choice([1, 1.5, 2])
            if rng.random() < 0.5:
                do(['uniform_refine'])
            do(['refine_grading', sigma, 4])
            while len(mesh.leaf_elements) < size // 2:
                rand_bisect(2)
                do(['refine_grading', sigma, 4])
        elif family == 'anisotropic':
            # stacks of thin elements: time-only refinement up to the aspect bound on some leaves, space-only on others
            mode = rng.choice(['time', 'space', 'mixed'])
            while len(mesh.leaf_elements) < size:
                rand_bisect(1, mode)
        else:
            raise ValueError(family)
    return gamma, mesh, hist


def assemble(mesh, elems=None):
    from src.single_layer import SingleLayerOperator
    with quiet():
        SL = SingleLayerOperator(mesh)          # quadrature path, cache_dir=None
        if elems is None:
            elems = list(mesh.leaf_elements)
        A = SL.bilform_matrix(elems, elems, use_mp=False)
    return SL, elems, np.array(A, dtype=float)


def lam_min_scaled(A):
    S = (A + A.T) / 2
    d = np.diag(S)
    if not np.all(d > 0):
        return float('-inf')
    return float(np.linalg.eigvalsh(S / np.sqrt(np.outer(d, d)))[0])


def pd_line(A, mu=MU):
    n = A.shape[0]
    return 'pd check %s %d %s' % (q2s(mu), n, ' '.join(q2s(float(v)) for v in A.flatten()))


def hint(A, mu=MU):
    """Untrusted hint for `pd dom`: R = L^-T for a floating-point Cholesky factor of sym(A) - mu diag (None if numpy's
    factorisation fails)."""
    S = (A + A.T) / 2
    M = S - float(mu) * np.diag(np.diag(S))
    try:
        L = np.linalg.cholesky(M)
        R = np.linalg.inv(L).T
    except np.linalg.LinAlgError:
        return None
    return R if np.all(np.isfinite(R)) else None


def dom_line(A, R, mu=MU):
    n = A.shape[0]
    return 'pd dom %s %d %s %s' % (q2s(mu), n, ' '.join(q2s(float(v)) for v in A.flatten()),
                                   ' '.join(q2s(float(v)) for v in R.flatten()))


def in_quantifier(gamma, elems):
    """The property says 'on every mesh': open or closed curve, any aspect ratio.  (Until round 5 failures on the open
    interval and on elements with h_x^2/h_t > 32 were only reported; the shipped code has lambda_min >= 0.14 there too -
    thin-slab time grids with aspect 3e4, space-only refinement with aspect 1e-5 - so nothing is excluded any more.)"""
    return True


def mesh_plan(rng, tier, boost):
    """(curve, family, target size) triples."""
    big = 44 if tier == 'quick' else 72
    plan = []
    for c in CURVES:
        plan.append((c, 'initial', 0))
    plan.append(('UnitSquare', 'extreme-slabs', 16))     # corpus: known finding F13
    fams = ['uniform', 'random', 'dorfler-iso', 'dorfler-aniso', 'point-graded', 'refine-grading', 'anisotropic', 'time-grid',
            'thin-slabs', 'space-grid']
    reps = (3 if tier == 'quick' else 5) * (2 if boost else 1)
    for r in range(reps):
        for k, f in enumerate(fams):
            # every family on every closed curve over the repetitions; the open interval from time to time
            c = CURVES[(k + r + rng.randrange(4)) % 4] if rng.random() < 0.85 else 'UnitInterval'
            size = rng.choice([8, 16, 24, 32, big]) if f != 'uniform' else rng.choice([16, big, big])
            plan.append((c, f, size))
    if tier == 'quick':
        plan += [('LShape', 'random', 110)]          # beyond the cap of the exact elimination: hint-based certificate
    else:
        plan += [('UnitSquare', 'uniform', 64), ('Circle', 'uniform', 64), ('LShape', 'random', 100),
                 ('PiSquare', 'dorfler-aniso', 90), ('UnitSquare', 'point-graded', 96),
                 ('UnitSquare', 'uniform', 256), ('LShape', 'random', 200), ('Circle', 'random', 180)]
    return plan


def certify_meshes(res, tier, boost=False):
    """(ii) real matrices through the verified checker."""
    rng = seed_rng(res.seed, 'C13mesh')
    cap_exact = 52 if tier == 'quick' else 80      # exact elimination (sound + complete), cost ~ n^4.3
    cap = 135 if tier == 'quick' else 262          # hint-based certificate (sound), cost ~ n^3
    lams, cert_hist, sizes = [], {}, []
    kept = []
    for curve, family, size in mesh_plan(rng, tier, boost):
        try:
            gamma, mesh, hist = build_mesh(rng, curve, family, size)
        except AssertionError as exc:    # a refinement precondition of the repo (not this property)
            res.bump('mesh_construction_asserted')
            res.notes.setdefault('mesh_construction_errors', []).append('%s/%s: %r' % (curve, family, exc))
            continue
        n = len(mesh.leaf_elements)
        if n > cap:
            res.bump('skipped_too_large')
            continue
        SL, elems, A = assemble(mesh)
        inq = in_quantifier(gamma, elems)
        lam = lam_min_scaled(A)
        R = hint(A)
        dom = run_driver([dom_line(A, R)])[0] if R is not None else 'no-hint'
        res.bump('hint_certificate_' + dom.replace('-', '_'))
        if dom not in ('ok', 'undecided', 'no-hint'):
            res.broken_obligation('correspondence C13: unexpected driver answer to pd dom', dom[:200])
        if n <= cap_exact:
            out = run_driver([pd_line(A)])[0]
            if dom == 'ok' and not out.startswith('ok'):
                res.broken_obligation('correspondence C13: pd dom accepts a matrix that pd check rejects (contradicts the '
                                      'theorem domCertScaledQ_sound)', '%s %s n=%d' % (curve, family, n))
        elif dom == 'ok':
            out = 'ok (hint-based certificate)'
        elif n <= 110 and lam < 0.02:
            # the hint did not work and the numerical value is suspicious: spend the time on the exact elimination
            out = run_driver([pd_line(A)])[0]
        else:
            # too large for the exact elimination and the hint did not work: numerically only
            out = 'undecided'
            res.bump('large_matrices_numerically_only')
        nontrivial = n > 1 and bool(np.count_nonzero(A - np.diag(np.diag(A))))
        res.count(('mesh', curve, family, repr(hist)), nontrivial)
        res.bump('matrices_certified' if out.startswith('ok') else 'matrices_not_certified')
        res.bump('matrices_inside_quantifier' if inq else 'matrices_outside_quantifier')
        sizes.append(n)
        lams.append(lam)
        desc = dict(curve=curve, family=family, n=n, max_aspect=max(aspect(e) for e in elems),
                    min_aspect=min(aspect(e) for e in elems), lambda_min_eigvalsh=lam, driver=out, driver_hint_based=dom,
                    inside_quantifier=inq)
        res.sample(desc, limit=10)
        if out.startswith('ok'):
            if lam < 0.01 - 1e-9:
                res.broken_obligation('correspondence C13: verified certificate says > 0.01 but eigvalsh says %.6g' % lam,
                                      repr(desc))
        elif out.startswith('notpd'):
            if lam > 0.01 + 1e-9:
                res.broken_obligation('correspondence C13: verified checker says not positive definite but eigvalsh says %.6g'
                                      % lam, repr(desc))
            data = dict(desc, history=hist, matrix=[[float(v).hex() for v in row] for row in A],
                        note='the verified checker (sound and complete) proves that sym(A) - 0.01 diag(A) is not positive '
                             'definite for this assembled matrix')
            if inq:
                extreme = desc.get('max_aspect', 0) > 1e8
                res.violation('C13:extreme-aspect-not-positive-definite:%s' % curve if extreme else
                              'C13:not-positive-definite:%s:%s' % (curve, family), data)
            else:
                res.notes.setdefault('outside_quantifier_failures', []).append(dict(desc, history=hist))
        elif out == 'undecided':
            if inq and lam < 0.01 - 1e-9:
                res.violation('C13:lambda-min-below-bound:%s:%s' % (curve, family),
                              dict(desc, history=hist, note='numeric (numpy eigvalsh): the matrix is too large for the exact '
                                   'elimination and no hint-based certificate exists'))
        else:
            res.broken_obligation('correspondence C13: unexpected driver answer', out[:200])
        # informative ladder: the largest certified bound
        if out.startswith('ok') and n <= (32 if tier == 'quick' else 48):
            outs = run_driver([pd_line(A, mu) for mu in LADDER])
            best = MU
            for mu, o in zip(LADDER, outs):
                if o.startswith('ok'):
                    best = mu
                else:
                    break
            cert_hist[q2s(best)] = cert_hist.get(q2s(best), 0) + 1
            if float(best) > lam + 1e-9:
                res.broken_obligation('correspondence C13: certified bound %s exceeds eigvalsh %.6g' % (q2s(best), lam), repr(desc))
        kept.append((curve, family, hist, gamma, mesh, SL, elems, A, inq))
    if lams:
        k = int(np.argmin(lams))
        res.notes['lambda_min_eigvalsh'] = dict(min=min(lams), median=float(np.median(lams)), max=max(lams),
                                                argmin=dict(curve=kept[k][0], family=kept[k][1], n=sizes[k],
                                                            inside_quantifier=kept[k][8]) if len(kept) == len(lams) else None)
        res.notes['matrix_sizes'] = dict(min=min(sizes), max=max(sizes), total=len(sizes))
        res.notes['largest_certified_bound_histogram'] = cert_hist
    return kept


def correspond(res, tier):
    tie_exact(res, tier)
    _STATE['kept'] = certify_meshes(res, tier)


# ------------------------------------------------------------------------------------------------------------------
def search(res, tier, boost=False):
    """(iii) the consequences on the real code, plus larger meshes numerically."""
    def vkey(kind, curve, family, elems):
        # consequences of the same defect on the same input (known finding F13: meshes with elements flatter than 1e8)
        if max(aspect(e) for e in elems) > 1e8:
            return 'C13:extreme-aspect-not-positive-definite:%s:%s' % (curve, kind)
        return 'C13:%s:%s:%s' % (kind, curve, family)
    from src.hierarchical_error_estimator import DummyElement
    from src.h_h2_error_estimator import HH2ErrorEstimator
    kept = _STATE.pop('kept', None)
    if kept is None or boost:
        kept = (kept or []) + certify_meshes(res, tier, boost=True)
    rng = seed_rng(res.seed, 'C13s')
    patterns = _STATE.get('patterns') or [[1, 1, -1, -1], [1, -1, 1, -1], [1, -1, -1, 1]]
    worst_scaling = float('inf')
    n_blocks = (40 if tier == 'quick' else 300) * (2 if boost else 1)
    blocks_done = 0
    order = list(range(len(kept)))
    rng.shuffle(order)
    lines, metas = [], []
    for idx in order:
        curve, family, hist, gamma, mesh, SL, elems, A, inq = kept[idx]
        # determinant: a real matrix with positive definite symmetric part has det > 0
        sign, _ = np.linalg.slogdet(A)
        res.count(('det', curve, family, repr(hist)), len(elems) > 1)
        if inq and not sign > 0:
            res.violation(vkey('determinant-not-positive', curve, family, elems),
                          dict(curve=curve, family=family, history=hist, slogdet_sign=float(sign)))
        if blocks_done >= n_blocks:
            continue
        for e in rng.sample(elems, min(len(elems), 3 if tier == 'quick' else 8)):
            kids = DummyElement.uniform_refinement([e])[0]
            with quiet():
                S = np.array(SL.bilform_matrix(kids, kids), dtype=float)      # the call of HierarchicalErrorEstimator.estimate
            scal = [float(np.array(c) @ (S @ np.array(c))) for c in patterns]
            worst_scaling = min([worst_scaling] + [s / float(np.trace(S)) for s in scal])
            blocks_done += 1
            res.count(('block', curve, family, repr(e)), True)
            desc = dict(curve=curve, family=family, elem=repr(e), history=hist, block=[[float(v).hex() for v in r] for r in S],
                        scaling_estim=scal, aspect=aspect(e))
            ok_q = True
            if ok_q and not all(s > 0 for s in scal):
                res.violation(vkey('scaling-estim-not-positive', curve, family, elems), desc)
            lines.append(pd_line(S))
            metas.append((ok_q, curve, family, desc, vkey('child-block-not-positive-definite', curve, family, elems)))
    outs = run_driver(lines) if lines else []
    for o, (ok_q, curve, family, desc, ckey) in zip(outs, metas):
        res.bump('child_blocks_certified' if o.startswith('ok') else 'child_blocks_not_certified')
        if o.startswith('notpd') and ok_q:
            res.violation(ckey, dict(desc, driver=o))
    if worst_scaling < float('inf'):
        res.notes['smallest_scaling_estim_over_trace'] = worst_scaling

    # the same operator asked again for the matrix of the same elements in another order (latest slab first, reversed,
    # shuffled - what a script does that sorts its element list): the second matrix is an assembled matrix as well, it is
    # the first one with rows and columns permuted, and is decided like the first
    again = [k for k in kept if 10 <= len(k[6]) <= 80 and k[8] and max(aspect(e) for e in k[6]) <= 1e8]
    rng.shuffle(again)
    for curve, family, hist, gamma, mesh, SL, elems, A, inq in again[:(3 if tier == 'quick' else 12)]:
        n = len(elems)
        for oname in (('latest-slab-first', 'shuffled') if tier == 'quick' else ('latest-slab-first', 'reversed', 'shuffled')):
            idx = list(range(n))
            if oname == 'reversed':
                idx.reverse()
            elif oname == 'shuffled':
                rng.shuffle(idx)
            else:
                idx.sort(key=lambda i: (-float(elems[i].time_interval[0]), float(elems[i].space_interval[0])))
            lst = [elems[i] for i in idx]
            try:
                with quiet():
                    A2 = np.array(SL.bilform_matrix(lst, lst, use_mp=False), dtype=float)
            except Exception as exc:  # noqa: BLE001
                res.violation('C13:repeated-request-raises:%s:%s' % (curve, family),
                              dict(curve=curve, family=family, history=hist, order=oname, error=repr(exc)))
                break
            res.count(('again', curve, family, oname, repr(hist)), True)
            lam2 = lam_min_scaled(A2)
            desc = dict(curve=curve, family=family, history=hist, n=n, order=oname, permutation=idx, lambda_min_eigvalsh=lam2,
                        lambda_min_first_request=lam_min_scaled(A),
                        max_abs_difference_to_permuted_first=float(np.max(np.abs(A2 - A[np.ix_(idx, idx)]))),
                        history_on_operator='bilform_matrix(leaves, leaves) then bilform_matrix(reordered, reordered), use_mp=False')
            if lam2 < 0.01 - 1e-9:
                o = run_driver([pd_line(A2)])[0] if n <= 110 else 'undecided'
                if o.startswith('notpd') or o == 'undecided':
                    res.violation('C13:not-positive-definite:%s:%s:repeated-request' % (curve, family),
                                  dict(desc, driver=o, matrix=[[float(v).hex() for v in r] for r in A2]))
                    break

    # the worker-pool path on machines with few cores (mp.cpu_count() = 2, 3): the columns are handed out in chunks of
    # M // (16 cpu) + 1 - matrix sizes on both sides of that threshold and with a partial last chunk; the matrix of the pool
    # path is an assembled matrix as well and is decided like the serial one
    import multiprocessing as _mp
    pool_c = [k for k in kept if 33 <= len(k[6]) <= 100 and k[8] and max(aspect(e) for e in k[6]) <= 1e8]
    pool_c.sort(key=lambda k: (len(k[6]) % 2 == 0, len(k[6])))          # odd sizes first: a partial last chunk for cpu = 2
    for curve, family, hist, gamma, mesh, SL, elems, A, inq in pool_c[:(2 if tier == 'quick' else 6)]:
        n = len(elems)
        for cpu in ((2,) if tier == 'quick' else (2, 3)):
            old_cc = _mp.cpu_count
            _mp.cpu_count = lambda cpu=cpu: cpu
            try:
                with quiet():
                    A3 = np.array(SL.bilform_matrix(elems, elems, use_mp=True), dtype=float)
            except Exception as exc:  # noqa: BLE001
                res.violation('C13:pool-path-raises:%s:%s' % (curve, family), dict(curve=curve, family=family, history=hist, cpu_count=cpu, error=repr(exc)))
                break
            finally:
                _mp.cpu_count = old_cc
            res.count(('pool-few-cores', curve, family, cpu, n, repr(hist)), True)
            lam3 = lam_min_scaled(A3)
            if lam3 < 0.01 - 1e-9:
                o = run_driver([pd_line(A3)])[0] if n <= 110 else 'undecided'
                if o.startswith('notpd') or o == 'undecided':
                    res.violation('C13:not-positive-definite:%s:%s:pool-path' % (curve, family),
                                  dict(curve=curve, family=family, history=hist, n=n, cpu_count=cpu, chunk=n // (16 * cpu) + 1,
                                       lambda_min_eigvalsh=lam3, lambda_min_serial=lam_min_scaled(A), driver=o,
                                       zero_columns=[int(j) for j in range(n) if not A3[:, j].any()][:8],
                                       matrix=[[float(v).hex() for v in r] for r in A3]))
                    break

    # h-h/2: the fine matrix assembled by the estimator itself (captured), certified; the value is real and >= 0
    small = [k for k in kept if 3 <= len(k[6]) <= (10 if tier == 'quick' else 18)]
    rng.shuffle(small)
    for curve, family, hist, gamma, mesh, SL, elems, A, inq in small[:(2 if tier == 'quick' else 6)]:
        captured = {}
        orig = SL.bilform_matrix

        def spy(elems_test=None, elems_trial=None, use_mp=False, _orig=orig, _cap=captured):
            m = _orig(elems_test, elems_trial, use_mp=False)
            _cap['mat'] = np.array(m, dtype=float)
            return m
        SL.bilform_matrix = spy
        try:
            n = len(elems)
            rhs_vals = {}

            def g(fine, _rng=rng, _c=rhs_vals):
                return np.array([_c.setdefault(repr(e), _rng.uniform(-1, 1)) for e in fine])
            Phi = np.array([rng.uniform(-1, 1) for _ in range(n)])
            with quiet():
                val = HH2ErrorEstimator(SL, M0=None, g=g, use_mp=False).estimate(elems, Phi)
        finally:
            SL.bilform_matrix = orig
        Af = captured.get('mat')
        res.count(('hh2', curve, family, repr(hist)), True)
        desc = dict(curve=curve, family=family, history=hist, n_fine=None if Af is None else int(Af.shape[0]), value=float(val))
        if Af is None:
            res.broken_obligation('search harness C13: the h-h/2 estimator did not assemble a fine matrix', repr(desc))
            continue
        o = run_driver([pd_line(Af)])[0]
        res.bump('hh2_fine_matrices_certified' if o.startswith('ok') else 'hh2_fine_matrices_not_certified')
        fine_inq = inq
        if fine_inq and o.startswith('notpd'):
            res.violation(vkey('hh2-fine-matrix-not-positive-definite', curve, family, elems),
                          dict(desc, driver=o, matrix=[[float(v).hex() for v in r] for r in Af]))
        if fine_inq and not (math.isfinite(float(val)) and float(val) >= 0):
            res.violation(vkey('hh2-value-not-real', curve, family, elems), desc)
        res.sample(dict(kind='h-h/2', **desc, driver=o), limit=12)

    # larger meshes (up to the ~500 elements of the quantifier): numerically only (eigvalsh of the scaled symmetric part)
    if tier == 'thorough' or boost:
        for curve, family, size in [('Circle', 'dorfler-iso', 300), ('UnitSquare', 'random', 450)]:
            try:
                gamma, mesh, hist = build_mesh(rng, curve, family, size)
            except AssertionError:
                continue
            SL, elems, A = assemble(mesh)
            lam = lam_min_scaled(A)
            res.count(('large', curve, family, len(elems)), True)
            res.notes.setdefault('large_meshes_eigvalsh', []).append(dict(curve=curve, family=family, n=len(elems), lambda_min=lam))
            if in_quantifier(gamma, elems) and lam < 0.01 - 1e-9:
                res.violation('C13:lambda-min-below-bound:%s:%s' % (curve, family),
                              dict(curve=curve, family=family, history=hist, n=len(elems), lambda_min_eigvalsh=lam,
                                   note='numeric (numpy eigvalsh); too large for the verified checkers within the time budget'))


# ------------------------------------------------------------------------------------------------------------------
def replay(res, rec):
    """`./check C13 --replay file`: decides the recorded matrix again with the verified checker and, when a mesh history
    is recorded, rebuilds the mesh on the current tree, assembles and decides again.  Exit 1 iff a violation is reproduced."""
    data = rec.get('data', {})
    rc = 0
    if 'matrix' in data or 'block' in data:
        A = np.array([[float.fromhex(v) for v in row] for row in data.get('matrix', data.get('block'))])
        out = run_driver([pd_line(A)])[0]
        print('recorded matrix (n = %d): pd check 1/100 -> %s ; eigvalsh lambda_min = %.6g' % (A.shape[0], out, lam_min_scaled(A)))
        if out.startswith('notpd'):
            rc = 1
    hist = data.get('history')
    if hist and hist[0][0] == 'init' and 'block' not in data:
        gamma, mesh = rebuild_mesh(hist)
        SL, elems, A2 = assemble(mesh)
        out2 = run_driver([pd_line(A2)])[0] if A2.shape[0] <= 110 else 'too large for the exact elimination'
        same = 'matrix' in data and A2.shape == A.shape and bool(np.array_equal(A2, A))
        print('re-assembled on the current tree (n = %d, bitwise equal to the record: %s): pd check 1/100 -> %s ; eigvalsh '
              'lambda_min = %.6g' % (A2.shape[0], same, out2, lam_min_scaled(A2)))
        rc = 1 if (out2.startswith('notpd') or lam_min_scaled(A2) < 0.01 - 1e-9) else 0
    print('VIOLATION reproduced' if rc else 'not reproduced')
    return rc
