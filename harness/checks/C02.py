"""C02 — mesh leaves always tile the space-time cylinder, minimally and 1-irregularly."""
from fractions import Fraction as F

from ..common import seed_rng
from ..meshgen import INITIAL_GRIDS, Batch, enumerate_histories, random_op
from ..meshops_tie import PROP_MOD as MESHOPS_PROP_MOD, TRUSTED as MESHOPS_TRUSTED, translate_meshops
from ..meshlib import oracle_mesh, PyMesh

PROP_MODS = ['Stbem.Props.C02', 'Stbem.Props.C02Closure', MESHOPS_PROP_MOD]
RULE = ('lock-step correspondence of src/mesh.py (run on Fraction coordinates) with the Lean A-layer model: after '
        'every operation the full state (leaves in order with coordinates, levels, index, parent; vertex list; '
        'reported neighbours per side in order; boundary/seam flags; element counter) must be identical. '
        'Exhaustive: every sequence of single-axis bisections up to the depth bound from small initial meshes; '
        'random: long histories mixing all operation kinds. non-trivial = history in which at least one closure '
        'bisection happened (more leaves created than operations would create alone); distinct = distinct '
        '(initial mesh, operation sequence).')
TRUSTED = [
    'Lean 4.33 kernel; axioms propext, Classical.choice, Quot.sound only',
    'hand-written A-layer model lean/Stbem/Model/Mesh.lean, tied to src/mesh.py by the state-dump correspondence '
    '(harness/meshlib.py, harness/meshgen.py, Driver/MeshCmd.lean)',
    'modelled rather than verified: the half-edge pointer structure (Vertex/Edge objects) is represented by its '
    'observable content (geometric neighbours, vertex coordinates); binary64 rounding of midpoints is not modelled',
    MESHOPS_TRUSTED,
]
ASSUMPTIONS = ['coordinates are exact rationals (Fractions in the correspondence run; dyadic floats are exact too)',
               'OrderedDict / list.sort(stable) semantics of CPython']


def translate(res):
    """Regenerates lean/Stbem/Gen/MeshOps.lean from the refinement drivers of src/mesh.py (broken obligation when a
    construct is outside the translated fragment)."""
    translate_meshops(res)


def _closure_happened(pm, ops):
    n_exp = 0
    return len(pm.mesh.leaf_elements)


def correspond(res, tier):
    rng = seed_rng(res.seed, 'C02')
    batch = Batch(generated=True)
    depth = 4 if tier == 'quick' else 6
    finals = []
    # exhaustive bounded part
    exh = [(0, [F(0), F(1)], [F(0), F(1)], depth), (1, [F(0), F(1)], [F(0), F(1)], depth),
           (1, [F(0), F(1, 3), F(1)], [F(0), F(1)], depth - 1), (0, [F(0), F(1), F(3)], [F(0), F(1, 2), F(1)], depth - 2),
           (1, [F(0), F(1), F(2), F(3)], [F(0), F(1)], depth - 2)]
    n_exh = 0
    for glue, X, T, d in exh:
        for seq in enumerate_histories(glue, X, T, d):
            it = iter(seq)
            pm, ops, status = batch.add_history(glue, X, T, lambda pm, k, it=it: next(it, None))
            n_exh += 1
            nontrivial = len(pm.mesh.leaf_elements) > len(pm.mesh.roots) + len(ops)
            res.count(('exh', glue, tuple(X), tuple(T), tuple(seq)), nontrivial)
            if status == 'err':
                res.violation('C02:bisection-raises', dict(history=batch.histories[-1]))
    res.notes['exhaustive_sequences'] = n_exh
    res.notes['exhaustive_depth'] = depth
    # random long histories
    n_rand = 12 if tier == 'quick' else 120
    length = 60 if tier == 'quick' else 250
    kinds_all = ['rt', 'rs', 'rt', 'rs', 'rb', 'diso', 'daniso', 'grade', 'unifs']
    for h in range(n_rand):
        glue, X, T = INITIAL_GRIDS[h % len(INITIAL_GRIDS)]
        bias = [0.2, 0.5, 0.8][h % 3]
        L = rng.randint(length // 2, length)

        def gen(pm, k, L=L, bias=bias):
            if k >= L or len(pm.mesh.leaf_elements) > (250 if tier == 'quick' else 600):
                return None
            kinds = kinds_all if len(pm.mesh.leaf_elements) < 120 else ['rt', 'rs', 'rb', 'diso', 'daniso']
            if k == 0 and rng.random() < 0.2:
                return ('unif', )
            return random_op(rng, pm, kinds, bias)
        pm, ops, status = batch.add_history(glue, X, T, gen, full_dump_every=1 if tier == 'quick' and h < 4 else 10)
        nontrivial = any(o[0] in ('rt', 'rs', 'rb') for o in ops)
        res.count(('rand', h, res.seed), nontrivial)
        for o in ops:
            res.bump('op_' + o[0])
        finals.append((pm, glue, X, T, batch.histories[-1]))
        if h < 2:
            res.sample(dict(glue=glue, X=batch.histories[-1]['X'], T=batch.histories[-1]['T'],
                            ops=batch.histories[-1]['ops'][:12], final_leaves=len(pm.mesh.leaf_elements)))
        if status == 'err' and ops[-1][0] != 'unifs':
            # uniform_refine_space iterates the leaves unsorted and asserts when the closure of an earlier
            # element has already bisected a later one: a documented precondition (uniform space levels), which
            # the model reproduces; every other operation must never raise
            res.violation('C02:operation-raises:' + str(ops[-1][0]), dict(history=batch.histories[-1]))
        elif status == 'err':
            res.bump('unifs_precondition_asserts')
    # several meshes alive at once, operations interleaved (anything kept on the class / module level between Mesh objects)
    for grp in range(2 if tier == 'quick' else 12):
        specs = []
        for j in range(3):
            glue, X, T = INITIAL_GRIDS[(grp * 3 + j) % len(INITIAL_GRIDS)]
            Lj = rng.randint(8, 25 if tier == 'quick' else 60)

            def gen(pm, k, Lj=Lj):
                if k >= Lj or len(pm.mesh.leaf_elements) > 200:
                    return None
                return random_op(rng, pm, ['rt', 'rs', 'rb', 'diso', 'daniso', 'grade'], 0.6)
            specs.append((glue, X, T, gen))
        for (pm, ops, status), sp in zip(batch.add_interleaved(specs, rng), specs):
            res.count(('interleaved', grp, len(ops), res.seed), any(o[0] in ('rt', 'rs', 'rb') for o in ops))
            finals.append((pm, sp[0], sp[1], sp[2], batch.histories[-1]))
            if status == 'err':
                res.violation('C02:operation-raises:' + str(ops[-1][0]), dict(history=batch.histories[-1], interleaved=True))
    dis = batch.run()
    res.notes['model_lines'] = len(batch.lines)
    res.notes['generated_model_lines'] = batch.n_generated
    if dis is not None:
        res.broken_obligation('correspondence C02: A-layer model%s and src/mesh.py differ' %
                              (' REGENERATED from src/mesh.py (gmesh)' if dis.get('kind') == 'disagreement-generated' else ''),
                              repr(dis)[:6000])
        res.notes['disagreement'] = dis
    # oracle on the final states of the random histories (and of a sample of the exhaustive ones)
    for pm, glue, X, T, hist in finals:
        bad = oracle_mesh(pm.mesh, X, T, glue, check_nbrs=len(pm.mesh.leaf_elements) <= 400)
        for b in [b for b in bad if not b.startswith(('neighbours', 'flags'))][:3]:
            res.violation('C02:' + b.split(':')[0], dict(clause=b, history=hist))


def search(res, tier, boost=False):
    """Oracle on the real mesh after every operation of fresh random histories (no model involved): tiling, levels,
    bookkeeping, and minimality -- a single bisection must produce exactly the declarative least 1-irregular closure
    (harness/refmesh.py), a marking step exactly the double closure of its marked sets."""
    from .. import refmesh
    from ..meshgen import op_json, random_indicators, THETAS
    from .C06 import check_marking
    rng = seed_rng(res.seed, 'C02s')
    from ..meshgen import deep_histories
    from ..meshlib import gmsh_oracle
    for glue, X, T, run in deep_histories(rng, 8 if tier == 'quick' else 50, 22 if tier == 'quick' else 30):
        pm = PyMesh.create(glue, X, T)
        ops, status = run(pm)
        hist = dict(glue=glue, X=X, T=T, ops=[list(o) for o in ops], coordinates='binary64')
        res.count(('deep', glue, tuple(X), tuple(T), len(ops)), True)
        if status == 'err':
            res.violation('C02:operation-raises:deep', dict(history=hist))
            continue
        for b in oracle_mesh(pm.mesh, X, T, glue, check_nbrs=False)[:2]:
            res.violation('C02:' + b.split(':')[0] + ':deep', dict(clause=b, history=hist))
        for b in gmsh_oracle(pm.mesh)[:1]:
            res.violation('C02:gmsh:deep', dict(clause=b, history=hist))
    # meshes built by MeshParametrized on the shipped curves (its constructor refines closed curves with fewer than three
    # pieces before handing the mesh out): bookkeeping after every operation of random histories - the leaf collection is
    # exactly the set of childless elements, element indices are unique (leaves and the whole tree), levels / parent
    # chain / intervals consistent, the leaves tile the cylinder (binary64 arithmetic of the bisections is exact)
    from src.mesh import MeshParametrized
    import src.parametrization as P
    from ..meshlib import all_elements
    from fractions import Fraction as Fr
    curves = ['Circle', 'UnitSquare', 'LShape', 'UnitInterval', 'PiSquare']
    for h in range((5 if tier == 'quick' else 30) * (2 if boost else 1)):
        cname = curves[h % len(curves)]
        Tg = rng.choice([[0., 1.], [0., 0.5, 1.], [0., 0.25, 1.]])
        import contextlib, io
        with contextlib.redirect_stdout(io.StringIO()):
            mesh = MeshParametrized(getattr(P, cname)(), initial_time_mesh=list(Tg))
        pm = PyMesh(mesh)
        ops = []
        for k in range(rng.randint(3, 14)):
            if len(mesh.leaf_elements) > 120:
                break
            op = random_op(rng, pm, [rng.choice(['rt', 'rs', 'rb', 'rs', 'rt'])], rng.choice([0.2, 0.5, 0.8]))
            ops.append(op)
            hist = dict(curve=cname, initial_time_mesh=Tg, ops=[op_json(o) for o in ops], constructor='MeshParametrized')
            out = pm.apply(op)
            res.count(('param-hist', cname, h, k, res.seed), True)
            if out.startswith('err'):
                res.violation('C02:operation-raises:%s:parametrized' % op[0], dict(history=hist))
                break
            leaves = list(mesh.leaf_elements)
            tree = all_elements(mesh)
            bad = None
            ids = [e.glob_idx for e in leaves]
            if len(set(ids)) != len(ids):
                dup = sorted(i for i in set(ids) if ids.count(i) > 1)
                bad = 'index: glob_idx %r is carried by several leaves' % dup[:3]
            elif len(set(e.glob_idx for e in tree)) != len(tree):
                bad = 'index: a glob_idx is carried by several elements of the refinement tree'
            elif set(map(id, leaves)) != set(id(e) for e in tree if not e.children):
                bad = 'leaves: leaf_elements is not the set of childless elements'
            else:
                for e in tree:
                    for c in e.children:
                        if c.parent is not e:
                            bad = 'tree: child %r does not point back to its parent' % c
                    if e.children and len(e.children) != 2:
                        bad = 'tree: %r has %d children' % (e, len(e.children))
                area = sum((Fr(e.time_interval[1]) - Fr(e.time_interval[0])) * (Fr(e.space_interval[1]) - Fr(e.space_interval[0])) for e in leaves)
                total = (Fr(Tg[-1]) - Fr(Tg[0])) * Fr(float(mesh.gamma_space.gamma_length))
                if bad is None and area != total:
                    bad = 'tiling: leaf areas sum to %s, cylinder has %s' % (float(area), float(total))
            if bad:
                res.violation('C02:%s:parametrized' % bad.split(':')[0], dict(clause=bad, history=hist))
                break
        else:
            for b in gmsh_oracle(mesh)[:1]:
                res.violation('C02:gmsh:parametrized', dict(clause=b, history=hist))
    n = (6 if tier == 'quick' else 60) * (4 if boost else 1)
    for h in range(n):
        glue, X, T = INITIAL_GRIDS[rng.randrange(len(INITIAL_GRIDS))]
        pm = PyMesh.create(glue, X, T)
        ops = []
        for k in range(rng.randint(10, 40)):
            if len(pm.mesh.leaf_elements) > 150:
                break
            kind = rng.choice(['rt', 'rs', 'rt', 'rs', 'rb', 'diso', 'daniso', 'grade'])
            hist = dict(glue=glue, X=[str(x) for x in X], T=[str(t) for t in T], ops=[op_json(o) for o in ops])
            if kind in ('diso', 'daniso'):
                eta = random_indicators(rng, len(pm.mesh.leaf_elements), aniso=(kind == 'daniso'))
                theta = float(rng.choice(THETAS))
                ops.append((kind, eta, theta))
                hist['ops'] = [op_json(o) for o in ops]
                sub = type(res)('C02', res.tier, res.seed)   # collect C06-style findings, re-key them for C02
                sub.known = []
                import contextlib, io
                with contextlib.redirect_stdout(io.StringIO()):
                    okm = check_marking(sub, pm, kind, eta, theta, glue, X, hist)
                res.count(('search-mark', h, k), True)
                if not okm:
                    res.violation('C02:marking-step-not-least-refinement:' + kind, dict(history=hist, detail=[open(v).read()[:1500] for v in sub.violations[:1]]))
                    break
            else:
                op = random_op(rng, pm, [kind], rng.choice([0.2, 0.5, 0.8]))
                leaves = list(pm.mesh.leaf_elements)
                rects = [refmesh.of_elem(e) for e in leaves]
                ops.append(op)
                hist['ops'] = [op_json(o) for o in ops]
                out = pm.apply(op)
                if out.startswith('err'):
                    res.violation('C02:operation-raises:' + op[0], dict(history=hist))
                    break
                if op[0] in ('rt', 'rs'):
                    i = [j for j, e in enumerate(leaves) if e.glob_idx == op[1]]
                    want, _ = refmesh.refine_closure(rects, i, 0 if op[0] == 'rt' else 1, glue, X[0], X[-1])
                    if {r.key() for r in want} != refmesh.leafset(pm.mesh):
                        res.violation('C02:bisection-not-least-closure', dict(history=hist))
                        break
            bad = oracle_mesh(pm.mesh, X, T, glue, check_nbrs=False)
            res.count(('search', h, k), True)
            for b in bad[:2]:
                res.violation('C02:' + b.split(':')[0], dict(clause=b, history=hist))
            if bad:
                break
