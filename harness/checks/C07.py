"""C07 — pointwise evaluation of the single-layer operator on the boundary is correct."""
import contextlib
import io
from fractions import Fraction as F

import numpy as np

from ..common import q2s, run_driver, seed_rng
from ..qnum import Q, installed
from ..sllib import TIME_LATTICE, Fixture, random_space_intervals, result_str
from ..slchecks import RealOps, corr_vectors, describe, make_curve, random_real_mesh, with_generated
from .. import numref
from .C04 import translate  # noqa: F401

PROP_MODS = ['Stbem.Props.C07', 'Stbem.Props.PanelsTie', 'Stbem.Props.SLRestTie', 'Stbem.Props.C07TimeAdditive']
RULE = ('correspondence (exact): the real evaluate (in-element split with mirrored log rules, seam-aware choice of the '
        'graded rule, pre-evaluated curve points of _init_elems), evaluate_exact and the evaluation plan on Q numbers '
        'against the Lean model over all point classes (inside, at an end point, within 1e-10 relative, neighbouring '
        'side, across a corner, across the seam, parameter 0 and L) x time classes (before, at start, inside, at end, '
        'after). search (floats): evaluate / evaluate_exact on random meshes of all curves against a graded reference, '
        'three tolerance zones of the property, ratio h_x^2/tau <= 16; the integral of the evaluation over a test '
        'element reproduces the Galerkin entry. non-trivial = t after the start of the element; distinct = request.')
TRUSTED = [
    'Lean 4.33 kernel; axioms propext, Classical.choice, Quot.sound only',
    'translate/formulas.py + exact correspondence (Q numbers, stand-ins)',
    'control flow of __integrate / bilform / evaluate / MP_SL_matrix_col regenerated from the source on every run '
    '(translate/panels.py -> lean/Stbem/Gen/Panels.lean) and proved equal to the hand-written model for all inputs '
    '(Props/PanelsTie.lean); the translator is validated on every run by exact execution of the real methods',
    'evaluate_exact (case distinction, closed forms with their arguments), evaluate_vector, potential(_vector), rhs_vector '
    'regenerated from the source on every run (translate/slrest.py -> Gen/SLRest.lean) and proved equal to the hand model '
    '(Props/SLRestTie.lean); the driver answers `sl evalx` also as `sl genevalx`, and the real vector methods are run on exact '
    'numbers against `sl genevalvec / genpotvec / genrhsvec`',
    'the 1e-8 / 5e-4 / 2e-3 accuracy zones are claims about a fixed rule on a non-polynomial integrand: search only (partial)',
]
ASSUMPTIONS = ['exact arithmetic in the theorems']


def correspond(res, tier):
    rng = seed_rng(res.seed, 'C07')
    n_el = 4 if tier == 'quick' else 16
    for curve in ('unitsquare', 'lshape', 'interval'):
        fx = Fixture(rng, curve, False, log_nodes=rng.randint(1, 3))
        lines = fx.context_lines()
        expect = ['ok'] * len(lines)
        ivs = random_space_intervals(rng, fx, 8)
        with installed(fx.standins):
            for xa in rng.sample(ivs, min(n_el, len(ivs))):
                t0, t1 = rng.choice(TIME_LATTICE)
                e = fx.elem(t0, t1, xa[0], xa[1])
                fx.SL._init_elems([e])
                h = xa[1] - xa[0]
                pts = [xa[0], xa[1], (xa[0] + xa[1]) / 2, xa[0] + h / 8, xa[1] - h / 1024, F(0), fx.length,
                       xa[0] * (1 + F(1, 10**11)), xa[1] * (1 - F(1, 10**11)), xa[1] + h / 3, xa[0] - h / 5,
                       fx.length - F(1, 7), F(1, 9), fx.length / 2]
                if fx.closed:   # the point opposite to the element: both seam-aware distances are EQUAL (tie of `d_a <= d_b`)
                    pts.append(((xa[0] + xa[1]) / 2 + fx.length / 2) % fx.length)
                for xh in pts:
                    if not (0 <= xh <= fx.length):
                        continue
                    for t in (t0 - F(1, 16), t0, t0 + (t1 - t0) / 4096, t0 + (t1 - t0) / 3, t1, t1 + F(1, 5), t1 + F(3)):
                        if t < 0:
                            continue
                        x, pi_ = fx.gamma(xh)
                        lines.append('sl plan %s %s %s' % (e.encode(), q2s(t), q2s(xh)))
                        expect.append(None)
                        try:
                            v = result_str(fx.SL.evaluate(e, Q(t), Q(xh), x))
                        except AssertionError:
                            v = 'assert'
                        lines.append('sl eval %s %s %s %s %s' % (e.encode(), q2s(t), q2s(xh), q2s(x[0, 0]), q2s(x[1, 0])))
                        expect.append(v)
                        if pi_ == e.piece_idx or xh in (xa[0], xa[1]):
                            v = fx.SL.evaluate_exact(e, Q(t), Q(xh))
                            lines.append('sl evalx %s %s %s' % (e.encode(), q2s(t), q2s(xh)))
                            expect.append('none' if v is None else result_str(v))
        with_generated(lines, expect)   # `sl geneval`, `sl genevalx`: the functions regenerated from the source (Gen/Panels.lean, Gen/SLRest.lean)
        out = run_driver(lines)
        for line, want, got in zip(lines, expect, out):
            if want is None:
                res.bump('plan_' + got)
                continue
            res.count(('eval', line), want != '0')
            if want == 'assert':
                continue  # QuadScheme1D.integrate asserts b - a > 1e-5: documented precondition of the interval rule
            if want != got:
                res.broken_obligation('correspondence C07: model and code differ', 'line: %s\npython %s\nmodel %s' % (line, want[:300], got[:300]))
                return
    corr_vectors(res, tier, 'C07v')
    res.sample(dict(point_classes=['end points', 'inside', 'within 1e-11 relative', 'neighbouring side', 'seam', '0 and L',
                                   'equidistant from both ends (opposite point of a closed curve)']))


def search(res, tier, boost=False):
    rng = seed_rng(res.seed, 'C07s')
    curves = ['UnitSquare', 'Circle', 'LShape', 'PiSquare', 'UnitInterval', 'ThinRect', 'Notch']
    n_mesh = (7 if tier == 'quick' else 28) * (2 if boost else 1)
    n_pts = 400 if tier == 'quick' else 1500
    worst = dict(inside=0.0, far=0.0, near=0.0, exact=0.0)
    for mi in range(n_mesh):
        cname = curves[mi % len(curves)]
        gamma, mesh = random_real_mesh(rng, cname, rng.randint(3, 12))
        ops = RealOps(gamma, mesh)
        SL = ops.SL[False]
        elems = list(mesh.leaf_elements)
        L = float(gamma.gamma_length)
        closed = bool(gamma.closed)
        def pick(e):
            xa, xb = map(float, e.space_interval)
            ta, tb = map(float, e.time_interval)
            hx = xb - xa
            kind = rng.choice(['inside', 'end', 'near', 'other', 'node', 'break'])
            if kind == 'break':
                # the seam parameter values 0 and L and the break points of the curve (corners), exactly
                xh = float(rng.choice([0.0, L] + [float(v) for v in gamma.pw_start]))
            elif kind == 'inside':
                xh = rng.uniform(xa + 1e-4 * hx + 2e-5, xb - 1e-4 * hx - 2e-5)
            elif kind == 'end':
                xh = rng.choice([xa, xb])
            elif kind == 'near':
                off = hx * 10**rng.uniform(-6, -1)
                xh = rng.choice([xa - off, xb + off])
            else:
                xh = rng.uniform(0, L)
            if closed:
                xh = xh % L
            if not (0 <= xh <= L):
                return None
            tkind = rng.choice(['mid', 'end', 'after', 'start', 'early'])
            # 'early': the sharpest kernel the quantifier admits (ratio h_x^2/tau between 4 and 16)
            t = {'mid': rng.uniform(ta, tb), 'end': tb, 'after': tb + rng.uniform(0.05, 1.0) * (tb - ta), 'start': ta,
                 'early': ta + hx**2 / 16 * rng.uniform(1.0, 4.0)}[tkind]
            taus = [v for v in (t - ta, t - tb) if v > 0]
            if t > ta and (not taus or hx**2 / min(taus) > 16):
                return None
            return t, xh

        def check(e, t, xh, sweep=False):
            xa, xb = map(float, e.space_interval)
            ta, tb = map(float, e.time_interval)
            hx = xb - xa
            x = gamma.eval(np.array([xh])).reshape(2, 1)
            try:
                val = SL.evaluate(e, t, xh, x)
            except AssertionError:
                return  # closer than 1e-5 to an end point from inside: documented precondition
            if t <= ta:
                if val != 0:
                    res.violation('C07:nonzero-before-start', dict(curve=cname, elem=describe(e), t=t, x_hat=xh))
                return
            K = numref.tik(t, ta, tb)
            g = e.gamma_space
            inside = xa <= xh <= xb
            ref = numref.line_integral(K, lambda y: g(np.asarray(y)), xa, xb, (x[0, 0], x[1, 0]), sing=xh if inside else None)
            err = abs(val - ref) / max(abs(ref), 1e-9)
            if closed:
                dist = min(abs(xh - xa), abs(xh - xb), L - abs(xh - xa), L - abs(xh - xb))
            else:
                dist = min(abs(xh - xa), abs(xh - xb))
            if inside:
                zone, tol = 'inside', 1e-8
            elif dist >= 0.01 * hx:
                zone, tol = 'far', 5e-4
            else:
                zone, tol = 'near', 2e-3
            worst[zone] = max(worst[zone], err)
            res.count(('pt', cname, mi, repr(e), xh, t, sweep), True)
            # the operator configured with pw_exact=True evaluates pointwise, too (the same accuracy is required)
            try:
                val_x = ops.SL[True].evaluate(e, t, xh, x)
                err_x = abs(val_x - ref) / max(abs(ref), 1e-9)
                if err_x > tol and not err > tol:
                    res.violation('C07:evaluate-inaccurate:%s:pw_exact-operator' % zone, dict(curve=cname, elem=describe(e), t=t, x_hat=xh,
                                  value=float(val_x), value_default_operator=float(val), reference=ref, rel_error=err_x, tolerance=tol))
            except AssertionError:
                pass
            if err > tol:
                res.violation('C07:evaluate-inaccurate:' + zone, dict(curve=cname, elem=describe(e), t=t, x_hat=xh, value=float(val),
                              reference=ref, rel_error=err, tolerance=tol))
            # closed-form variant on straight sides: point on the same piece
            if cname != 'Circle' and gamma.pw_start is not None:
                i = max(j for j in range(len(gamma.pw_gamma)) if gamma.pw_start[j] <= xa)
                if gamma.pw_start[i] <= xh <= gamma.pw_start[i + 1]:
                    vx = SL.evaluate_exact(e, t, xh)
                    if vx is None:
                        res.violation('C07:evaluate_exact-returns-none', dict(curve=cname, elem=describe(e), t=t, x_hat=xh))
                    else:
                        ex = abs(vx - ref) / max(abs(ref), 1e-9)
                        worst['exact'] = max(worst['exact'], ex)
                        if ex > 1e-7:
                            res.violation('C07:evaluate_exact-inaccurate', dict(curve=cname, elem=describe(e), t=t, x_hat=xh,
                                          value=float(vx), reference=ref, rel_error=ex))
        for _ in range(n_pts):
            e = rng.choice(elems)
            got = pick(e)
            if got is not None:
                check(e, got[0], got[1])
        # whole-mesh sweeps: ONE point (t, x_hat), every element of the mesh in leaf order by the same operator, as
        # evaluate_vector / the residual do (anything remembered per point between elements is in play); points are
        # drawn relative to a random element so that the neighbours lie in the admitted parabolic range
        for _ in range(3 if tier == 'quick' else 10):
            got = pick(rng.choice(elems))
            if got is None:
                continue
            t, xh = got
            for e in elems:
                ta, tb = map(float, e.time_interval)
                hx = float(e.space_interval[1] - e.space_interval[0])
                taus = [v for v in (t - ta, t - tb) if v > 0]
                if t > ta and (not taus or hx**2 / min(taus) > 16):
                    continue          # outside the quantifier (kernel sharper than the rules are designed for)
                check(e, t, xh, sweep=True)
        # elements very THIN in time (time level 10..16, h_t down to 1.5e-5; space size as the parabolic range admits),
        # observed during and long after their own time interval from anywhere on the curve: the value is small but far
        # above underflow and must be reproduced to the stated relative accuracy
        from ..slchecks import StubElem, addr_interval
        stubs = []
        for _ in range(6 if tier == 'quick' else 20):
            pc = rng.randrange(len(gamma.pw_gamma))
            lt = rng.randint(10, 16)
            plen = float(gamma.pw_start[pc + 1] - gamma.pw_start[pc])
            lx = 0
            while (plen * 2.0**-lx)**2 * 2.0**lt > 16:
                lx += 1
            lx += rng.randint(0, 1)
            if len(gamma.pw_gamma) == 1:
                lx = max(lx, 2)
            ht = 2.0**-lt
            kt = rng.choice([0, 1, 3, rng.randrange(2**lt)])
            stubs.append(StubElem((kt * ht, (kt + 1) * ht), addr_interval(gamma, (pc, lx, rng.randrange(2**lx))), gamma.pw_gamma[pc]))
        try:
            SL._init_elems(stubs)
        except Exception:  # noqa: BLE001 - the operator refuses elements that are not mesh elements: this section is skipped
            res.bump('thin_stub_section_skipped')
            stubs = []
        for e in stubs:
            ta, tb = map(float, e.time_interval)
            hx = float(e.space_interval[1] - e.space_interval[0])
            for t in (ta + (tb - ta) * rng.uniform(0.3, 1.0), tb + (tb - ta) * rng.uniform(0.5, 4.0), tb + 10**rng.uniform(-3, -0.3), tb + 1.0):
                for _ in range(3):
                    xh = rng.uniform(0, L)
                    taus = [v for v in (t - ta, t - tb) if v > 0]
                    if not taus or hx**2 / min(taus) > 16:
                        continue
                    check(e, t, xh, sweep=True)
    # long-lived operator, re-created meshes (example.py --refinement uniform --grading): evaluate by the operator created in
    # iteration 0 on the elements of the mesh object of iteration k, prepared as ErrorEstimator.residual does
    # (`_init_elems(elems)`), against an operator created on that mesh - the two must agree bit for bit
    from ..slchecks import regrid_iterations
    for cname in ('UnitSquare', 'Circle') if tier == 'quick' else ('UnitSquare', 'Circle', 'LShape'):
        for k, mesh_k, els, old, fresh in regrid_iterations(cname, n_iter=3 if cname != 'LShape' else 2):
            old['SL']._init_elems(els)
            if k == 0:
                continue
            gam = mesh_k.gamma_space
            Lk = float(gam.gamma_length)
            for _ in range(25 if tier == 'quick' else 100):
                e = rng.choice(els)
                t = float(e.time_interval[0]) + rng.uniform(0.2, 3.0) * float(e.h_t)
                xh = rng.uniform(0, Lk)
                x = gam.eval(np.array([xh])).reshape(2, 1)
                try:
                    a_, b_ = old['SL'].evaluate(e, t, xh, x), fresh['SL'].evaluate(e, t, xh, x)
                except AssertionError:
                    continue
                res.count(('regrid-eval', cname, k, repr(e), xh, t), True)
                if a_ != b_:
                    res.violation('C07:evaluate-inaccurate:long-lived-operator', dict(curve=cname, iteration=k, elem=describe(e), t=t, x_hat=xh,
                                  value=float(a_), fresh_operator=float(b_), note='operator created on the mesh of iteration 0, element of the re-created mesh'))
                    break
    # closed-form evaluation at times just after the end of the trial element (t = t_b (1 + d), d = 1e-15 ... 1e-6): by
    # additivity of the time integral, (V 1_[ta,tb])(t) = (V 1_[ta,t])(t) - (V 1_[tb,t])(t); the two terms on the right are
    # evaluated by the 't at the end of the element' branch, the left one by the 'after the element' branch
    # (that this is an identity of the closed forms of the code, for every x and any interpretation of sqrt/erf/expi, is the
    # theorem `Stbem.C07.gen_evaluate_exact_time_additive` of lean/Stbem/Props/C07TimeAdditive.lean, so a defect seen here is
    # round-off / cancellation of the float evaluation, never a disagreement of the formulas)
    try:
        from ..slchecks import StubElem as _Stub
        worst_split = 0.0
        for cname in ('UnitSquare', 'LShape') if tier == 'quick' and not boost else ('UnitSquare', 'LShape', 'PiSquare', 'UnitInterval'):
            gamma, mesh = random_real_mesh(rng, cname, rng.randint(3, 8))
            ops = RealOps(gamma, mesh)
            for e in rng.sample(list(mesh.leaf_elements), min(6, len(mesh.leaf_elements))):
                ta, tb = map(float, e.time_interval)
                xa, xb = map(float, e.space_interval)
                if tb <= 0:
                    continue
                for d in (1e-15, 1e-12, 1e-10, 3e-10, 9e-10, 1e-8, 1e-6):
                    t = tb * (1 + d)
                    if not t > tb:
                        continue
                    for xh in (xa + (xb - xa) * rng.choice([0.25, 0.5, 0.8]), rng.choice([xa, xb])):
                        whole = ops.SL[True].evaluate_exact(e, t, xh)
                        e1, e2 = _Stub((ta, t), (xa, xb), e.gamma_space), _Stub((tb, t), (xa, xb), e.gamma_space)
                        parts = ops.SL[True].evaluate_exact(e1, t, xh) - ops.SL[True].evaluate_exact(e2, t, xh)
                        res.count(('exact-just-after-end', cname, repr(e), d, xh), True)
                        err = abs(whole - parts) / max(abs(parts), 1e-300)
                        worst_split = max(worst_split, err)
                        if err > 1e-8:
                            res.violation('C07:evaluate_exact-inaccurate:just-after-end',
                                          dict(curve=cname, elem=describe(e), t=repr(t), relative_offset_after_end=d, x_hat=xh, value=float(whole),
                                               value_by_time_additivity=float(parts), rel_error=err))
                            break
        res.notes['worst_time_additivity_defect_closed_form'] = worst_split
    except AssertionError as exc:
        res.notes['just_after_end_skipped'] = repr(exc)
    # integer-typed requests: a user time grid given as Python ints ([0, 1, 2, 3]: the vertices of the unrefined mesh are
    # ints), evaluation times / parameters that are ints or numpy integers (a node of the same grid).  The value is a
    # function of the numbers, not of their types: the call with ints against the same call with floats.
    try:
        import contextlib as _cl
        import io as _io
        from src.mesh import MeshParametrized
        from src.single_layer import SingleLayerOperator
        for cname in ('UnitSquare', 'LShape') if tier == 'quick' and not boost else ('UnitSquare', 'LShape', 'PiSquare', 'UnitInterval'):
            gamma = make_curve(cname)
            for grid in ([0, 1, 2, 3], [0, 2, 4], [1, 2, 3, 5]):
                try:
                    with _cl.redirect_stdout(_io.StringIO()):
                        mesh = MeshParametrized(gamma, initial_time_mesh=list(grid))
                        if rng.random() < 0.5:
                            mesh.refine_space(rng.choice(list(mesh.leaf_elements)))
                        sl = {False: SingleLayerOperator(mesh), True: SingleLayerOperator(mesh, pw_exact=True)}
                except AssertionError:
                    continue          # (a grid the constructor refuses, e.g. one that does not start at 0)
                elems = list(mesh.leaf_elements)
                for _ in range(6 if tier == 'quick' else 30):
                    e = rng.choice(elems)
                    t_int = rng.choice([t for t in range(grid[0], grid[-1] + 3) if t > e.time_interval[0]])
                    x0, x1 = e.space_interval
                    xs = [float(x0) + (float(x1) - float(x0)) * rng.choice([0.25, 0.5, 0.75])]
                    if float(x0) == int(x0) and rng.random() < 0.5:
                        xs.append(int(x0))
                    for xh in xs:
                        for ttype, tval in (('int', int(t_int)), ('numpy.int64', np.int64(t_int))):
                            calls = [('evaluate', lambda T, X: sl[False].evaluate(e, T, X, mesh.gamma_space.eval(X)))]
                            if cname != 'Circle':
                                calls.append(('evaluate_exact', lambda T, X: sl[True].evaluate_exact(e, T, X)))
                            for nm, call in calls:
                                try:
                                    v_f = call(float(t_int), float(xh))
                                    v_i = call(tval, xh)
                                except (AssertionError, AttributeError, TypeError):
                                    continue
                                if v_f is None or v_i is None:
                                    continue
                                res.count(('int-args', cname, tuple(grid), nm, ttype, repr(e), t_int, xh), True)
                                if abs(float(v_i) - float(v_f)) > 1e-6 * max(abs(float(v_f)), 1e-9):
                                    res.violation('C07:%s-integer-arguments-change-value' % nm,
                                                  dict(curve=cname, initial_time_mesh=list(grid), elem=describe(e), t=int(t_int), t_type=ttype,
                                                       x_hat=xh, x_type=type(xh).__name__, value_integer_arguments=float(v_i),
                                                       value_float_arguments=float(v_f)))
    except ImportError:
        pass
    res.notes['worst_rel_error'] = worst
