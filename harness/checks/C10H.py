"""C10H — the half-edge pointer structure of src/mesh.py computes the geometric neighbour relation (H-layer)."""
from fractions import Fraction as F

from ..common import seed_rng
from ..hmeshlib import HBatch, dump_edges
from ..meshgen import INITIAL_GRIDS, random_op, op_json
from ..meshlib import PyMesh

PROP_MODS = ['Stbem.Props.C10H']
RULE = ('lock-step correspondence of the real Vertex/Edge/Element objects of src/mesh.py (Fraction coordinates) with '
        'the Lean arena translation lean/Stbem/Model/HalfEdge.lean: after every operation the canonical state dump '
        '(leaves, vertex list, Edge.neighbour_elements() per side, flags, counter) of the real mesh must equal the '
        'dump computed from the model pointers (`hm dump`), the dump of the A-layer model run on the same history '
        '(`mesh dump`) and the A-layer dump of the abstraction `abs h` (`hm absdump`); in addition the pointer-level '
        'facts of every leaf edge (vertex indices, owner, parent edge / position among its children / parent '
        'neighbour, neighbour edge with owner, side, children owners, back pointer, flags) must agree (`hm edges`). '
        'Exhaustive: every sequence of single-axis bisections up to the depth bound from small open and glued '
        'initial meshes (every prefix is a state); random: histories of rt/rs/rb. The search evaluates the pointer '
        'invariant (cases a-d of HInv + structural facts) on the real objects against an independent geometric '
        'neighbour computation. non-trivial = state with a hanging node; distinct = distinct (initial mesh, history).')
TRUSTED = [
    'Lean 4.33 kernel; axioms propext, Classical.choice, Quot.sound only',
    'hand-written arena translation lean/Stbem/Model/HalfEdge.lean of the classes Vertex/Edge/Element/Mesh '
    '(object references = array indices; __init__, Edge.bisect, Edge.neighbour_elements, __bisect_edge, '
    '__create_edges, Element.__init__, refine_axis, refine), tied to src/mesh.py by the state + pointer dump '
    'correspondence (harness/hmeshlib.py, harness/meshlib.py, Driver/HMeshCmd.lean). The tie between this model and '
    'the geometric A-layer model of C02/C10 is no longer trusted: it is the refinement theorem '
    '(Stbem.Props.C10H: refinement_theorem, refineId_commutes, refineBoth_commutes, history_commutes, '
    'neighbourElements_eq_nbrs, init_hall)',
    'binary64 rounding of midpoints is not modelled (exact rational coordinates)',
]
ASSUMPTIONS = ['coordinates are exact rationals (Fractions in the correspondence run)',
               'OrderedDict semantics of CPython; object identity of Vertex/Edge/Element (no __eq__ defined)']


def _hanging(pm):
    for e in pm.mesh.leaf_elements:
        for edge in e.edges:
            try:
                if len(edge.neighbour_elements()) == 2:
                    return True
            except AssertionError:
                return True
    return False


def prefixes(glue, X, T, depth, kinds=('rt', 'rs')):
    """All sequences of single-axis bisections of length <= depth (DFS), as (ops, pm, status)."""
    def rec(prefix):
        pm = PyMesh.create(glue, X, T)
        status = 'ok'
        for op in prefix:
            if pm.apply(op).startswith('err'):
                status = 'err'
                break
        yield prefix, pm, status
        if status == 'err' or len(prefix) == depth:
            return
        ids = [e.glob_idx for e in pm.mesh.leaf_elements]
        for gid in ids:
            for k in kinds:
                yield from rec(prefix + [(k, gid)])
    yield from rec([])


def exhaustive_plan(tier):
    d = 4 if tier == 'quick' else 6
    one, half, three = [F(0), F(1)], [F(0), F(1, 2), F(1)], [F(0), F(1), F(2), F(3)]
    return [(1, one, one, d), (0, one, one, d), (0, half, one, d - 1), (1, half, one, d - 1),
            (1, three, [F(0), F(1), F(2)], d - 2 if tier == 'quick' else 3),
            (0, [F(0), F(1), F(3)], [F(0), F(1, 2), F(1)], d - 2 if tier == 'quick' else 3)]


def correspond(res, tier):
    rng = seed_rng(res.seed, 'C10H')
    batch = HBatch()
    n_exh = 0
    for glue, X, T, d in exhaustive_plan(tier):
        for prefix, pm0, status0 in prefixes(glue, X, T, d):
            it = iter(prefix)
            pm, ops, status = batch.add_history(glue, X, T, lambda pm, k, it=it: next(it, None), last_only=True)
            n_exh += 1
            res.count(('exh', glue, tuple(X), tuple(T), tuple(prefix)), _hanging(pm))
            if status == 'err':
                res.violation('C10H:bisection-raises', dict(history=batch.histories[-1]))
    res.notes['exhaustive_states'] = n_exh
    n_rand = 8 if tier == 'quick' else 80
    for h in range(n_rand):
        glue, X, T = INITIAL_GRIDS[(h * 5 + 1) % len(INITIAL_GRIDS)]
        L = rng.randint(20, 40 if tier == 'quick' else 150)

        def gen(pm, k, L=L):
            if k >= L or len(pm.mesh.leaf_elements) > 300:
                return None
            return random_op(rng, pm, ['rt', 'rs', 'rb'], rng.choice([0.2, 0.5, 0.8]))
        pm, ops, status = batch.add_history(glue, X, T, gen)
        res.count(('rand', h, res.seed), _hanging(pm))
        res.bump('random_ops', len(ops))
        if status == 'err':
            res.violation('C10H:refinement-raises', dict(history=batch.histories[-1]))
        if h < 2:
            res.sample(dict(glue=glue, X=batch.histories[-1]['X'], T=batch.histories[-1]['T'],
                            ops=batch.histories[-1]['ops'][:10], leaves=len(pm.mesh.leaf_elements),
                            edges_dump_head=dump_edges(pm.mesh)[:200]))
    dis = batch.run()
    res.notes['model_lines'] = len(batch.lines)
    if dis is not None:
        res.broken_obligation('correspondence C10H: pointer structure of model and src/mesh.py differ', repr(dis)[:6000])


# ------------------------------------------------------------------------------------------------
# independent oracle: the pointer invariant on the real objects
def _geo(leaves, e, side, glue, xmin, xmax):
    """Geometric neighbours of leaf `e` across `side`, in the order opposite to the orientation of the own edge."""
    t0, t1 = e.time_interval
    x0, x1 = e.space_interval
    out = []
    for o in leaves:
        a0, a1 = o.time_interval
        b0, b1 = o.space_interval
        if side in (0, 2):
            touch = (a1 == t0) if side == 0 else (a0 == t1)
            if touch and max(x0, b0) < min(x1, b1):
                out.append(o)
        else:
            if side == 1:
                touch = b0 == x1 or (glue and x1 == xmax and b0 == xmin)
            else:
                touch = b1 == x0 or (glue and x0 == xmin and b1 == xmax)
            if touch and max(t0, a0) < min(t1, a1):
                out.append(o)
    if side == 0:
        out.sort(key=lambda o: o.space_interval[0], reverse=True)
    elif side == 1:
        out.sort(key=lambda o: o.time_interval[0], reverse=True)
    elif side == 2:
        out.sort(key=lambda o: o.space_interval[0])
    else:
        out.sort(key=lambda o: o.time_interval[0])
    return out


def _same_point(v, w, glue, xmin, xmax, seam):
    """Vertices v, w denote the same point of the (glued) cylinder; across the seam xmin ~ xmax."""
    if v.t != w.t:
        return False
    if v.x == w.x:
        return True
    return bool(glue and seam and {v.x, w.x} == {xmin, xmax})


def pointer_oracle(mesh, X, T, glue):
    """Violated clauses of the pointer invariant (list of strings)."""
    bad = []
    leaves = list(mesh.leaf_elements)
    xmin, xmax, tmin, tmax = X[0], X[-1], T[0], T[-1]
    if [v.idx for v in mesh.vertices] != list(range(len(mesh.vertices))):
        bad.append('vertices: idx is not the position')
    coords = [(v.t, v.x) for v in mesh.vertices]
    if len(set(coords)) != len(coords):
        bad.append('vertices: two vertices share coordinates')
    for c in leaves:
        for side, e in enumerate(c.edges):
            tag = 'element %d side %d' % (c.glob_idx, side)
            if e.elem is not c:
                bad.append('ownership: %s edge.elem is not the leaf' % tag)
            if e.children:
                bad.append('ownership: %s leaf edge has children' % tag)
            if c.edges[side - 1].vertices[1] is not e.vertices[0]:
                bad.append('chain: %s does not start where the previous edge ends' % tag)
            seam = glue and ((side == 1 and c.space_interval[1] == xmax) or (side == 3 and c.space_interval[0] == xmin))
            bdr = (side == 0 and c.time_interval[0] == tmin) or (side == 2 and c.time_interval[1] == tmax) or \
                  (side == 1 and c.space_interval[1] == xmax) or (side == 3 and c.space_interval[0] == xmin)
            if bool(e.glued) != bool(seam) or bool(e.on_boundary) != bool(bdr):
                bad.append('flags: %s on_boundary/glued wrong' % tag)
            g = _geo(leaves, c, side, glue, xmin, xmax)
            f = e.nbr_edge
            p = e.parent
            if p is not None:
                if not p.children or all(k is not e for k in p.children):
                    bad.append('parent: %s is not a child of its parent edge' % tag)
                else:
                    k0, k1 = p.children
                    a, b = p.vertices
                    m = k0.vertices[1]
                    if not (k0.vertices[0] is a and k1.vertices[0] is m and k1.vertices[1] is b and
                            m.t == (a.t + b.t) / 2 and m.x == (a.x + b.x) / 2):
                        bad.append('parent: children of the parent edge of %s do not cover it' % tag)
            if f is not None and not f.children:
                # (a)
                if len(g) != 1 or f.elem is not g[0]:
                    bad.append('case a: %s neighbour edge owner %s, geometric %s' %
                               (tag, getattr(f.elem, 'glob_idx', None), [o.glob_idx for o in g]))
                if f.nbr_edge is not e:
                    bad.append('case a: %s nbr_edge is not an involution' % tag)
                if e.glued:
                    ok = (f.glued and _same_point(e.vertices[0], f.vertices[1], glue, xmin, xmax, True) and
                          _same_point(e.vertices[1], f.vertices[0], glue, xmin, xmax, True) and
                          e.vertices[0] is not f.vertices[1] and e.vertices[1] is not f.vertices[0])
                else:
                    ok = e.vertices[0] is f.vertices[1] and e.vertices[1] is f.vertices[0]
                if not ok:
                    bad.append('case a: %s neighbour edge is not the same segment with opposite orientation' % tag)
            elif f is not None:
                # (b)
                k0, k1 = f.children
                if len(g) != 2 or k0.elem is not g[0] or k1.elem is not g[1]:
                    bad.append('case b: %s children owners %s, geometric %s' %
                               (tag, [getattr(k.elem, 'glob_idx', None) for k in f.children], [o.glob_idx for o in g]))
                if k0.children or k1.children or k0.nbr_edge is not None or k1.nbr_edge is not None:
                    bad.append('case b: %s children of the neighbour edge are refined / linked' % tag)
                if f.nbr_edge is not e or f.elem is not None:
                    bad.append('case b: %s refined neighbour edge not linked back / still owned' % tag)
            elif p is not None and p.nbr_edge is not None:
                # (c)
                pf = p.nbr_edge
                if pf.children or len(g) != 1 or pf.elem is not g[0]:
                    bad.append('case c: %s parent neighbour owner %s, geometric %s' %
                               (tag, getattr(pf.elem, 'glob_idx', None), [o.glob_idx for o in g]))
                if pf.nbr_edge is not p:
                    bad.append('case c: %s parent nbr_edge is not an involution' % tag)
            else:
                # (d)
                if g or not (e.on_boundary and not e.glued):
                    bad.append('case d: %s has no pointer neighbour but geometric %s / flags' %
                               (tag, [o.glob_idx for o in g]))
            # what Edge.neighbour_elements() reports
            try:
                rep = e.neighbour_elements()
            except AssertionError:
                bad.append('lookup: neighbour_elements asserts on %s' % tag)
                continue
            if len(rep) != len(g) or any(r is not o for r, o in zip(rep, g)):
                bad.append('lookup: %s reports %s, geometric (ordered) %s' %
                           (tag, [getattr(o, 'glob_idx', None) for o in rep], [o.glob_idx for o in g]))
    return bad


def search(res, tier, boost=False):
    rng = seed_rng(res.seed, 'C10Hs')
    # exhaustive small states
    for glue, X, T, d in exhaustive_plan('quick' if tier == 'quick' else 'thorough'):
        dd = min(d, 3 if tier == 'quick' else 4)
        for prefix, pm, status in prefixes(glue, X, T, dd):
            hist = dict(glue=glue, X=[str(x) for x in X], T=[str(t) for t in T], ops=[list(o) for o in prefix])
            res.count(('s-exh', glue, tuple(X), tuple(T), tuple(prefix)), True)
            if status == 'err':
                res.violation('C10H:bisection-raises', dict(history=hist))
                continue
            bad = pointer_oracle(pm.mesh, X, T, glue)
            if bad:
                res.violation('C10H:' + bad[0].split(':')[0], dict(clause=bad[0], history=hist))
    n = (8 if tier == 'quick' else 80) * (3 if boost else 1)
    for h in range(n):
        glue, X, T = INITIAL_GRIDS[rng.randrange(len(INITIAL_GRIDS))]
        pm = PyMesh.create(glue, X, T)
        ops = []
        for k in range(rng.randint(8, 40)):
            if len(pm.mesh.leaf_elements) > 150:
                break
            op = random_op(rng, pm, ['rt', 'rs', 'rb'], rng.choice([0.2, 0.5, 0.8]))
            ops.append(op)
            hist = dict(glue=glue, X=[str(x) for x in X], T=[str(t) for t in T], ops=[op_json(o) for o in ops])
            if pm.apply(op).startswith('err'):
                res.violation('C10H:refinement-raises', dict(history=hist))
                break
            res.count(('search', h, k), True)
            bad = pointer_oracle(pm.mesh, X, T, glue)
            if bad:
                res.violation('C10H:' + bad[0].split(':')[0], dict(clause=bad[0], history=hist))
                break
