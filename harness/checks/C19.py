"""C19 — grading post-processing terminates with every leaf in the parabolic window."""
import signal
from fractions import Fraction as F

from ..common import seed_rng
from ..meshgen import INITIAL_GRIDS, Batch, random_op, op_json
from ..meshops_tie import PROP_MOD_C19 as MESHOPS_PROP_MOD2, PROP_MOD as MESHOPS_PROP_MOD, TRUSTED as MESHOPS_TRUSTED, translate_meshops
from ..meshlib import PyMesh, oracle_mesh
from .. import refmesh

PROP_MODS = ['Stbem.Props.C19', 'Stbem.Props.C19Dyadic', 'Stbem.Props.C19TimeSlabs', MESHOPS_PROP_MOD, MESHOPS_PROP_MOD2]
RULE = ('random bisection histories (bias 0.2/0.5/0.8) from the shipped-curve-like initial meshes, then '
        'refine_grading(sigma, K=4) with sigma in {1, 1.5, 2}: model and code compared leaf by leaf after the call '
        '(plus the two-slab grids [0, 2^-j, 1], j = 3..7: graded where Props/C19TimeSlabs proves termination, as built otherwise); '
        'search: the real call must return (wall-clock fuse), only refine, leave every leaf in the window '
        'h_t/K < h_x^sigma < K h_t (decided exactly: sigma=p/q compared as powers) and keep all C02 invariants. '
        'non-trivial = grading bisected at least one element; distinct = distinct (initial mesh, history, sigma).')
TRUSTED = [
    'Lean 4.33 kernel; axioms propext, Classical.choice, Quot.sound only',
    'A-layer mesh model + correspondence harness (as C02)',
    'termination is proved only under the hypotheses stated in Props/C19.lean, C19Dyadic.lean, C19TimeSlabs.lean; for general '
    'meshes it is explored',
    MESHOPS_TRUSTED,
]
ASSUMPTIONS = ['exact coordinates; sigma = p/q compared without roots']

SHIPPED = [  # (glue, X, T) of the shipped curves (unit / pi square: 4 equal sides; L-shape after the long sides are
    # split: 8 unit pieces; circle after the 3-elements guard: 4 arcs; interval: one piece)
    (1, [F(0), F(1), F(2), F(3), F(4)], [F(0), F(1)]),
    (1, [F(i) for i in range(9)], [F(0), F(1)]),
    (0, [F(0), F(1)], [F(0), F(1)]),
    (1, [F(0), F(1), F(2), F(3), F(4)], [F(0), F(1, 2), F(1)]),
    (1, [F(0), F(1), F(3), F(5), F(6), F(7), F(8)], [F(0), F(1)]),   # L-shape before splitting: sides 1,2,2,1,1,1
    # user-supplied initial time grids with slabs of different lengths (MeshParametrized(gamma, initial_time_mesh=...))
    (1, [F(0), F(1), F(2), F(3), F(4)], [F(0), F(1, 4), F(1)]),
    (1, [F(0), F(1), F(2), F(3), F(4)], [F(0), F(1, 4), F(1, 2), F(1)]),
    (0, [F(0), F(1)], [F(0), F(1, 8), F(1)]),
    (1, [F(i) for i in range(9)], [F(0), F(1, 2), F(3, 2)]),
    (1, [F(0), F(1), F(2), F(3), F(4)], [F(0), F(1), F(17, 16)]),
    (1, [F(0), F(1), F(2), F(3), F(4)], [F(0), F(1, 16), F(1)]),
]


# minimised past failures, replayed first (found by the Lean-side search for a negation witness of
# `grading_no_assert` on the unrepaired model and confirmed on the real code)
CORPUS = [
    # finding F12: slabs of lengths 1/64 and 63/64, sigma = 1 - the sweep never reaches the window (runs away)
    (1, [F(0), F(1), F(2), F(3), F(4)], [F(0), F(1, 64), F(1)], [], 1),
    (0, [F(0), F(1), F(3)], [F(0), F(1)], [('rs', 0), ('rs', 2), ('rt', 5), ('rt', 6)], 2),
    (0, [F(0), F(1), F(2)], [F(0), F(1)], [('rs', 0), ('rs', 2), ('rs', 4), ('rs', 6), ('rt', 9), ('rt', 10), ('rt', 16),
                                           ('rt', 24), ('rt', 34), ('rt', 46)], 2),
]


def translate(res):
    """Regenerates lean/Stbem/Gen/MeshOps.lean from the refinement drivers of src/mesh.py (broken obligation when a
    construct is outside the translated fragment)."""
    translate_meshops(res)


class Timeout(Exception):
    pass


BUDGET = 20000


def _alarm(*a):
    raise Timeout()


def in_window(e, p, q, K):
    ht = e.time_interval[1] - e.time_interval[0]
    hx = e.space_interval[1] - e.space_interval[0]
    return (ht / K)**q < hx**p and hx**p < (K * ht)**q


def histories(res, rng, n, maxops):
    for h in range(n):
        glue, X, T = SHIPPED[h % len(SHIPPED)]
        bias = [0.2, 0.5, 0.8][h % 3]
        sigma = [2, 1, 1.5, 2][h % 4]
        L = rng.randint(0, maxops)
        yield h, glue, X, T, bias, sigma, L


def correspond(res, tier):
    rng = seed_rng(res.seed, 'C19')
    batch = Batch(generated=True)
    n = 60 if tier == 'quick' else 400
    for h, glue, X, T, bias, sigma, L in histories(res, rng, n, 14 if tier == 'quick' else 40):
        def gen(pm, k, L=L, bias=bias, sigma=sigma, h=h):
            if k < L:
                mlx = max(e.levels[1] for e in pm.mesh.leaf_elements)
                mlt = max(e.levels[0] for e in pm.mesh.leaf_elements)
                kinds = []
                if mlx < {1: 4, 1.5: 3, 2: 2}[sigma]:
                    kinds.append('rs')
                if mlt < 5:
                    kinds.append('rt')
                if not kinds:
                    return ('grade', sigma, 4) if k == L else None
                e = rng.choice(list(pm.mesh.leaf_elements))
                kind = 'rt' if (rng.random() < bias and 'rt' in kinds) or 'rs' not in kinds else 'rs'
                return (kind, e.glob_idx)
            if k == L:
                return ('grade', sigma, 4)
            if k == L + 1 and h % 2 == 0 and len(pm.mesh.leaf_elements) <= 40:
                # a second grading call on the same mesh object with another exponent (size-guarded)
                s2 = {2: 1.5, 1.5: 2, 1: 1.5}[sigma]
                mlt = max(e.levels[0] for e in pm.mesh.leaf_elements)
                mlx = max(e.levels[1] for e in pm.mesh.leaf_elements)
                if mlt <= 5 and mlx <= 4:
                    return ('grade', s2, 4)
            return None
        pm, ops, status = batch.add_history(glue, X, T, gen, full_dump_every=0)
        res.count(('hist', h, res.seed, sigma), True)
        if status == 'err':
            res.violation('C19:grading-raises', dict(history=batch.histories[-1]))
        if h < 2:
            res.sample(dict(glue=glue, X=batch.histories[-1]['X'], ops=batch.histories[-1]['ops'], leaves=len(pm.mesh.leaf_elements)))
    # two time slabs [0, 2^-j, 1] over the unit square (Props/C19TimeSlabs): the initial mesh of finding F12 (j = 6: the
    # mesh of `grading_time_slabs_diverges`, compared as built, no grading call) and the grids on which the loop is proved
    # to terminate (q*j + 2 <= 6q + p), compared leaf by leaf after the grading call
    X4 = [F(0), F(1), F(2), F(3), F(4)]
    for j in (3, 4, 5, 6, 7):
        for sigma in (1, 1.5, 2):
            p_, q_ = {1: (1, 1), 2: (2, 1), 1.5: (3, 2)}[sigma]
            terminates = q_ * j + 2 <= 6 * q_ + p_
            if not terminates and sigma != 1:
                continue
            def gen(pm, k, sigma=sigma, terminates=terminates):
                return ('grade', sigma, 4) if (k == 0 and terminates) else None
            pm, ops, status = batch.add_history(1, X4, [F(0), F(1, 2**j), F(1)], gen, full_dump_every=0)
            res.count(('slabs', j, sigma), terminates)
            res.bump('slab_grids_graded' if terminates else 'slab_grids_init_only')
            if status == 'err':
                res.violation('C19:grading-raises', dict(history=batch.histories[-1]))
    dis = batch.run()
    res.notes['model_lines'] = len(batch.lines)
    res.notes['generated_model_lines'] = batch.n_generated
    if dis is not None:
        res.broken_obligation('correspondence C19: grading model%s and src/mesh.py differ' %
                              (' REGENERATED from src/mesh.py (gmesh)' if dis.get('kind') == 'disagreement-generated' else ''),
                              repr(dis)[:6000])


def search(res, tier, boost=False):
    rng = seed_rng(res.seed, 'C19s')
    n = (80 if tier == 'quick' else 800) * (3 if boost else 1)
    signal.signal(signal.SIGALRM, _alarm)
    todo = [(-1 - i, c[0], c[1], c[2], None, c[4], c[3]) for i, c in enumerate(CORPUS)]
    todo += list(histories(res, rng, n, 25 if tier == 'quick' else 200))
    for h, glue, X, T, bias, sigma, L in todo:
        if sum(1 for v in res.violations if 'no-termination' in str(v)) >= 3:
            break       # every further runaway costs a full bisection budget; three replays are enough
        pm = PyMesh.create(glue, X, T)
        ops = []
        if isinstance(L, list):
            for op in L:
                ops.append(op)
                pm.apply(op)
            L = 0
        for k in range(L):
            leaves = list(pm.mesh.leaf_elements)
            mlx = max(e.levels[1] for e in leaves)
            mlt = max(e.levels[0] for e in leaves)
            kinds = (['rs'] if mlx < {1: 4, 1.5: 3, 2: 2}[sigma] else []) + (['rt'] if mlt < 5 else [])
            if not kinds or len(leaves) > 150:
                break
            kind = 'rt' if (rng.random() < bias and 'rt' in kinds) or 'rs' not in kinds else 'rs'
            op = (kind, rng.choice(leaves).glob_idx)
            ops.append(op)
            pm.apply(op)
        def grade_and_check(sigma):
            before = refmesh.leafset(pm.mesh)
            rects_before = [refmesh.of_elem(e) for e in pm.mesh.leaf_elements]
            hist = dict(glue=glue, X=[str(x) for x in X], T=[str(t) for t in T], ops=[op_json(o) for o in ops], sigma=sigma)
            ops.append(('grade', sigma, 4))
            signal.alarm(60)
            # bisection budget: a grading call that performs more than BUDGET bisections on these small meshes (the
            # window is reached after a few hundred at most) is running away - stop it before it eats the memory
            real_refine_axis = pm.mesh.refine_axis
            spent = [0]

            def budgeted(elem, ax):
                spent[0] += 1
                if spent[0] > BUDGET:
                    raise Timeout()
                return real_refine_axis(elem, ax)
            pm.mesh.refine_axis = budgeted
            try:
                out = pm.apply(('grade', sigma, 4))
            except Timeout:
                unequal_t = len(set(F(T[i + 1]) - F(T[i]) for i in range(len(T) - 1))) > 1
                res.violation('C19:no-termination:unequal-time-slabs' if unequal_t and not ops[:-1] else 'C19:no-termination',
                              dict(history=hist, fuse_s=60, bisection_budget=BUDGET, bisections=spent[0],
                                   leaves_when_stopped=len(pm.mesh.leaf_elements)))
                return False
            finally:
                signal.alarm(0)
                del pm.mesh.refine_axis
            res.count(('grade', h, res.seed, sigma, len(ops)), refmesh.leafset(pm.mesh) != before)
            if out.startswith('err'):
                res.violation('C19:grading-raises', dict(history=hist))
                return False
            p, q = {1: (1, 1), 2: (2, 1), 1.5: (3, 2)}[sigma]
            badw = [e for e in pm.mesh.leaf_elements if not in_window(e, p, q, 4)]
            if badw:
                res.violation('C19:leaf-outside-window', dict(history=hist, leaf=repr(badw[0])))
                return False
            # only refines: every new leaf lies in an old leaf
            for e in pm.mesh.leaf_elements:
                r = refmesh.of_elem(e)
                if not any(o.t0 <= r.t0 and r.t1 <= o.t1 and o.x0 <= r.x0 and r.x1 <= o.x1 and o.lt <= r.lt and o.lx <= r.lx
                           for o in rects_before):
                    res.violation('C19:not-a-refinement', dict(history=hist))
                    return False
            bad = oracle_mesh(pm.mesh, X, T, glue, check_nbrs=len(pm.mesh.leaf_elements) <= 300)
            if bad:
                res.violation('C19:invariant-broken:' + bad[0].split(':')[0], dict(clause=bad[0], history=hist))
                return False
            return True

        def cost(sigma):
            """cells needed to bring every leaf into the window on its own (size guard for a further grading call)"""
            p, q = {1: (1, 1), 2: (2, 1), 1.5: (3, 2)}[sigma]
            tot = 0
            for e in pm.mesh.leaf_elements:
                ht = F(e.time_interval[1]) - F(e.time_interval[0])
                hx = F(e.space_interval[1]) - F(e.space_interval[0])
                j = 0
                while not (hx**p < (4 * ht)**q) and j < 40:
                    hx, j = hx / 2, j + 1
                while not ((ht / 4)**q < hx**p) and j < 40:
                    ht, j = ht / 2, j + 1
                tot += 2**j
            return tot

        ok = grade_and_check(sigma)
        # a graded mesh is a reachable mesh: bisect on and grade again, with another exponent
        calls = 0
        while ok and calls < 2 and rng.random() < 0.5:
            calls += 1
            for _ in range(rng.randint(0, 3)):
                leaves = list(pm.mesh.leaf_elements)
                if len(leaves) > 150:
                    break
                op = (rng.choice(['rt', 'rs']), rng.choice(leaves).glob_idx)
                ops.append(op)
                pm.apply(op)
            sigma2 = rng.choice([s for s in (1, 1.5, 2) if s != sigma])
            if cost(sigma2) > 600:
                res.bump('regrade_skipped_size_guard')
                break
            res.bump('regrade_calls')
            ok = grade_and_check(sigma2)
            sigma = sigma2
