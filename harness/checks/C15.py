"""C15 — derived quadrature schemes preserve measure and polynomial exactness."""
import itertools
from fractions import Fraction as F

import numpy as np

from ..common import run_driver, q2s, seed_rng
from ..exact import NEWTON_COTES, enc_list, enc_rule1, enc_scheme, farr, rand_frac, rand_rule

PROP_MODS = ['Stbem.Props.C15', 'Stbem.Props.QuadTie', 'Stbem.Props.QuadTieUses', 'Stbem.Props.QuadCtorTie']
RULE = ('correspondence: random rational base rules (1-4 nodes) and boxes, every constructor / mirror '
        'combination of src/quadrature.py run on Fraction arrays and compared element-by-element with the Lean '
        'model AND with the definitions regenerated from the source text (Gen/QuadGen.lean, requests g1/g2/g3 = twins of '
        'q1/q2/q3; in addition the a == b shortcut, the size assertions of integrate at the binary64 thresholds, '
        'ProductScheme2D with the default second rule, the eight *_quadrature_scheme constructors on key-encoding '
        'stand-in tables (gc), and every function of the NumPy prelude against NumPy itself (gnp)); '
        'non-trivial = rule with >= 2 nodes on a non-unit box; distinct = distinct (constructor chain, '
        'rule, box, integrand). search: exact Newton-Cotes rules and the tabulated float rules through the real '
        'classes against closed-form monomial integrals.')
TRUSTED = [
    'Lean 4.33 kernel; axioms propext, Classical.choice, Quot.sound only',
    'correspondence harness harness/checks/C15.py + Lean driver parser (Driver/QuadCmd.lean, Driver/QuadGenCmd.lean)',
    'translate/quadgen.py (ast of src/quadrature.py -> Gen/QuadGen.lean, regenerated on every run) and its NumPy prelude '
    '(element order of np.repeat/tile/kron/hstack/vstack, broadcasting scalar o array): every generated function is run '
    'against the real class on Fraction arrays, every prelude function against NumPy; Props/QuadTie.lean proves the '
    'generated functions equal to the hand-written model lean/Stbem/Model/Quad.lean for all rules',
    'Python semantics: Fraction arithmetic is exact; NumPy object arrays apply Python operators element-wise',
    'modelled, not verified: binary64 rounding of np.dot when a rule is used with floats',
]
ASSUMPTIONS = ['exact arithmetic (floats are rationals); the size assertions of integrate() are preconditions of the hand-written '
               'model and are modelled (Except.error "assert:size" at the binary64 thresholds) by the functions regenerated from '
               'the source; scheme objects are well formed (rows of points as long as weights) and their arrays are not mutated '
               'in place by callers',
               'exactness on a general box follows from exactness on the reference box by the affine pull-back '
               'identity integrate*_eq (change of variables for polynomials is classical, not formalised)']


def mk_fun(spec):
    kind, *cs = spec.split(':')
    if kind == 'm':
        i, j, k = map(int, cs)

        def f(x):
            x = np.asarray(x, dtype=object)
            if x.ndim == 1:
                return x**i
            r = x[0]**i * x[1]**j
            if x.shape[0] > 2:
                r = r * x[2]**k
            return r
        return f
    if kind == 'r':
        c = [F(v) for v in cs]

        def f(x):
            x = np.asarray(x, dtype=object)
            if x.ndim == 1:
                return 1 / (c[0] + c[1] * x)
            d = c[0] + c[1] * x[0] + c[2] * x[1]
            if x.shape[0] > 2:
                d = d + c[3] * x[2]
            return 1 / d
        return f
    if kind == 'p':
        c = [F(v) for v in cs]

        def f(x):
            x = np.asarray(x, dtype=object)
            if x.ndim > 1:
                x = x[0]
            acc = 0 * x
            for ck in reversed(c):
                acc = ck + x * acc
            return acc
        return f
    raise ValueError(spec)


def rand_fun(rng, dim):
    k = rng.random()
    if k < 0.4:
        e = [rng.randint(0, 4) for _ in range(3)]
        for d in range(dim, 3):
            e[d] = 0
        return 'm:%d:%d:%d' % tuple(e)
    if k < 0.8 or dim > 1:
        c = [F(rng.randint(1, 5)), F(rng.randint(1, 7), 3), F(rng.randint(1, 7), 5), F(rng.randint(1, 7), 2)]
        for d in range(dim, 3):
            c[d + 1] = F(0)
        return 'r:' + ':'.join(q2s(v) for v in c)
    return 'p:' + ':'.join(q2s(F(rng.randint(-9, 9), rng.randint(1, 4))) for _ in range(rng.randint(1, 6)))


def rand_box(rng, dim):
    out = []
    for _ in range(dim):
        a = F(rng.randint(0, 30), rng.choice([1, 2, 3, 7]))
        h = rng.choice([F(1, 10000), F(1, 100), F(1, 3), F(1), F(5, 2), F(17), F(1000)])
        out += [a, a + h]
    return out


def translate_quadgen(res):
    """Regenerates lean/Stbem/Gen/QuadGen.lean (every class, method and function of src/quadrature.py except the
    quadpy wrapper) from the working tree of the repository under test; a construct the translator does not
    understand raises (= broken obligation)."""
    import os
    import sys
    from ..common import LEAN, REPO, VERIF, write_if_changed
    sys.path.insert(0, os.path.join(VERIF, 'translate'))
    import subprocess
    import quadgen

    def compiles(text):
        # a changed file is compiled on its own (it imports nothing) before it replaces Gen/QuadGen.lean, which the driver links
        tmp = os.path.join(LEAN, '.lake', 'quadgen_check_%d.lean' % os.getpid())
        with open(tmp, 'w') as fh:
            fh.write(text)
        try:
            p = subprocess.run(['lake', 'env', 'lean', tmp], cwd=LEAN, stdout=subprocess.PIPE, stderr=subprocess.STDOUT, text=True,
                               timeout=600)
        finally:
            os.unlink(tmp)
        return None if p.returncode == 0 else p.stdout[-2000:]
    stats = quadgen.generate(REPO, os.path.join(LEAN, 'Stbem', 'Gen'), write_if_changed, compiles)
    res.bump('generated_file_changed', stats.get('changed', 0))
    for k in ('classes', 'constructors', 'methods', 'memo_methods', 'module_functions', 'assignments', 'branches', 'returns',
              'asserts', 'isinstance_asserts', 'numpy_calls', 'array_ops', 'float_constants', 'external_rule_calls'):
        res.bump('translated_' + k, stats.get(k, 0))
    res.count(('translated', 'quadrature.py'), True, n=stats.get('assignments', 0) + stats.get('returns', 0))
    return stats


def translate(res):
    translate_quadgen(res)
    # the key maps of the Gauss constructors as recorded by C05's translator (its own ast pattern on src/quadrature.py):
    # Gen/CtorKeys.lean, compared with the regenerated constructors in Props/QuadCtorTie.lean
    import os
    import sys
    from ..common import LEAN, REPO, VERIF, write_if_changed
    sys.path.insert(0, os.path.join(VERIF, 'translate'))
    import rules as T
    T.generate_ctor_keys(REPO, os.path.join(LEAN, 'Stbem', 'Gen'), write_if_changed)


GEN_TWIN = {'q1': 'g1', 'q2': 'g2', 'q3': 'g3'}


def standin_rule(*ks):
    """Rule table stand-in that encodes the key it is asked for (the same as Driver/QuadGenCmd.lean standIn1/2); the
    entries are Q numbers so that the float literals 0.5 / 1.0 of gauss_quadrature_scheme are absorbed exactly."""
    from ..qnum import Q as QN
    n = F(int(ks[0]))
    m = F(int(ks[1])) if len(ks) > 1 else F(0)
    pts, wts = np.empty(2, dtype=object), np.empty(2, dtype=object)
    pts[0], pts[1] = QN(n), QN(m + F(1, 7))
    wts[0], wts[1] = QN(n / 3 - m), QN(2)
    return pts, wts


class _NPShim:
    """`np` of src.quadrature with `np.polynomial.legendre.leggauss` replaced by the stand-in table"""
    class _Leg:
        leggauss = staticmethod(standin_rule)

    class _Poly:
        pass

    def __init__(self):
        self.polynomial = self._Poly()
        self.polynomial.legendre = self._Leg()

    def __getattr__(self, k):
        return getattr(np, k)


def corr_constructors(Qm, add):
    """The eight *_quadrature_scheme constructors: the real functions with the tabulated rule functions replaced (in the
    harness process) by the key-encoding stand-in, against the generated functions on the same stand-in."""
    one = {'gauss': ('gauss_quadrature_scheme', None), 'gauss_sqrtinv': ('gauss_sqrtinv_quadrature_scheme', 'gauss_sqrtinv_quadrature_rule'),
           'gauss_x': ('gauss_x_quadrature_scheme', 'gauss_x_quadrature_rule'), 'gauss_log': ('gauss_log_quadrature_scheme', 'gauss_log_quadrature_rule')}
    two = {'log': ('log_quadrature_scheme', 'log_quadrature_rule'), 'log_log': ('log_log_quadrature_scheme', 'log_log_quadrature_rule'),
           'sqrt': ('sqrt_quadrature_scheme', 'sqrt_quadrature_rule'), 'sqrtinv': ('sqrtinv_quadrature_scheme', 'sqrtinv_quadrature_rule')}
    saved = {k: getattr(Qm, k) for k in ['np'] + [v[1] for v in list(one.values()) + list(two.values()) if v[1]]}
    try:
        Qm.np = _NPShim()
        for v in list(one.values()) + list(two.values()):
            if v[1]:
                setattr(Qm, v[1], standin_rule)

        def run(fn, *a):
            try:
                return enc_scheme(fn(*a))
            except AssertionError:
                return 'error:assert:odd'
        for tag, (fname, _) in one.items():
            for n in range(-4, 27):
                add('gc %s %d' % (tag, n), run(getattr(Qm, fname), n), ('ctor', tag, n), True)
        for tag, (fname, _) in two.items():
            for n, m in itertools.product(range(-1, 8), range(-1, 5)):
                add('gc %s %d %d' % (tag, n, m), run(getattr(Qm, fname), n, m), ('ctor', tag, n, m), True)
    finally:
        for k, v in saved.items():
            setattr(Qm, k, v)


def corr_numpy_prelude(rng, add, n_rep):
    """Every function of the NumPy prelude of Gen/QuadGen.lean against NumPy itself on Fraction object arrays."""
    def ra(n):
        return farr([F(rng.randint(-9, 9), rng.randint(1, 6)) for _ in range(n)])

    def rm(k, n):
        m = np.empty((k, n), dtype=object)
        for i in range(k):
            m[i, :] = ra(n)
        return m

    def el(xs):   # driver output syntax (an empty array prints as the empty string)
        return ','.join(q2s(x) for x in xs)

    def em(m):
        return ';'.join(el(r) for r in m)
    ops = {'add': lambda u, v: u + v, 'sub': lambda u, v: u - v, 'mul': lambda u, v: u * v, 'div': lambda u, v: u / v}
    for rep in range(n_rep):
        n, k = rng.randint(1, 5), rng.randint(0, 4)
        a, b = ra(n), ra(rng.randint(1, 4))
        add('gnp repeat %s %d' % (enc_list(a), k), el(np.repeat(a, k)), ('np', 'repeat', rep))
        add('gnp tile %s %d' % (enc_list(a), k), el(np.tile(a, k)), ('np', 'tile', rep))
        add('gnp kron %s %s' % (enc_list(a), el(b)), el(np.kron(a, b)), ('np', 'kron', rep))
        add('gnp hstack %s %s %s' % (enc_list(a), el(b), el(a)), el(np.hstack([a, b, a])), ('np', 'hstack', rep))
        add('gnp hstack %s %s' % (enc_list(a), el(b)), el(np.concatenate([a, b])), ('np', 'concatenate', rep))
        c = ra(n)
        add('gnp dot %s %s' % (enc_list(a), el(c)), q2s(np.dot(a, c)), ('np', 'dot', rep))
        add('gnp sum %s' % enc_list(a), q2s(sum(a)), ('np', 'sum', rep))
        add('gnp array %s' % enc_list(a), el(np.array(list(a))), ('np', 'array', rep))
        add('gnp array %s' % enc_list(a), el(np.asarray(a)), ('np', 'asarray', rep))
        add('gnp len %s' % enc_list(a), str(len(a)), ('np', 'len', rep))
        add('gnp pow %s %d' % (enc_list(a), k), el(a**k), ('np', 'pow', rep))
        add('gnp neg %s' % enc_list(a), el(-a), ('np', 'neg', rep))
        s = F(rng.randint(1, 9), rng.randint(1, 4))
        cn = farr([v if v != 0 else F(1, 7) for v in c])
        for nm, f in ops.items():
            add('gnp sa %s %s %s' % (nm, q2s(s), el(cn)), el(f(s, cn)), ('np', 'sa', nm, rep))
            add('gnp as %s %s %s' % (nm, enc_list(a), q2s(s)), el(f(a, s)), ('np', 'as', nm, rep))
            add('gnp aa %s %s %s' % (nm, enc_list(a), el(cn)), el(f(a, cn)), ('np', 'aa', nm, rep))
        rows = rng.randint(2, 3)
        m1, m2, m3 = rm(rows, n), rm(rows, rng.randint(1, 3)), rm(rows, rng.randint(1, 3))
        add('gnp arraym %s' % em(m1), em(np.array([r for r in m1])), ('np', 'arraym', rep))
        add('gnp shape1 %s' % em(m1), str(m1.shape[1]), ('np', 'shape1', rep))
        i = rng.randrange(rows)
        add('gnp row %s %d' % (em(m1), i), el(m1[i]), ('np', 'row', rep))
        add('gnp repeat1 %s %d' % (em(m1), k), em(np.repeat(m1, k, axis=1)), ('np', 'repeat1', rep))
        add('gnp hstackm %s %s %s' % (em(m1), em(m2), em(m3)), em(np.hstack([m1, m2, m3])), ('np', 'hstackm', rep))
        # a list of 1-D arrays counts as a 2-D array for hstack (the T1..T6 / P1..P3 lists of the 3-D Duffy schemes)
        add('gnp hstackm %s %s' % (em(m1), em(m2)), em(np.hstack([[r for r in m1], [r for r in m2]])), ('np', 'hstackm-lists', rep))
        add('gnp vstack %s %s' % (em(m1), el(c)), em(np.vstack([m1, c])), ('np', 'vstack', rep))
        f1, f2, f3 = rand_fun(rng, 1), rand_fun(rng, 2), rand_fun(rng, 3)
        pa = farr([abs(v) for v in a])
        add('gnp map1 %s %s' % (f1, enc_list(pa)), el(np.asarray(mk_fun(f1)(pa))), ('np', 'map1', rep))
        p2 = np.array([[abs(v) for v in r] for r in rm(2, n)], dtype=object)
        add('gnp map2 %s %s' % (f2, em(p2)), el(np.asarray(mk_fun(f2)(p2))), ('np', 'map2', rep))
        p3 = np.array([[abs(v) for v in r] for r in rm(3, n)], dtype=object)
        add('gnp map3 %s %s' % (f3, em(p3)), el(np.asarray(mk_fun(f3)(p3))), ('np', 'map3', rep))


def correspond(res, tier):
    from src import quadrature as Q
    rng = seed_rng(res.seed, 'C15')
    n_cases = 60 if tier == 'quick' else 600
    lines, expect, meta = [], [], []

    def add(line, value, key, nontrivial=True):
        lines.append(line)
        expect.append(value)
        meta.append((key, nontrivial))
        # the same request to the definition regenerated from the source text (Gen/QuadGen.lean)
        head, _, tail = line.partition(' ')
        if head in GEN_TWIN:
            lines.append(GEN_TWIN[head] + ' ' + tail)
            expect.append(value)
            meta.append((('gen', ) + tuple(key), nontrivial))

    def try_int(s, f, *box):
        try:
            return q2s(s.integrate(f, *box))
        except AssertionError:
            return 'error:assert:size'

    corr_constructors(Q, add)
    corr_numpy_prelude(seed_rng(res.seed, 'C15np'), add, 12 if tier == 'quick' else 120)

    for case in range(n_cases):
        px, wx = rand_rule(rng)
        py, wy = rand_rule(rng)
        nt = len(px) >= 2
        sx, sy = Q.QuadScheme1D(farr(px), farr(wx)), Q.QuadScheme1D(farr(py), farr(wy))
        ex, ey = enc_rule1(px, wx), enc_rule1(py, wy)
        # 1-D
        add('q1 mirror ' + ex, enc_scheme(sx.mirror()), ('mirror1', ex), nt)
        f1 = rand_fun(rng, 1)
        a, b = rand_box(rng, 1)
        add('q1 int %s %s %s %s' % (ex, f1, q2s(a), q2s(b)), q2s(sx.integrate(mk_fun(f1), a, b)),
            ('int1', ex, f1, a, b), nt)
        add('q1 int %s %s %s %s' % (enc_scheme(sx.mirror()), f1, q2s(a), q2s(b)),
            q2s(sx.mirror().integrate(mk_fun(f1), a, b)), ('int1m', ex, f1, a, b), nt)
        # the `a == b` shortcut (hand model and generated), and the size assertion `b - a > 1e-5` at the binary64
        # threshold (generated model only: the hand model leaves the assertion to the caller)
        add('q1 int %s %s %s %s' % (ex, f1, q2s(a), q2s(a)), q2s(sx.integrate(mk_fun(f1), a, a)), ('int1eq', ex, f1, a), nt)
        h1 = rng.choice([F(1, 100000), F(1e-5), F(1e-5) + F(1, 10**22), F(1, 99999), F(1, 10**6), F(-1, 2), F(3, 100000)])
        add('g1 int %s %s %s %s' % (ex, f1, q2s(a), q2s(a + h1)), try_int(sx, mk_fun(f1), a, a + h1), ('int1size', ex, f1, a, h1), nt)
        # 2-D
        p2 = Q.ProductScheme2D(sx, sy)
        e2 = enc_scheme(p2)
        add('q2 product %s %s' % (ex, ey), e2, ('product2', ex, ey), nt)
        add('g2 product1 %s' % ex, enc_scheme(Q.ProductScheme2D(sx)), ('product2-default', ex), nt)
        add('q2 mirx ' + e2, enc_scheme(p2.mirror_x()), ('mirx2', e2), nt)
        add('q2 miry ' + e2, enc_scheme(p2.mirror_y()), ('miry2', e2), nt)
        box2 = rand_box(rng, 2)
        f2 = rand_fun(rng, 2)
        # size assertion of QuadScheme2D.integrate (`> 1e-7` in both directions) at the binary64 threshold
        h2 = rng.choice([F(1, 10**7), F(1e-7), F(1e-7) + F(1, 10**24), F(1, 9999999), F(1, 10**8), F(-1, 3), F(1)])
        bx = [box2[0], box2[0] + h2, box2[2], box2[3]] if rng.random() < 0.5 else [box2[0], box2[1], box2[2], box2[2] + h2]
        add('g2 int %s %s %s' % (e2, f2, ' '.join(q2s(v) for v in bx)), try_int(p2, mk_fun(f2), *bx),
            ('int2size', e2, f2, tuple(bx)), nt)
        for sym in (False, True):
            d2 = Q.DuffyScheme2D(p2, symmetric=sym)
            ed = enc_scheme(d2)
            add('q2 duffy %s %d' % (e2, sym), ed, ('duffy2', e2, sym), nt)
            for mir in ('', 'x', 'y', 'xy', 'yx'):
                s, chain = d2, ed
                for m in mir:
                    s = s.mirror_x() if m == 'x' else s.mirror_y()
                add('q2 int %s %s %s' % (enc_scheme(s), f2, ' '.join(q2s(v) for v in box2)),
                    q2s(s.integrate(mk_fun(f2), *box2)), ('int2', e2, sym, mir, f2, tuple(box2)), nt)
                if mir:
                    # mirrors via the model as well (chain of mirror commands is checked element-wise)
                    s1 = d2.mirror_x() if mir[0] == 'x' else d2.mirror_y()
                    add('q2 mir%s %s' % (mir[0], ed), enc_scheme(s1), ('mir2', ed, mir[0]), nt)
        # 3-D (small rules only: n^3 * 6 nodes)
        if len(px) <= 3:
            p3 = Q.ProductScheme3D(sx)
            e3 = enc_scheme(p3)
            add('q3 product ' + ex, e3, ('product3', ex), nt)
            box3 = rand_box(rng, 3)
            f3 = rand_fun(rng, 3)
            for name, s in (('mirx', p3.mirror_x()), ('miry', p3.mirror_y()), ('mirz', p3.mirror_z())):
                add('q3 %s %s' % (name, e3), enc_scheme(s), (name, e3), nt)
            for sym in (False, True):
                di = Q.DuffySchemeIdentical3D(p3, symmetric_xy=sym)
                add('q3 duffyid %s %d' % (e3, sym), enc_scheme(di), ('duffyid3', e3, sym), nt)
                add('q3 int %s %s %s' % (enc_scheme(di), f3, ' '.join(q2s(v) for v in box3)),
                    q2s(di.integrate(mk_fun(f3), *box3)), ('int3id', e3, sym, f3, tuple(box3)), nt)
            dt = Q.DuffySchemeTouch3D(p3)
            add('q3 touch ' + e3, enc_scheme(dt), ('touch3', e3), nt)
            for name, s in (('', dt), ('x', dt.mirror_x()), ('y', dt.mirror_y()), ('z', dt.mirror_z())):
                add('q3 int %s %s %s' % (enc_scheme(s), f3, ' '.join(q2s(v) for v in box3)),
                    q2s(s.integrate(mk_fun(f3), *box3)), ('int3t', e3, name, f3, tuple(box3)), nt)
        # mirror CHAINS as a history on one object family (the classes memoise their mirrors): random walks of mirror
        # requests, revisiting objects handed out earlier; every step must be the model's mirror of the object it
        # was requested from (the model is stateless)
        fam2 = [p2, Q.DuffyScheme2D(p2, symmetric=False)]
        for obj in fam2:
            pool = [obj]
            for step in range(rng.randint(3, 7)):
                src_ = rng.choice(pool)
                m = rng.choice('xy')
                nxt = src_.mirror_x() if m == 'x' else src_.mirror_y()
                add('q2 mir%s %s' % (m, enc_scheme(src_)), enc_scheme(nxt), ('chain2', ex, ey, type(obj).__name__, step, m), nt)
                pool.append(nxt)
        pool1 = [sx]
        for step in range(rng.randint(2, 4)):
            src_ = rng.choice(pool1)
            nxt = src_.mirror()
            add('q1 mirror ' + enc_scheme(src_), enc_scheme(nxt), ('chain1', ex, step), nt)
            pool1.append(nxt)
        if len(px) <= 2:
            p3c = Q.ProductScheme3D(sx)
            for obj in (p3c, Q.DuffySchemeTouch3D(p3c)):
                pool = [obj]
                for step in range(rng.randint(3, 6)):
                    src_ = rng.choice(pool)
                    m = rng.choice('xyz')
                    nxt = getattr(src_, 'mirror_' + m)()
                    add('q3 mir%s %s' % (m, enc_scheme(src_)), enc_scheme(nxt), ('chain3', ex, type(obj).__name__, step, m), nt)
                    pool.append(nxt)
        if case < 3:
            res.sample(dict(rule_x=ex, rule_y=ey, f1=f1, f2=f2, box2=[q2s(v) for v in box2]))

    out = run_driver(lines)
    if len(out) != len(lines):
        res.broken_obligation('correspondence C15', 'driver returned %d lines for %d' % (len(out), len(lines)))
        return
    for line, want, got, (key, nt) in zip(lines, expect, out, meta):
        res.count(key, nt)
        res.bump('ops_' + line.split()[0] + '_' + line.split()[1])
        if want.startswith('error:'):
            res.bump('expected_' + want.replace(':', '_'))
        if want != got:
            who = ('the definitions regenerated from the source (Gen/QuadGen.lean, translate/quadgen.py)'
                   if line[0] == 'g' else 'the hand-written model (Model/Quad.lean)')
            res.broken_obligation('correspondence C15: %s and src/quadrature.py differ' % who,
                                  'line: %s\npython: %s\nlean:   %s' % (line[:600], want[:600], got[:600]))
            break


# --------------------------------------------------------------------------------------------------
def mono_box(e, box):
    """Exact integral of prod x_d^e_d over the box."""
    v = F(1)
    for d, k in enumerate(e):
        a, b = box[2 * d], box[2 * d + 1]
        v *= (F(b)**(k + 1) - F(a)**(k + 1)) / (k + 1)
    return v


def search(res, tier, boost=False):
    """Property oracle on the real classes: measure, polynomial exactness, mirror involution, symmetric
    Duffy agreement.  Exact (Fraction) with Newton-Cotes base rules; floats with the tabulated rules."""
    from src import quadrature as Q
    rng = seed_rng(res.seed, 'C15s')
    reps = 2 if tier == 'quick' and not boost else 6

    def fail(key, **data):
        res.violation(key, data)

    from ..exact import SIGNED_RULES
    for deg, (p, w) in list(NEWTON_COTES.items()) + SIGNED_RULES:
        base = Q.QuadScheme1D(farr(p), farr(w))
        p2 = Q.ProductScheme2D(base)
        for _ in range(reps):
            box = rand_box(rng, 2)
            area = (box[1] - box[0]) * (box[3] - box[2])
            schemes = {'product': (p2, deg, 'each'), 'duffy': (Q.DuffyScheme2D(p2, False), deg - 1, 'total'),
                       'duffy_sym': (Q.DuffyScheme2D(p2, True), deg - 1, 'sym')}
            for name, (s0, dmax, mode) in schemes.items():
                for mir in ('', 'x', 'y', 'xy'):
                    s = s0
                    for m in mir:
                        s = s.mirror_x() if m == 'x' else s.mirror_y()
                    if mode == 'sym' and mir in ('x', 'y'):
                        continue  # one-sided rule: exact only for symmetric integrands, tested below
                    tot = s.integrate(lambda x: 0 * x[0] + 1, *box)
                    res.count(('measure2', deg, name, mir, tuple(box)))
                    if dmax >= 0 and mode != 'sym' and tot != area:
                        fail('C15:measure:%s:%s' % (name, mir), deg=deg, box=[q2s(v) for v in box], got=q2s(tot),
                             want=q2s(area))
                    for i, j in itertools.product(range(deg + 1), repeat=2):
                        if mode == 'each' or (mode == 'total' and i + j <= dmax):
                            got = s.integrate(lambda x: x[0]**i * x[1]**j, *box)
                            want = mono_box((i, j), box)
                            res.count(('mono2', deg, name, mir, i, j, tuple(box)))
                            if got != want:
                                fail('C15:exact2:%s:%s' % (name, mir), deg=deg, i=i, j=j,
                                     box=[q2s(v) for v in box], got=q2s(got), want=q2s(want))
            # symmetric vs non-symmetric on symmetric integrands (same interval in both directions)
            a, b = box[0], box[1]
            fsym = lambda x: 1 / (3 + x[0] * x[1] + x[0] + x[1])
            g1 = Q.DuffyScheme2D(p2, True).integrate(fsym, a, b, a, b)
            g2 = Q.DuffyScheme2D(p2, False).integrate(fsym, a, b, a, b)
            res.count(('symagree', deg, a, b))
            if g1 != g2:
                fail('C15:duffy-sym-agree', deg=deg, a=q2s(a), b=q2s(b), sym=q2s(g1), nonsym=q2s(g2))
        # mirror twice
        for s, names in ((p2, ('mirror_x', 'mirror_y')), (Q.ProductScheme3D(base), ('mirror_x', 'mirror_y', 'mirror_z'))):
            for nm in names:
                m2 = getattr(getattr(s, nm)(), nm)()
                res.count(('mirror-twice', deg, type(s).__name__, nm))
                if not (np.all(m2.points == s.points) and np.all(m2.weights == s.weights)):
                    fail('C15:mirror-twice:' + nm, deg=deg)
        # mirror chains on one object family, against the definition: the points of the result are the base points with
        # coordinate i reflected iff mirror_i was applied an odd number of times; weights unchanged
        for s0, axes in ((p2, 'xy'), (Q.DuffyScheme2D(p2, False), 'xy'), (Q.ProductScheme3D(base), 'xyz')):
            pool = [(s0, ())]
            for step in range(8):
                src_, hist = pool[rng.randrange(len(pool))]
                ax = rng.choice(axes)
                nxt = getattr(src_, 'mirror_' + ax)()
                hist = hist + (ax, )
                pool.append((nxt, hist))
                want = [(1 - s0.points[i]) if hist.count(a_) % 2 else s0.points[i] for i, a_ in enumerate(axes)]
                res.count(('mirror-chain', deg, type(s0).__name__, hist))
                if not (all(np.all(nxt.points[i] == want[i]) for i in range(len(axes))) and np.all(nxt.weights == s0.weights)):
                    fail('C15:mirror-chain:%s' % type(s0).__name__, deg=deg, chain=''.join(hist),
                         note='mirrors requested as a history on one object family')
                    break
        m2 = base.mirror().mirror()
        if not (np.all(m2.points == base.points) and np.all(m2.weights == base.weights)):
            fail('C15:mirror-twice:1d', deg=deg)
        # 3-D
        if deg <= 5:
            p3 = Q.ProductScheme3D(base)
            box = rand_box(rng, 3)
            vol = (box[1] - box[0]) * (box[3] - box[2]) * (box[5] - box[4])
            for name, s0, dmax, mode in (('product3', p3, deg, 'each'),
                                         ('duffyid3', Q.DuffySchemeIdentical3D(p3, False), deg - 2, 'total'),
                                         ('touch3', Q.DuffySchemeTouch3D(p3), deg - 2, 'total')):
                for mir in ('', 'x', 'y', 'z'):
                    s = s0 if not mir else getattr(s0, 'mirror_' + mir)()
                    if dmax >= 0:
                        tot = s.integrate(lambda x: 0 * x[0] + 1, *box)
                        res.count(('measure3', deg, name, mir, tuple(box)))
                        if tot != vol:
                            fail('C15:measure:%s:%s' % (name, mir), deg=deg, got=q2s(tot), want=q2s(vol))
                    for e in itertools.product(range(deg + 1), repeat=3):
                        if (mode == 'each' and max(e) <= dmax) or (mode == 'total' and sum(e) <= dmax):
                            got = s.integrate(lambda x: x[0]**e[0] * x[1]**e[1] * x[2]**e[2], *box)
                            want = mono_box(e, box)
                            res.count(('mono3', deg, name, mir, e, tuple(box)))
                            if got != want:
                                fail('C15:exact3:%s:%s' % (name, mir), deg=deg, e=list(e), got=q2s(got),
                                     want=q2s(want))
            if deg >= 2:
                fs = lambda x: 1 / (5 + x[0] + x[1] + x[0] * x[1] * x[2] + x[2])
                a, b = box[0], box[1]
                g1 = Q.DuffySchemeIdentical3D(p3, True).integrate(fs, a, b, a, b, box[4], box[5])
                g2 = Q.DuffySchemeIdentical3D(p3, False).integrate(fs, a, b, a, b, box[4], box[5])
                res.count(('symagree3', deg))
                if g1 != g2:
                    fail('C15:duffyid-sym-agree', deg=deg, sym=q2s(g1), nonsym=q2s(g2))

    # tensor products of two DIFFERENT base rules (different numbers of nodes): node order of repeat / tile / kron matters;
    # both rules are exact to n = min(deg_x, deg_y), so each exponent <= n (tensor) resp. total degree <= n - 1 (Duffy)
    rng_mixed = seed_rng(res.seed, 'C15mixed')   # own stream: the streams of the other blocks stay as they were
    for dx, dy in itertools.permutations(sorted(NEWTON_COTES), 2):
        if not boost and tier == 'quick' and (dx, dy) not in ((1, 3), (3, 1), (5, 3), (3, 7)):
            continue
        bx, by = (Q.QuadScheme1D(farr(p), farr(w)) for p, w in (NEWTON_COTES[dx], NEWTON_COTES[dy]))
        n = min(dx, dy)
        pxy = Q.ProductScheme2D(bx, by)
        box = rand_box(rng_mixed, 2)
        area = (box[1] - box[0]) * (box[3] - box[2])
        for name, s0, dmax, mode in (('product-mixed', pxy, n, 'each'), ('duffy-mixed', Q.DuffyScheme2D(pxy, False), n - 1, 'total')):
            for mir in ('', 'x', 'y'):
                s = s0 if not mir else getattr(s0, 'mirror_' + mir)()
                tot = s.integrate(lambda x: 0 * x[0] + 1, *box)
                res.count(('measure2', dx, dy, name, mir, tuple(box)))
                if dmax >= 0 and tot != area:
                    fail('C15:measure:%s:%s' % (name, mir), deg=[dx, dy], box=[q2s(v) for v in box], got=q2s(tot), want=q2s(area))
                for i, j in itertools.product(range(n + 1), repeat=2):
                    if mode == 'each' or i + j <= dmax:
                        got = s.integrate(lambda x: x[0]**i * x[1]**j, *box)
                        want = mono_box((i, j), box)
                        res.count(('mono2', dx, dy, name, mir, i, j, tuple(box)))
                        if got != want:
                            fail('C15:exact2:%s:%s' % (name, mir), deg=[dx, dy], i=i, j=j, box=[q2s(v) for v in box],
                                 got=q2s(got), want=q2s(want))
    # float stream, 1-D: every base rule and its mirror on targets with side in [1e-4, 1e3] at offsets up to 1e3
    # (shifted monomials ((x-a)/(b-a))^k are well conditioned at any offset; their integral is (b-a)/(k+1))
    from src.quadrature_rules import LOG_QUAD_RULES
    bases1 = [('gauss%d' % n, Q.gauss_quadrature_scheme(n), n) for n in (1, 3, 7, 13)]
    bases1 += [('log%d_%d' % k, Q.log_quadrature_scheme(*k), k[0]) for k in rng.sample(LOG_QUAD_RULES, 4) if k[0] >= 1]
    for name, base, deg in bases1:
        for s1, sname in ((base, ''), (base.mirror(), 'mirror')):
            for _ in range(6 if tier == 'quick' else 40):
                h = 10.0**rng.uniform(-4, 3) * 1.0000001
                a = rng.choice([0.0, 1.0, 10.0, 100.0, 1000.0, -50.0]) * rng.uniform(0.5, 1.0)
                b = a + h
                for k in range(0, min(deg, 8) + 1):
                    got = s1.integrate(lambda x: ((x - a) / h)**k, a, b)
                    want = h / (k + 1)
                    res.count(('f1', name, sname, k, a, h))
                    if abs(got - want) > 1e-11 * h + 4e-16 * (abs(a) + h):
                        fail('C15:float-exact1:%s:%s' % (name, sname), degree=k, interval=[a, b], got=float(got), want=want)
                        break
    # hand-typed rules whose nodes / weights are Python ints or int arrays (closed Newton-Cotes rules have the nodes 0 and 1;
    # users type `QuadScheme1D([0, 1], [0.5, 0.5])`): mapping to non-integer targets must not inherit an integer dtype
    int_rules = [('trapezoid-int-nodes', [0, 1], [0.5, 0.5], 1),
                 ('trapezoid-int-array', np.array([0, 1]), np.array([0.5, 0.5]), 1),
                 ('simpson-scaled', np.array([0, 1, 2]) / 2, np.array([1, 4, 1]) / 6, 3),
                 ('endpoint-int-weights', [0, 1], [1, 0], 0)]
    for rname, pts, wts, deg in int_rules:
        b1 = Q.QuadScheme1D(pts, wts)
        b2 = Q.ProductScheme2D(b1)
        b3 = Q.ProductScheme3D(b1)
        fam = [('1d', b1, deg, 1), ('1d-mirror', b1.mirror(), deg, 1), ('product2', b2, deg, 2), ('product2-mirror_x', b2.mirror_x(), deg, 2),
               ('duffy2', Q.DuffyScheme2D(b2, False), deg - 1, 2), ('product3', b3, deg, 3), ('product3-mirror_z', b3.mirror_z(), deg, 3),
               ('touch3', Q.DuffySchemeTouch3D(b3), deg - 2, 3)]
        for sname, sch, dmax, dim in fam:
            if dmax < 0:
                continue      # the Duffy Jacobian itself is beyond the base rule: not even the measure is claimed
            for _ in range(2 if tier == 'quick' else 8):
                lo = [rng.choice([0.25, 0.5, -0.75, 1.5]) for _ in range(dim)]
                hs_ = [rng.choice([0.5, 0.25, 1.0, 1.75]) for _ in range(dim)]
                box = []
                for l_, h_ in zip(lo, hs_):
                    box += [l_, l_ + h_]
                vol = float(np.prod(hs_))
                exps = [tuple(0 for _ in range(dim))]
                if dmax >= 1:
                    exps += [tuple(1 if j == i else 0 for j in range(dim)) for i in range(dim)]
                for e in exps:
                    if dim == 1:
                        got = sch.integrate(lambda x: ((x - lo[0]) / hs_[0])**e[0], *box)
                    else:
                        got = sch.integrate(lambda x: np.prod([((x[i] - lo[i]) / hs_[i])**e[i] for i in range(dim)], axis=0), *box)
                    want = vol / float(np.prod([k + 1 for k in e]))
                    res.count(('int-dtype', rname, sname, e, tuple(box)))
                    if abs(float(got) - want) > 1e-13 * vol:
                        fail('C15:int-typed-rule:%s:%s' % (rname, sname), exponents=list(e), box=box, got=float(got), want=want,
                             note='rule typed with integer nodes / weights, mapped to a non-integer target')
                        break
    # float stream, 3-D: measure and low-degree exactness of the two 3-D Duffy schemes on boxes at an offset
    g5 = Q.gauss_quadrature_scheme(5)
    p3 = Q.ProductScheme3D(g5)
    for sname, s3, dmax in (('product3', p3, 5), ('duffyid3', Q.DuffySchemeIdentical3D(p3, False), 3), ('touch3', Q.DuffySchemeTouch3D(p3), 3)):
        for _ in range(3 if tier == 'quick' else 20):
            hs = [10.0**rng.uniform(-4, 3) for _ in range(3)]
            os_ = [rng.choice([0.0, 10.0, 1000.0]) for _ in range(3)]
            box = [os_[0], os_[0] + hs[0], os_[1], os_[1] + hs[1], os_[2], os_[2] + hs[2]]
            # the sides the scheme sees are b - a of the rounded end points (o + h differs from h by eps |o|)
            hs = [box[1] - box[0], box[3] - box[2], box[5] - box[4]]
            vol = hs[0] * hs[1] * hs[2]
            for e in ((0, 0, 0), (1, 0, 0), (0, 1, 1), (1, 1, 1), (2, 0, 1)):
                if sum(e) > dmax:
                    continue
                got = s3.integrate(lambda x: ((x[0] - box[0]) / hs[0])**e[0] * ((x[1] - box[2]) / hs[1])**e[1] * ((x[2] - box[4]) / hs[2])**e[2], *box)
                want = vol / ((e[0] + 1) * (e[1] + 1) * (e[2] + 1))
                res.count(('f3', sname, e, tuple(box)))
                # conditioning of the shifted monomial itself: x = o + h p is rounded to eps |o|, i.e. (x - o) / h moves by
                # eps |o| / h (2e-9 at offset 1000, side 1e-4); not an error of the scheme
                cond = sum(e[d] * (abs(os_[d]) + hs[d]) / hs[d] for d in range(3))
                if abs(got - want) > (1e-10 + 8 * 2.3e-16 * cond) * vol:
                    fail('C15:float-exact3:%s' % sname, e=list(e), box=box, got=float(got), want=want)
    # float stream: tabulated log rules and Gauss rules through the real constructors
    keys = LOG_QUAD_RULES if (tier == 'thorough' or boost) else rng.sample(LOG_QUAD_RULES, 6)
    bases = [('log%d_%d' % k, Q.log_quadrature_scheme(*k), k[0]) for k in keys if k[0] >= 1]
    bases += [('gauss%d' % n, Q.gauss_quadrature_scheme(n), n) for n in (1, 3, 5, 9, 13, 23)]
    for name, base, deg in bases:
        p2 = Q.ProductScheme2D(base)
        box = [float(v) for v in rand_box(rng, 2)]
        for sname, s0, dmax, mode in (('product', p2, deg, 'each'), ('duffy', Q.DuffyScheme2D(p2, False), deg - 1, 'total')):
            for mir in ('', 'x', 'y'):
                s = s0 if not mir else getattr(s0, 'mirror_' + mir)()
                for i, j in itertools.product(range(min(deg, 12) + 1), repeat=2):
                    if mode == 'each' or i + j <= dmax:
                        got = s.integrate(lambda x: x[0]**i * x[1]**j, *box)
                        want = float(mono_box((i, j), [F(v) for v in box]))
                        scale = sum(abs(w) for w in s.weights) * (box[1] - box[0]) * (box[3] - box[2]) * \
                            max(abs(box[0]), abs(box[1]), 1e-300)**i * max(abs(box[2]), abs(box[3]), 1e-300)**j
                        res.count(('fmono2', name, sname, mir, i, j))
                        if abs(got - want) > 1e-11 * max(scale, abs(want)):
                            fail('C15:float-exact2:%s:%s:%s' % (name, sname, mir), i=i, j=j, box=box, got=got, want=want)
