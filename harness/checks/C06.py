"""C06 — Doerfler marking refines a minimal bulk set, in exactly the marked directions."""
import contextlib
import io
import itertools
import re
from fractions import Fraction as F

import numpy as np

from ..common import seed_rng
from ..meshgen import INITIAL_GRIDS, THETAS, Batch, random_op, op_json, random_indicators, near_miss_indicators
from ..meshops_tie import PROP_MOD_C06 as MESHOPS_PROP_MOD2, PROP_MOD as MESHOPS_PROP_MOD, TRUSTED as MESHOPS_TRUSTED, translate_meshops
from ..meshlib import PyMesh
from .. import refmesh

PROP_MODS = ['Stbem.Props.C06', MESHOPS_PROP_MOD, MESHOPS_PROP_MOD2]
RULE = ('correspondence: dorfler_refine_isotropic / _anisotropic of src/mesh.py on real meshes (Fraction coordinates) '
        'with indicators whose partial sums are exact in binary64 (small integers times a power of two, theta = '
        'k/16), the argsort permutation NumPy actually produced being handed to the model; leaves compared after the '
        'call. Exhaustive: every indicator vector over {0,1,2,3} on meshes with <= 4 (quick) / 5 (thorough) leaves '
        'x all theta; random: larger meshes, ties, zeros, dominant entries, sequences. search: independent oracle '
        '(marked count = length of the shortest prefix; valid tie choice; resulting leaf set = declarative double '
        'closure computed on plain rectangles). non-trivial = call in which at least one unmarked leaf was bisected '
        'by the closure or a tie had to be broken.')
TRUSTED = [
    'Lean 4.33 kernel; axioms propext, Classical.choice, Quot.sound only',
    'A-layer mesh model + correspondence harness (as C02); the argsort permutation is an input of the model '
    '(universally quantified in the theorems), so NumPy\'s tie order is not modelled but covered',
    'exact arithmetic: float summation order (np.sum pairwise vs sequential cumsum) is outside the model',
    MESHOPS_TRUSTED,
]
ASSUMPTIONS = ['indicators are non-negative; 0 < theta < 1; list.sort is stable (CPython)']


def translate(res):
    """Regenerates lean/Stbem/Gen/MeshOps.lean from the refinement drivers of src/mesh.py (broken obligation when a
    construct is outside the translated fragment)."""
    translate_meshops(res)


def small_meshes(tier):
    out = [(1, [F(0), F(1), F(2), F(3)], [F(0), F(1)], []),
           (0, [F(0), F(1)], [F(0), F(1)], [('rt', 0), ('rs', 1)]),
           (1, [F(0), F(1), F(2)], [F(0), F(1)], [('rs', 0)])]
    if tier == 'thorough':
        out += [(1, [F(0), F(1), F(2), F(3)], [F(0), F(1)], [('rt', 1)]),
                (0, [F(0), F(1), F(2)], [F(0), F(1), F(2)], [('rs', 3)])]
    return out


def correspond(res, tier):
    rng = seed_rng(res.seed, 'C06')
    batch = Batch(generated=True)
    thetas = [0.25, 0.5, 0.75, 0.9375]
    vals = [0.0, 1.0, 2.0, 3.0]
    for glue, X, T, pre in small_meshes(tier):
        pm0 = PyMesh.create(glue, X, T)
        for op in pre:
            pm0.apply(op)
        n = len(pm0.mesh.leaf_elements)
        if n > (4 if tier == 'quick' else 5):
            continue
        for vec in itertools.product(vals, repeat=n):
            for theta in thetas:
                eta = np.array(vec)
                perm = [int(i) for i in reversed(np.argsort(eta))]
                seq = list(pre) + [('diso', eta, theta, perm)]
                it = iter(seq)
                pm, ops, status = batch.add_history(glue, X, T, lambda pm, k, it=it: next(it, None), full_dump_every=0)
                res.count(('exh-iso', glue, n, vec, theta), len(set(vec)) < n)
                if status == 'err':
                    res.violation('C06:call-fails:iso', dict(history=batch.histories[-1]))
        if n <= 3:
            for vec in itertools.product([0.0, 1.0, 2.0], repeat=2 * n):
                for theta in (0.5, 0.75):
                    eta = np.array(vec).reshape(2, n).T.copy()
                    seq = list(pre) + [('daniso', eta, theta)]
                    it = iter(seq)
                    pm, ops, status = batch.add_history(glue, X, T, lambda pm, k, it=it: next(it, None), full_dump_every=0)
                    res.count(('exh-aniso', glue, n, vec, theta), True)
                    if status == 'err':
                        res.violation('C06:call-fails:aniso', dict(history=batch.histories[-1]))
    # random sequences of marking steps interleaved with other refinements
    n_rand = 10 if tier == 'quick' else 100
    for h in range(n_rand):
        glue, X, T = INITIAL_GRIDS[h % len(INITIAL_GRIDS)]
        L = rng.randint(6, 14)

        def gen(pm, k, L=L):
            if k >= L or len(pm.mesh.leaf_elements) > 300:
                return None
            return random_op(rng, pm, ['diso', 'daniso', 'diso', 'daniso', 'rt', 'rs'], 0.5)
        pm, ops, status = batch.add_history(glue, X, T, gen, full_dump_every=0)
        res.count(('rand', h, res.seed), True)
        if status == 'err':
            res.violation('C06:call-fails:' + ops[-1][0], dict(history=batch.histories[-1]))
        if h < 2:
            res.sample(dict(glue=glue, ops=[o[:1] + ([o[1][:6]] if len(o) > 1 and isinstance(o[1], list) else [])
                                            for o in batch.histories[-1]['ops']][:8]))
    dis = batch.run()
    res.notes['model_lines'] = len(batch.lines)
    res.notes['generated_model_lines'] = batch.n_generated
    if dis is not None:
        res.broken_obligation('correspondence C06: Doerfler model%s and src/mesh.py differ' %
                              (' REGENERATED from src/mesh.py (gmesh)' if dis.get('kind') == 'disagreement-generated' else ''),
                              repr(dis)[:6000])


# --------------------------------------------------------------------------------------------------
def shortest_prefix(values, theta2):
    """(k, v_k): length of the shortest non-empty descending prefix reaching theta2 * total, and its last value."""
    srt = sorted(values, reverse=True)
    tot = sum(values)
    acc = 0
    for k, v in enumerate(srt, 1):
        acc += v
        if acc >= tot * theta2:
            return k, v
    return len(srt), srt[-1]


def run_marking(pm, kind, eta, theta):
    """Runs the real call, recording the top-level refine_time / refine_space calls (= the marked elements)."""
    m = pm.mesh
    before = list(m.leaf_elements)
    rects = [refmesh.of_elem(e) for e in before]
    calls = {0: [], 1: []}
    depth = [0]
    orig = m.refine_axis

    def spy(elem, ax):
        depth[0] += 1
        try:
            if depth[0] == 1:
                calls[ax].append(elem)
            return orig(elem, ax)
        finally:
            depth[0] -= 1
    m.refine_axis = spy
    buf = io.StringIO()
    try:
        with contextlib.redirect_stdout(buf):
            if kind == 'diso':
                m.dorfler_refine_isotropic(eta, theta)
            else:
                m.dorfler_refine_anisotropic(eta, theta)
        err = None
    except Exception as exc:  # noqa: BLE001
        err = repr(exc)
    finally:
        del m.refine_axis
    return before, rects, calls, buf.getvalue(), err


def check_marking(res, pm, kind, eta, theta, glue, X, hist, exact=True):
    before, rects, calls, out, err = run_marking(pm, kind, eta, theta)
    if err is not None:
        res.violation('C06:call-fails:' + kind, dict(error=err, history=hist))
        return False
    idx = {id(e): i for i, e in enumerate(before)}
    th2 = F(theta)**2 if exact else theta**2
    if kind == 'diso':
        vals = [F(v) for v in eta] if exact else list(eta)
        k, vk = shortest_prefix(vals, th2)
        marked = [idx[id(e)] for e in calls[0] if id(e) in idx]
        sure = [i for i in range(len(vals)) if vals[i] > vk]
        tied = [i for i in range(len(vals)) if vals[i] == vk]
        mm = re.search(r'Marked (\d+) / (\d+) elements', out)
        if k - len(sure) == len(tied):
            # the marked set is determined by the values alone: how the code walks through it (order, elements it finds
            # refined already by the closure of an earlier one) is its own business - the resulting mesh decides
            marked = sure + tied
            ok_count = int(mm.group(1)) == k if mm else True
            ok_ties = True
        else:                 # a tie is broken by the (stable) sort: accept the choice the code made
            ok_count = (int(mm.group(1)) if mm else len(marked)) == k
            ok_ties = all(vals[i] >= vk for i in marked) and all(i in marked for i in sure)
        mt, ms = marked, marked
        nontrivial = len(set(vals)) < len(vals)
    else:
        vt = [F(v) for v in eta[:, 0]] if exact else list(eta[:, 0])
        vs = [F(v) for v in eta[:, 1]] if exact else list(eta[:, 1])
        k, vk = shortest_prefix(vt + vs, th2)
        # the numbers of marked contributions are printed by the call itself
        m1 = re.search(r'Marked (\d+) elements for time', out)
        m2 = re.search(r'Marked (\d+) elements for space', out)
        n_time = int(m1.group(1)) if m1 else len(calls[0])
        n_space = int(m2.group(1)) if m2 else -1
        mt_calls = [idx[id(e)] for e in calls[0] if id(e) in idx]
        ms_calls = []
        for e in calls[1]:  # space calls are made on the element itself or on its two time-children
            p = e if id(e) in idx else e.parent
            if p is not None and id(p) in idx and idx[id(p)] not in ms_calls:
                ms_calls.append(idx[id(p)])
        sure_t = [i for i in range(len(vt)) if vt[i] > vk]
        sure_s = [i for i in range(len(vs)) if vs[i] > vk]
        n_tied = k - len(sure_t) - len(sure_s)
        tied = [('t', i) for i in range(len(vt)) if vt[i] == vk] + [('s', i) for i in range(len(vs)) if vs[i] == vk]
        if n_tied == len(tied):   # the marked set is determined by the values alone
            mt = sure_t + [i for a, i in tied if a == 't']
            ms = sure_s + [i for a, i in tied if a == 's']
        else:                     # a tie is broken by the (stable) sort: accept the choice the code made
            mt, ms = mt_calls, ms_calls
        ok_count = (n_time + n_space == k) if (m1 and n_space >= 0) else (len(mt_calls) + len(ms_calls) == k)
        ok_ties = all(vt[i] >= vk for i in mt_calls) and all(vs[i] >= vk for i in ms_calls) and \
            (n_tied == len(tied) or all(i in mt_calls for i in sure_t))
        if n_tied == len(tied) and not (m1 and m2):
            ok_count = True       # (no printed counts to go by: the resulting mesh decides)
        nontrivial = True
    if not ok_count:
        res.violation('C06:prefix-not-shortest:' + kind, dict(marked=len(mt) if kind == 'diso' else len(mt) + len(ms),
                                                               shortest=k, history=hist))
        return False
    if not ok_ties:
        res.violation('C06:prefix-not-descending:' + kind, dict(history=hist))
        return False
    want = refmesh.dorfler_reference(rects, mt, ms, glue, X[0], X[-1])
    got = refmesh.leafset(pm.mesh)
    closure_used = len(got) > len(rects) + (2 * len(mt) if kind == 'diso' else len(mt)) + len(ms)
    res.count(('mark', kind, len(rects), tuple(mt), tuple(ms), hash(tuple(sorted(got)))), nontrivial or closure_used)
    if want != got:
        res.violation('C06:result-not-least-closure:' + kind,
                      dict(extra=[str(r) for r in sorted(got - want)][:6], missing=[str(r) for r in sorted(want - got)][:6],
                           history=hist))
        return False
    # marked => refined in the marked directions
    for i in mt:
        r = rects[i]
        for g in got:
            if r.t0 <= g[0] and g[1] <= r.t1 and r.x0 <= g[2] and g[3] <= r.x1 and g[4] < r.lt + 1:
                res.violation('C06:marked-not-refined:time', dict(history=hist))
                return False
    for i in ms:
        r = rects[i]
        for g in got:
            if r.t0 <= g[0] and g[1] <= r.t1 and r.x0 <= g[2] and g[3] <= r.x1 and g[5] < r.lx + 1:
                res.violation('C06:marked-not-refined:space', dict(history=hist))
                return False
    return True


def search(res, tier, boost=False):
    rng = seed_rng(res.seed, 'C06s')
    n = (12 if tier == 'quick' else 150) * (3 if boost else 1)
    for h in range(n):
        glue, X, T = INITIAL_GRIDS[rng.randrange(len(INITIAL_GRIDS))]
        pm = PyMesh.create(glue, X, T)
        ops = []
        for k in range(rng.randint(3, 10)):
            if len(pm.mesh.leaf_elements) > 150:
                break
            if rng.random() < 0.45:
                op = random_op(rng, pm, ['rt', 'rs', 'rb'], rng.choice([0.2, 0.5, 0.8]))
                ops.append(op)
                pm.apply(op)
                continue
            kind = rng.choice(['diso', 'daniso'])
            eta = random_indicators(rng, len(pm.mesh.leaf_elements), aniso=(kind == 'daniso'))
            theta = float(rng.choice(THETAS))
            if rng.random() < 0.25:
                nm = near_miss_indicators(rng, len(pm.mesh.leaf_elements), theta, aniso=(kind == 'daniso'))
                if nm is not None:
                    eta = nm
                    res.bump('near_miss_indicator_vectors')
            ops.append((kind, eta, theta))
            hist = dict(glue=glue, X=[str(x) for x in X], T=[str(t) for t in T], ops=[op_json(o) for o in ops])
            if not check_marking(res, pm, kind, eta, theta, glue, X, hist):
                break
    # adaptive loops: several marking calls in a row (no other operation in between) on user time grids with slabs of
    # different lengths - the levels of elements of different slabs then say nothing about their sizes; indicators are
    # permutations (no ties) or concentrated on both sides of a slab boundary (a layer in time)
    loop_grids = [[F(0), F(1), F(5)], [F(0), F(1), F(3)], [F(0), F(1, 4), F(1)], [F(0), F(2), F(3)], [F(0), F(1), F(2), F(6)]]
    for h in range((8 if tier == 'quick' else 60) * (3 if boost else 1)):
        T = loop_grids[h % len(loop_grids)]
        glue, X = rng.choice([(1, [F(0), F(1), F(2), F(3), F(4)]), (1, [F(0), F(4)]), (0, [F(0), F(1)])])
        pm = PyMesh.create(glue, X, T)
        ops = []
        layer = h % 3 == 2
        for k in range(5):
            leaves = list(pm.mesh.leaf_elements)
            nl = len(leaves)
            if nl > 220:
                break
            kind = 'diso' if h % 4 != 3 else 'daniso'
            perm = list(range(1, (2 * nl if kind == 'daniso' else nl) + 1))
            rng.shuffle(perm)
            if layer and k >= 1:
                tb = T[1]
                xs = rng.choice(X[:-1]) + (X[1] - X[0]) * F(rng.randint(0, 7), 8)
                for i, e in enumerate(leaves):
                    t0, t1 = e.time_interval
                    x0, x1 = e.space_interval
                    if x0 <= xs < x1 and (t0 == tb or t1 == tb):
                        perm[i] += 1000 if t0 == tb else 900
            eta = np.array(perm, dtype=float)
            if kind == 'daniso':
                eta = eta.reshape(2, nl).T.copy()
            theta = float(rng.choice([F(1, 2), F(3, 4), F(7, 8), F(15, 16)]))
            ops.append((kind, eta, theta))
            hist = dict(glue=glue, X=[str(x) for x in X], T=[str(t) for t in T], ops=[op_json(o) for o in ops],
                        stream='adaptive loop: marking calls only')
            if not check_marking(res, pm, kind, eta, theta, glue, X, hist):
                break
    # float stream: generic float indicators, theta in (0,1) incl. values close to 1 -> the call must not fail
    m = (30 if tier == 'quick' else 400) * (3 if boost else 1)
    nprng = np.random.default_rng(res.seed + 17)
    for h in range(m):
        glue, X, T = INITIAL_GRIDS[rng.randrange(len(INITIAL_GRIDS))]
        pm = PyMesh.create(glue, [float(x) for x in X], [float(t) for t in T])
        for _ in range(rng.randint(0, 4)):
            pm.apply(random_op(rng, pm, ['rt', 'rs', 'rb'], 0.5))
        nl = len(pm.mesh.leaf_elements)
        kind = rng.choice(['diso', 'daniso'])
        eta = nprng.random(nl if kind == 'diso' else (nl, 2)) * 10.0**rng.randint(-8, 3)
        theta = rng.choice([0.1, 0.5, 0.9, 0.99, 1 - 1e-8, 1 - 1e-12, 1 - 1e-16])
        before, rects, calls, out, err = run_marking(pm, kind, eta, theta)
        res.count(('float', h, kind, theta), True)
        if err is not None:
            key = 'C06:float-assert:theta-near-1' if theta > 1 - 1e-7 and 'AssertionError' in err else 'C06:call-fails-float:' + kind
            res.violation(key, dict(kind=kind, theta=repr(theta), n=nl, eta=eta.tolist(), error=err))
