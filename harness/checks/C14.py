"""C14 — Slobodeckij seminorm quadratures are exact on polynomials and invariant.

Exact execution of the real class
---------------------------------
`Slobodeckij.seminorm_h_1_4` multiplies by `h**(1 / 2)` (a float exponent).  The exact stream never lets a
rounding happen: all numbers handed to the real code are instances of `Q` (below), an exact rational whose
`__pow__` with the exponent `0.5` returns the *exact* rational square root and raises if the operand is not
a perfect square; float constants met on the way are converted to the rationals they denote.  Intervals are chosen with `h = b - a` a rational
square, so the value returned by the real method is exactly `sqrt(h) * (model value)`, and the harness divides
by the (exactly known, rational) `sqrt(h)` before printing.  The three rule constructors imported into
`src.norms` are replaced *in the harness process only* by functions returning real `QuadScheme1D` objects over
rational stand-in rules.
"""
import contextlib
import math
import traceback
from fractions import Fraction as F

import numpy as np

from ..common import run_driver, q2s, seed_rng
from ..exact import enc_list, enc_rule1, enc_scheme, rand_frac, rand_rule

PROP_MODS = ['Stbem.Props.C14', 'Stbem.Props.C14Integral', 'Stbem.Props.C14Integral14', 'Stbem.Props.QuadTie', 'Stbem.Props.NormsTie',
             'Stbem.Props.C14Integral14Gen']
RULE = ('correspondence: the real Slobodeckij class (constructors of the three base rules monkey-patched in the '
        'harness process to rational stand-in rules with 1-4 nodes, routed by the requested order) run on exact '
        'rationals (class Q: exact sqrt of rational squares, float constants = the rationals they denote) and compared textually with the Lean '
        'model: seminorm_h_1_4 / sqrt(h), seminorm_h_1_2 (flat), seminorm_h_1_2 with straight parametrisations '
        '(axis-parallel, Pythagorean and non-unit directions), the point set semi_1_2_pw, seminorm_h_1_2_pw incl. '
        'its three assertions; integrands: rational-coefficient polynomials, reciprocals of affine functions, '
        'trivariate polynomials in (x_hat, gamma_1, gamma_2); every request is answered a second time by the definitions '
        'REGENERATED from src/norms.py (translate/normsgen.py -> Gen/NormsGen.lean; driver `gslo`: the generated constructor on '
        'the same order-keyed rule tables with every field of the object compared, seminorm_h_1_4 WITH its factor h**(1/2), '
        'the flat / curve-aware / two-piece routines on the object the generated constructor builds). non-trivial = base rules with >= 2 nodes; distinct = '
        'distinct (routine, rules, integrand, interval, pieces). search (model-independent, real code): (a) exact: '
        'interpolatory rational rules with the exact moments of the three weights up to order N -> the real '
        'routines must return the exact rational closed form of the double integral for every polynomial of '
        'degree <= (N-1)/2; sign, constants, c^2-scaling, translation, curve-aware = flat hold exactly for '
        'arbitrary positive rules; (b) floats through the real constructors, orders 1,3,...,21 (23 for H^{1/4}): '
        'closed form to 1e-12 relative plus a conditioning allowance 64 eps L h^s (M + A L) (M = sum |c_k| A^k, '
        'L = sum k |c_k| A^(k-1), A = max(|a|,|b|)) that only matters for ill-conditioned data, invariances, rigid '
        'placements, corner case against a geometrically graded composite Gauss reference at 1e-8.')
TRUSTED = [
    'Lean 4.33 kernel; axioms propext, Classical.choice, Quot.sound only',
    'correspondence harness harness/checks/C14.py (class Q, stand-in constructors) + Lean driver parser '
    '(Driver/QuadCmd.lean)',
    'Python semantics: Fraction arithmetic is exact; NumPy object arrays apply Python operators element-wise; '
    'order of np.repeat/tile/kron/hstack',
    'src/norms.py itself is regenerated from the source on every run (translate/normsgen.py -> Gen/NormsGen.lean: the constructor '
    'with its derived arrays, the three seminorm methods statement by statement) and proved equal to the hand-written model for all '
    'inputs (Props/NormsTie.lean: gen_init_eq, gen_seminorm_h_1_4_eq, gen_seminorm_h_1_2_flat_eq, gen_seminorm_h_1_2_curve_eq, '
    'gen_seminorm_h_1_2_pw_eq); trusted there: the object model / NumPy prelude at the top of the generated file (parametrisation '
    'object = identity + point evaluation, integrand f(x_hat, gamma) entry-wise, np.sum(axis=0), element-wise 2-D array '
    'arithmetic), executed against the real class here',
    'the classes of src/quadrature.py that src/norms.py builds on (QuadScheme1D, ProductScheme2D, QuadScheme2D.integrate '
    'with its size assertion) are regenerated from the source on every run (translate/quadgen.py -> Gen/QuadGen.lean) and '
    'proved equal to the hand-written model used here (Props/QuadTie.lean: gen_product2_eq, gen_integrate2_eq, '
    'gen_size_threshold, semi12pwVal_via_gen); the generated functions are run against the real classes by C15.py',
    'classical calculus: nothing trusted any more for polynomial data.  H^{1/4}: Props/C14Integral14.lean proves semi14 = '
    'int_0^1 int_0^1 P x^-1/2 y^-1/2 (semi14_eq_integral_ref) = h^-1/2 * 2 int_a^{a+h} int_a^t (f t - f s)^2/(t - s)^{3/2} '
    '(semi14_eq_integral_triangle) = h^-1/2 * int_a^{a+h} int_a^{a+h} (f x - f y)^2/|x - y|^{3/2} (semi14_eq_integral_square, '
    'semi14_exact; Fubini for the continuous kernel |t-s|^{1/2} D(t,s)^2; gen_h14_exact for the generated code) with Mathlib '
    'interval integrals and real powers, for every rule with the moments 2/(2k+1), k <= N, 2 deg f <= N, 0 < h; the closed '
    'forms used by the search are computed independently by exact polynomial algebra in the harness.  H^{1/2}: '
    'Props/C14Integral.lean proves semi12 = int_a^b int_a^b ((f x - f y)/(x - y))^2 dy dx (Mathlib interval integrals) for '
    'polynomial f within the exactness range (semi12_eq_integral_poly, semi12_exact; NormsTie.gen_h12_eq_integral_poly)',
    'modelled, not verified: binary64 rounding ("twelve digits") — covered by the float search only',
]
ASSUMPTIONS = ['exact arithmetic (floats are rationals); h != 0, no node x = 0 and no Legendre node y = 1 (division '
               'by zero raises in exact Python and is 0 in Lean); both H^{1/2} base rules have the same number of '
               'nodes (same order passed by the constructor; NumPy broadcast error otherwise)',
               'the integrand f(x_hat, gamma) uses gamma only through gamma(x_hat)',
               'the base rules returned by the real constructors have the advertised moments (property C05) and '
               'np.polynomial.legendre.leggauss is a Gauss-Legendre rule']


def translate(res):
    """src/norms.py builds its rules with QuadScheme1D / ProductScheme2D / QuadScheme2D of src/quadrature.py: regenerate
    Gen/QuadGen.lean from the working tree (Props/QuadTie.lean proves it equal to the hand model the Slobodeckij model uses)."""
    from .C15 import translate_quadgen
    translate_quadgen(res)
    translate_normsgen(res)


def translate_normsgen(res):
    """Regenerates lean/Stbem/Gen/NormsGen.lean (class Slobodeckij of src/norms.py, statement by statement) from the working
    tree; a construct the translator does not understand raises (= broken obligation, the previous file is kept)."""
    import os
    import subprocess
    import sys
    from ..common import LEAN, REPO, VERIF, lake_lock, write_if_changed
    sys.path.insert(0, os.path.join(VERIF, 'translate'))
    import normsgen

    def compiles(text):
        # a changed file is compiled on its own (it imports Gen/QuadGen.lean only) before it replaces Gen/NormsGen.lean, which the
        # driver links
        tmp = os.path.join(LEAN, '.lake', 'normsgen_check_%d.lean' % os.getpid())
        with open(tmp, 'w') as fh:
            fh.write(text)
        try:
            with lake_lock():
                p = subprocess.run(['lake', 'build', 'Stbem.Gen.QuadGen'], cwd=LEAN, stdout=subprocess.PIPE, stderr=subprocess.STDOUT,
                                   text=True, timeout=600)
                if p.returncode == 0:
                    p = subprocess.run(['lake', 'env', 'lean', tmp], cwd=LEAN, stdout=subprocess.PIPE, stderr=subprocess.STDOUT,
                                       text=True, timeout=600)
        finally:
            os.unlink(tmp)
        return None if p.returncode == 0 else p.stdout[-2000:]
    stats = normsgen.generate(REPO, os.path.join(LEAN, 'Stbem', 'Gen'), write_if_changed, compiles)
    res.bump('generated_norms_file_changed', stats.get('changed', 0))
    for k in ('classes', 'constructors', 'methods', 'fields', 'assignments', 'augmented_assignments', 'returns', 'asserts',
              'specialised_branches', 'local_functions', 'method_calls', 'integrate_calls', 'integrand_calls', 'gamma_calls',
              'numpy_calls', 'array_ops', 'sqrt_factors', 'external_rule_calls', 'identity_tests', 'default_arguments'):
        res.bump('translated_norms_' + k, stats.get(k, 0))
    res.count(('translated', 'norms.py'), True, n=stats.get('assignments', 0) + stats.get('returns', 0))
    return stats


# --------------------------------------------------------------------------------------------------
class Q:
    """Exact rational that survives `h**(1/2)`: the float exponent 0.5 gives the exact rational root of a
    perfect square and raises otherwise; a float operand is taken as the rational number it denotes, so all
    arithmetic is exact in Q (there is no `__float__`: math.sqrt & co. raise instead of rounding silently)."""
    __slots__ = ('v', )

    def __init__(self, v=0):
        self.v = v.v if isinstance(v, Q) else F(v)

    @staticmethod
    def _c(o):
        if isinstance(o, Q):
            return o.v
        if isinstance(o, (int, F)) and not isinstance(o, bool):
            return F(o)
        if isinstance(o, (float, np.floating)):
            return F(float(o))  # a binary64 constant of the code is the rational it denotes (no rounding)
        return None

    def __add__(self, o):
        c = Q._c(o)
        return NotImplemented if c is None else Q(self.v + c)

    __radd__ = __add__

    def __sub__(self, o):
        c = Q._c(o)
        return NotImplemented if c is None else Q(self.v - c)

    def __rsub__(self, o):
        c = Q._c(o)
        return NotImplemented if c is None else Q(c - self.v)

    def __mul__(self, o):
        c = Q._c(o)
        return NotImplemented if c is None else Q(self.v * c)

    __rmul__ = __mul__

    def __truediv__(self, o):
        c = Q._c(o)
        return NotImplemented if c is None else Q(self.v / c)

    def __rtruediv__(self, o):
        c = Q._c(o)
        return NotImplemented if c is None else Q(c / self.v)

    def __pow__(self, e):
        if isinstance(e, int) and not isinstance(e, bool):
            return Q(self.v**e)
        if isinstance(e, float) and e == 0.5:
            n, d = self.v.numerator, self.v.denominator
            if n < 0:
                raise ArithmeticError('sqrt of a negative number')
            rn, rd = math.isqrt(n), math.isqrt(d)
            if rn * rn != n or rd * rd != d:
                raise ArithmeticError('h = %s is not a rational square' % self.v)
            return Q(F(rn, rd))
        raise TypeError('unsupported exponent %r' % (e, ))

    def __neg__(self):
        return Q(-self.v)

    def __abs__(self):
        return Q(abs(self.v))

    @staticmethod
    def _cmp(o):
        if isinstance(o, Q):
            return o.v
        if isinstance(o, (float, np.floating)):
            return F(float(o))  # exact value of the binary64 number
        if isinstance(o, (int, F)):
            return F(o)
        return None

    def __eq__(self, o):
        c = Q._cmp(o)
        return NotImplemented if c is None else self.v == c

    def __lt__(self, o):
        c = Q._cmp(o)
        return NotImplemented if c is None else self.v < c

    def __le__(self, o):
        c = Q._cmp(o)
        return NotImplemented if c is None else self.v <= c

    def __gt__(self, o):
        c = Q._cmp(o)
        return NotImplemented if c is None else self.v > c

    def __ge__(self, o):
        c = Q._cmp(o)
        return NotImplemented if c is None else self.v >= c

    def __hash__(self):
        return hash(self.v)

    def __repr__(self):
        return 'Q(%s)' % self.v


def qarr(xs):
    a = np.empty(len(xs), dtype=object)
    for i, x in enumerate(xs):
        a[i] = Q(x)
    return a


class SegGamma:
    """Straight piece gamma(x) = p + (x - s) d (works on exact numbers and on floats)."""
    def __init__(self, p1, p2, d1, d2, s, wrap=None):
        w = wrap or (lambda v: v)
        self.raw = (p1, p2, d1, d2, s)
        self.p1, self.p2, self.d1, self.d2, self.s = w(p1), w(p2), w(d1), w(d2), w(s)

    def __call__(self, x):
        r0 = self.p1 + (x - self.s) * self.d1
        r1 = self.p2 + (x - self.s) * self.d2
        if isinstance(r0, np.ndarray):
            out = np.empty((2, len(r0)), dtype=r0.dtype)
            out[0], out[1] = r0, r1
            return out
        out = np.empty(2, dtype=object if isinstance(r0, Q) else float)
        out[0], out[1] = r0, r1
        return out

    def enc(self):
        return enc_list(self.raw)


# integrands ------------------------------------------------------------------------------------------
def mk_fun1(spec):
    """1-D integrand of the driver mini-language acting on arrays of exact numbers."""
    kind, *cs = spec.split(':')
    c = [F(v) for v in cs]
    if kind == 'p':
        if c == [0, 1]:
            return lambda x: x   # the identity as a user writes it: returns the routine's own node array

        def f(x):
            acc = 0 * x
            for ck in reversed(c):
                acc = ck + x * acc
            return acc
        return f
    if kind == 'r':
        return lambda x: 1 / (c[0] + c[1] * x)
    raise ValueError(spec)


def mk_fun3(spec):
    """integrand f(x_hat, gamma) = F(x_hat, gamma(x_hat)_0, gamma(x_hat)_1)."""
    kind, *cs = spec.split(':')
    if kind == 's':
        terms = []
        for t in cs:
            cc, i, j, k = t.split(',')
            terms.append((F(cc), int(i), int(j), int(k)))
        if terms == [(F(1), 1, 0, 0)]:
            return lambda x, gamma: x   # returns the routine's own node array

        def f(x, gamma):
            g = gamma(x)
            acc = 0 * x
            for cc, i, j, k in terms:
                acc = acc + cc * x**i * g[0]**j * g[1]**k
            return acc
        return f
    if kind == 'r':
        c = [F(v) for v in cs]

        def f(x, gamma):
            g = gamma(x)
            return 1 / (c[0] + c[1] * x + c[2] * g[0] + c[3] * g[1])
        return f
    raise ValueError(spec)


def rand_q(rng, lo=-9, hi=9):
    return F(rng.randint(lo, hi), rng.choice([1, 1, 2, 3, 4, 5, 7]))


def rand_fun1(rng):
    if rng.random() < 0.2:
        return 'p:0:1'
    if rng.random() < 0.7:
        return 'p:' + ':'.join(q2s(rand_q(rng)) for _ in range(rng.randint(1, 6)))
    return 'r:%s:%s:0:0' % (q2s(F(rng.randint(1, 9), rng.choice([1, 2, 3]))), q2s(F(rng.randint(1, 7), rng.choice([1, 3, 5]))))


def rand_fun3(rng):
    if rng.random() < 0.2:
        return 's:1,1,0,0'
    if rng.random() < 0.75:
        terms = []
        for _ in range(rng.randint(1, 5)):
            terms.append('%s,%d,%d,%d' % (q2s(rand_q(rng)), rng.randint(0, 3), rng.randint(0, 2), rng.randint(0, 2)))
        return 's:' + ':'.join(terms)
    return 'r:%s:%s:%s:%s' % tuple(q2s(F(rng.randint(1, 9), rng.choice([1, 2, 3]))) for _ in range(4))


SQUARES = [F(1), F(4), F(1, 4), F(4, 9), F(9, 16), F(25, 4), F(1, 100), F(10000), F(49, 25), F(1, 1000000)]
UNIT_DIRS = [(F(1), F(0)), (F(0), F(1)), (F(-1), F(0)), (F(0), F(-1)), (F(3, 5), F(4, 5)), (F(-4, 5), F(3, 5)),
             (F(5, 13), F(-12, 13)), (F(-8, 17), F(-15, 17)), (F(20, 29), F(21, 29))]
OTHER_DIRS = [(F(2), F(1, 3)), (F(1, 2), F(1, 2)), (F(-3), F(1)), (F(0), F(5, 2))]


def rand_rule_any(rng, n):
    """Random rational rule; mostly positive weights / nodes in (0,1), sometimes signed weights or nodes > 1."""
    p, w = rand_rule(rng, n)
    k = rng.random()
    if k < 0.15:
        w = [-v if rng.random() < 0.4 else v for v in w]
    elif k < 0.25:
        p = [v + rng.randint(0, 2) for v in p]
    return p, w


@contextlib.contextmanager
def patched_rules(sqrtinv, leg, gx, wrap=qarr):
    """Replaces the three rule constructors imported into src.norms by table look-ups (dict order -> rule)."""
    import src.norms as NM
    from src.quadrature import QuadScheme1D
    saved = (NM.gauss_sqrtinv_quadrature_scheme, NM.gauss_quadrature_scheme, NM.gauss_x_quadrature_scheme)

    def mk(tab):
        def make(N):
            rule = tab[N] if N in tab else tab['other']  # KeyError = harness error (no fallback rule given)
            return QuadScheme1D(wrap(rule[0]), wrap(rule[1]))
        return make

    NM.gauss_sqrtinv_quadrature_scheme, NM.gauss_quadrature_scheme, NM.gauss_x_quadrature_scheme = \
        mk(sqrtinv), mk(leg), mk(gx)
    try:
        yield NM.Slobodeckij
    finally:
        NM.gauss_sqrtinv_quadrature_scheme, NM.gauss_quadrature_scheme, NM.gauss_x_quadrature_scheme = saved


def assertion_tag(exc):
    """Which assertion of src/norms.py / src/quadrature.py failed (from the traceback)."""
    fr = traceback.extract_tb(exc.__traceback__)[-1]
    line = fr.line or ''
    if fr.name == 'integrate':
        return 'assert:size'
    if 'is not' in line:
        return 'assert:gamma-identity'
    if 'gamma_1(b_1)' in line:
        return 'assert:corner'
    return 'assert:?(%s)' % line


def correspond(res, tier):
    rng = seed_rng(res.seed, 'C14')
    n_cases = 60 if tier == 'quick' else 1500
    lines, expect, meta = [], [], []

    def add(line, value, key, nontrivial=True, twin=None):
        """`twin` = (request, expected value) answered by the definitions regenerated from src/norms.py"""
        lines.append(line)
        expect.append(value)
        meta.append((key, nontrivial))
        if twin is not None:
            lines.append(twin[0])
            expect.append(twin[1])
            meta.append((('gen', ) + tuple(key), nontrivial))

    def enc_table(tab):
        return '|'.join('%d=%s' % (N, enc_rule1(*tab[N])) for N in sorted(tab))

    def enc_slo(S):
        return '|'.join([enc_scheme(S.gauss_sqrtinv), enc_list(S.semi_1_4_xy), enc_list(S.semi_1_4_weights), enc_scheme(S.gauss_leg),
                         enc_scheme(S.gauss_x), enc_list(S.semi_1_2_xy), enc_list(S.semi_1_2_weights), enc_scheme(S.semi_1_2_pw)])

    for case in range(n_cases):
        n14 = rng.randint(1, 4)
        n12 = rng.randint(1, 4)
        nl = n12 if rng.random() < 0.85 else None  # None: one-node x rule with a longer Legendre rule
        N14, N12 = rng.choice([1, 3, 5, 7]), rng.choice([9, 11, 13])
        two_orders = rng.random() < 0.5
        g14 = rand_rule_any(rng, n14)
        if nl is None:
            gx, gl = rand_rule_any(rng, 1), rand_rule_any(rng, rng.randint(2, 4))
        else:
            gx, gl = rand_rule_any(rng, n12), rand_rule_any(rng, n12)
        decoy = rand_rule_any(rng, 2)
        # tables keyed by the requested order: a wrong routing of N_poly_1_4 / N_poly_1_2 picks the decoy
        k12 = N12 if two_orders else N14
        tabs = [{N14: g14}, {k12: gl}, {k12: gx}]
        for t in tabs:
            for N in (1, 3, 5, 7, 9, 11, 13):
                t.setdefault(N, decoy)
        e14, ex, el = enc_rule1(*g14), enc_rule1(*gx), enc_rule1(*gl)
        nt14, nt12 = n14 >= 2, len(gl[0]) >= 2
        with patched_rules(*tabs) as Slobodeckij:
            S = Slobodeckij(N14, N12) if two_orders else Slobodeckij(N14)
        res.bump('constructed_' + ('two_orders' if two_orders else 'one_order'))
        # the generated constructor on the same order-keyed tables: every field of the object
        add('gslo init %d %s %s %s %s' % (N14, N12 if two_orders else '-', enc_table(tabs[0]), enc_table(tabs[1]), enc_table(tabs[2])),
            enc_slo(S), ('init', N14, N12 if two_orders else None, e14, ex, el), nt14 or nt12)
        # the prelude of the generated file truncates where NumPy broadcasts a length-1 axis: the generated H^{1/2} routines are
        # compared when both base rules have equally many nodes (the precondition of Props/NormsTie.lean)
        same_len = len(gx[0]) == len(gl[0])
        if not same_len:
            res.bump('twin_skipped_h12_rules_of_different_length')
        e3 = '%s %s %s' % (e14, ex, el)

        # the instance S serves a *history* of calls: intervals repeat within a case (any state the routines keep
        # between calls would show up as a difference from the stateless model)
        pool = [(rand_q(rng, 0, 9), rng.choice(SQUARES)) for _ in range(2)]
        # --- H^{1/4}
        for _ in range(4):
            fs = rand_fun1(rng)
            a, h = rng.choice(pool)
            root = Q(h)**0.5
            try:
                v = S.seminorm_h_1_4(mk_fun1(fs), Q(a), Q(a + h))
            except ZeroDivisionError:  # pole of the integrand at a node
                res.bump('skipped_zero_division')
                continue
            add('slo h14 %s %s %s %s' % (e14, fs, q2s(a), q2s(h)), q2s(v / root), ('h14', e14, fs, a, h), nt14,
                twin=('gslo h14 %s %s %s %s %s' % (e3, fs, q2s(a), q2s(h), q2s(root)), q2s(v)))
        # --- H^{1/2}, flat
        pool = [(rand_q(rng, 0, 9), rng.choice(SQUARES + [F(2), F(3, 7), F(1000, 3)])) for _ in range(2)]
        for _ in range(4):
            fs = rand_fun1(rng)
            a, h = rng.choice(pool)
            try:
                v = S.seminorm_h_1_2(mk_fun1(fs), Q(a), Q(a + h))
            except ZeroDivisionError:
                res.bump('skipped_zero_division')
                continue
            add('slo h12 %s %s %s %s %s' % (ex, el, fs, q2s(a), q2s(h)), q2s(v), ('h12', ex, el, fs, a, h), nt12,
                twin=('gslo h12 %s %s %s %s' % (e3, fs, q2s(a), q2s(h)), q2s(v)) if same_len else None)
        # --- H^{1/2}, curve-aware on a straight piece
        d = rng.choice(UNIT_DIRS + OTHER_DIRS)
        sg_pool = [SegGamma(rand_q(rng, 0, 9), rand_q(rng, 0, 9), d[0], d[1], rand_q(rng), wrap=Q)]
        pool = [(rand_q(rng, 0, 9), rng.choice([F(1), F(1, 3), F(5, 2), F(1, 50), F(40)])) for _ in range(2)]
        for _ in range(4):
            fs = rand_fun3(rng)
            a, h = rng.choice(pool)
            if rng.random() < 0.3:
                d = rng.choice(UNIT_DIRS + OTHER_DIRS)
                sg_pool.append(SegGamma(rand_q(rng, 0, 9), rand_q(rng, 0, 9), d[0], d[1], rand_q(rng), wrap=Q))
            sg = rng.choice(sg_pool)
            try:
                v = S.seminorm_h_1_2(mk_fun3(fs), Q(a), Q(a + h), sg)
            except ZeroDivisionError:
                res.bump('skipped_zero_division')
                continue
            add('slo h12g %s %s %s %s %s %s' % (ex, el, fs, q2s(a), q2s(h), sg.enc()), q2s(v),
                ('h12g', ex, el, fs, a, h, sg.raw), nt12,
                twin=('gslo h12g %s %s %s %s %s' % (e3, fs, q2s(a), q2s(h), sg.enc()), q2s(v)) if same_len else None)
        # --- the two-piece point set
        add('slo pw %s %s' % (ex, el), enc_scheme(S.semi_1_2_pw), ('pw', ex, el), nt12,
            twin=('gslo pw %s' % e3, enc_scheme(S.semi_1_2_pw)))
        # --- seminorm_h_1_2_pw on two straight pieces meeting in a corner
        for _ in range(3):
            fs = rand_fun3(rng)
            P = (rand_q(rng, 0, 9), rand_q(rng, 0, 9))
            d1, d2 = rng.choice(UNIT_DIRS + OTHER_DIRS), rng.choice(UNIT_DIRS + OTHER_DIRS)
            a1 = rand_q(rng, 0, 5)
            b1 = a1 + rng.choice([F(1), F(1, 2), F(3), F(7, 5)])
            mode = rng.random()
            if 0.08 <= mode < 0.16:  # size assertion of QuadScheme2D.integrate (first interval)
                b1 = a1 + rng.choice([F(1e-7), F(1, 10**7), F(1, 10**8), F(0) - F(1, 2)])
            a2 = b1 if rng.random() < 0.5 else rand_q(rng, 0, 5)
            b2 = a2 + rng.choice([F(1), F(1, 2), F(3), F(7, 5)])
            same = False
            P2 = P
            if mode < 0.08:
                P2 = (P[0] + rng.choice([F(1, 7), F(0)]), P[1] + F(1, 3))  # corner mismatch
            elif 0.16 <= mode < 0.24:  # second interval too short
                b2 = a2 + rng.choice([F(1e-7), F(1, 10**7), F(1, 10**8)])
            elif 0.24 <= mode < 0.30:
                same = True
            s1 = SegGamma(P[0], P[1], d1[0], d1[1], b1, wrap=Q)
            s2 = SegGamma(P2[0], P2[1], d2[0], d2[1], a2, wrap=Q)
            if same:
                # one Python object for both pieces (needs gamma(b1) == gamma(a2) to get past the corner check
                # only if the identity assertion were missing; the identity assertion comes first)
                s2 = s1
            try:
                v = q2s(S.seminorm_h_1_2_pw(mk_fun3(fs), Q(a1), Q(b1), s1, Q(a2), Q(b2), s2))
            except AssertionError as exc:
                v = 'error:' + assertion_tag(exc)
                res.bump('pw_' + v)
            except ZeroDivisionError:
                res.bump('skipped_zero_division')
                continue
            add('slo pwval %s %s %s %s %s %s %s %s %s %d' % (ex, el, fs, q2s(a1), q2s(b1), s1.enc(), q2s(a2), q2s(b2),
                                                             s2.enc(), same), v,
                ('pwval', ex, el, fs, a1, b1, s1.raw, a2, b2, s2.raw, same), nt12,
                twin=('gslo pwval %s %s %s %s %s %s %s %s %d' % (e3, fs, q2s(a1), q2s(b1), s1.enc(), q2s(a2), q2s(b2), s2.enc(),
                                                                   same), v) if same_len else None)
        if case < 3:
            res.sample(dict(rule_sqrtinv=e14, rule_x=ex, rule_leg=el, last_line=lines[-1][:300], value=expect[-1][:80]))

    out = run_driver(lines)
    if len(out) != len(lines):
        res.broken_obligation('correspondence C14', 'driver returned %d lines for %d' % (len(out), len(lines)))
        return
    for line, want, got, (key, nt) in zip(lines, expect, out, meta):
        res.count(key, nt)
        res.bump('ops_' + line.split()[0] + '_' + line.split()[1])
        if want != got:
            res.broken_obligation('correspondence C14: model and src/norms.py differ',
                                  'line: %s\npython: %s\nmodel:  %s' % (line[:900], want[:300], got[:300]))
            break


# ====================================================================================================
# search: model-independent oracle
# ----------------------------------------------------------------------------------------------------
# exact closed forms (plain polynomial algebra on dicts {(i, j): coefficient})
def pmul(p, q):
    r = {}
    for (i, j), v in p.items():
        for (k, l), w in q.items():
            r[(i + k, j + l)] = r.get((i + k, j + l), 0) + v * w
    return r


def divdiff(c):
    """(p(x) - p(y)) / (x - y) for p = sum c_k x^k."""
    r = {}
    for k, ck in enumerate(c):
        for i in range(k):
            r[(i, k - 1 - i)] = r.get((i, k - 1 - i), 0) + ck
    return r


def shift(c, a, h):
    """coefficients of s -> p(a + h s)."""
    out = [F(0)] * len(c)
    for k, ck in enumerate(c):
        for m in range(k + 1):
            out[m] += ck * math.comb(k, m) * a**(k - m) * h**m
    return out


def ref12(c, a, b):
    """int_a^b int_a^b (p(x) - p(y))^2 / (x - y)^2 dx dy, exactly."""
    D2 = pmul(divdiff(c), divdiff(c))
    tot = F(0)
    for (i, j), v in D2.items():
        tot += v * (b**(i + 1) - a**(i + 1)) / (i + 1) * (b**(j + 1) - a**(j + 1)) / (j + 1)
    return tot


def ref14_over_sqrt_h(c, a, h):
    """h^{-1/2} int_a^{a+h} int_a^{a+h} (p(x) - p(y))^2 / |x - y|^{3/2} dx dy, exactly (a rational):
    with P(s) = p(a + h s) and E = divided difference of P the integral is
    h^{1/2} * 2 int_0^1 int_0^s E(s, s - z)^2 z^{1/2} dz ds, and
    int_0^1 int_0^s s^i z^{j + 1/2} dz ds = 1 / ((j + 3/2)(i + j + 5/2))."""
    E = divdiff(shift(c, a, h))
    G = {}
    for (i, j), v in E.items():  # s^i (s - z)^j
        for m in range(j + 1):
            key = (i + j - m, m)
            G[key] = G.get(key, 0) + v * math.comb(j, m) * (-1)**m
    tot = F(0)
    for (i, j), v in pmul(G, G).items():
        tot += v / ((j + F(3, 2)) * (i + j + F(5, 2)))
    return 2 * tot


def interpolatory_rule(rng, n, moment):
    """Rational rule with n distinct nodes in (0,1) whose moments 0..n-1 are `moment(k)` (exact solve)."""
    pts = set()
    while len(pts) < n:
        pts.add(F(rng.randint(1, 30), 31))
    pts = sorted(pts)
    A = [[p**k for p in pts] + [moment(k)] for k in range(n)]
    for col in range(n):  # Gauss-Jordan over Q
        piv = next(r for r in range(col, n) if A[r][col] != 0)
        A[col], A[piv] = A[piv], A[col]
        inv = 1 / A[col][col]
        A[col] = [v * inv for v in A[col]]
        for r in range(n):
            if r != col and A[r][col] != 0:
                fac = A[r][col]
                A[r] = [x - fac * y for x, y in zip(A[r], A[col])]
    return pts, [A[r][n] for r in range(n)]


def poly_fun(c):
    def f(x):
        acc = 0 * x
        for ck in reversed(c):
            acc = ck + x * acc
        return acc
    return f


EPS = 2.0**-52


def cond_allowance(c, a_eval, a_coord, h, power):
    """First-order bound (with a safety factor) on what binary64 evaluation of the *data* (nodes a + h x_i and
    the values of f) can change in the seminorm: |f| <= M and |f'| <= L on the interval; differences
    f(x) - f(y) carry an absolute error ~ eps (M + A L), and enter the value weighted by ~ L h^power."""
    M = sum(abs(ck) * a_eval**k for k, ck in enumerate(c))
    L = sum(k * abs(ck) * a_eval**(k - 1) for k, ck in enumerate(c) if k)
    return 64 * EPS * L * h**power * (M + a_coord * L)


def graded_cross(F1, F2, D2, h1, h2, n, K=44):
    """int_0^h1 int_0^h2 (F1(u) - F2(v))^2 / D2(u, v) dv du by composite tensor Gauss-Legendre on a mesh graded
    geometrically (factor 2) towards the corner (0, 0) — independent of the Duffy construction of the code."""
    xs, ws = np.polynomial.legendre.leggauss(n)
    xs, ws = (xs + 1) / 2, ws / 2

    def pieces(h):
        ed = [0.0] + [h * 2.0**(-k) for k in range(K, -1, -1)]
        P, W = [], []
        for lo, hi in zip(ed[:-1], ed[1:]):
            P.append(lo + (hi - lo) * xs)
            W.append((hi - lo) * ws)
        return np.concatenate(P), np.concatenate(W)

    u, wu = pieces(h1)
    v, wv = pieces(h2)
    U, V = np.meshgrid(u, v, indexing='ij')
    return float(wu @ ((F1(U) - F2(V))**2 / D2(U, V)) @ wv)


def search_exact(res, tier, boost, rng):
    """Exact oracle on the real class (patched constructors, class Q)."""
    def fail(key, **data):
        res.violation(key, data)

    orders = [1, 3, 5] if tier == 'quick' and not boost else [1, 3, 5, 7, 9]
    reps = 3 if tier == 'quick' and not boost else 10
    for N in orders:
        n = N + 1
        g14 = interpolatory_rule(rng, n, lambda k: F(2, 2 * k + 1))
        gx = interpolatory_rule(rng, n, lambda k: F(1, k + 2))
        gl = interpolatory_rule(rng, n, lambda k: F(1, k + 1))
        other = ([F(1, 2)], [F(1)])  # what a constructor asking for another order than N gets
        with patched_rules({N: g14, 'other': other}, {N: gl, 'other': other}, {N: gx, 'other': other}) as Slobodeckij:
            S = Slobodeckij(N)
        dmax = (N - 1) // 2
        for _ in range(reps):
            for deg in range(dmax + 1):
                c = [rand_q(rng) for _ in range(deg)] + [F(rng.choice([-3, -1, 1, 2, 5]), rng.choice([1, 2, 3]))]
                a, h = rand_q(rng), rng.choice(SQUARES)
                root = (Q(h)**0.5).v
                f = poly_fun(c)
                info = dict(N=N, coeffs=[q2s(v) for v in c], a=q2s(a), h=q2s(h), rule_sqrtinv=enc_rule1(*g14),
                            rule_x=enc_rule1(*gx), rule_leg=enc_rule1(*gl))
                got = S.seminorm_h_1_4(f, Q(a), Q(a + h)).v / root
                want = ref14_over_sqrt_h(c, a, h)
                res.count(('x14', N, tuple(c), a, h), deg >= 1)
                if got != want:
                    fail('C14:h14-closed-form-exact-rule:N=%d:deg=%d' % (N, deg), got_over_sqrt_h=q2s(got),
                         want_over_sqrt_h=q2s(want), **info)
                got = S.seminorm_h_1_2(f, Q(a), Q(a + h)).v
                want = ref12(c, a, a + h)
                res.count(('x12', N, tuple(c), a, h), deg >= 1)
                if got != want:
                    fail('C14:h12-closed-form-exact-rule:N=%d:deg=%d' % (N, deg), got=q2s(got), want=q2s(want), **info)
                # curve-aware on a rigidly placed straight unit-speed piece = flat (exactly)
                d = rng.choice(UNIT_DIRS)
                sg = SegGamma(rand_q(rng), rand_q(rng), d[0], d[1], rand_q(rng), wrap=Q)
                got_g = S.seminorm_h_1_2(lambda x, gamma: f(x), Q(a), Q(a + h), sg).v
                res.count(('xcurve', N, tuple(c), a, h, sg.raw), deg >= 1)
                if got_g != got:
                    fail('C14:curve-aware-ne-flat-exact:N=%d' % N, curve=q2s(got_g), flat=q2s(got), seg=sg.enc(), **info)

        # call histories on the ONE instance: repeated intervals, integrands that hand back the array they were
        # given (`lambda x: x`): the value of a call must not depend on the calls before it
        if dmax >= 1:
            ivs = [(rand_q(rng), rng.choice(SQUARES)) for _ in range(2)]
            sgs = [SegGamma(rand_q(rng), rand_q(rng), d[0], d[1], rand_q(rng), wrap=Q) for d in UNIT_DIRS[:2]]
            hist = []
            for step in range(6 * reps):
                a, h = rng.choice(ivs)
                kind = rng.choice(['h14', 'h12', 'h12g'])
                alias = rng.random() < 0.4
                c = [F(0), F(1)] if alias else [rand_q(rng), F(rng.choice([-3, -1, 1, 2, 5]), rng.choice([1, 2, 3]))]
                f1 = (lambda x: x) if alias else poly_fun(c)
                hist.append(dict(kind=kind, a=q2s(a), h=q2s(h), f='lambda x: x' if alias else [q2s(v) for v in c]))
                if kind == 'h14':
                    got, want = S.seminorm_h_1_4(f1, Q(a), Q(a + h)).v / (Q(h)**0.5).v, ref14_over_sqrt_h(c, a, h)
                elif kind == 'h12':
                    got, want = S.seminorm_h_1_2(f1, Q(a), Q(a + h)).v, ref12(c, a, a + h)
                else:
                    sg = rng.choice(sgs)
                    hist[-1]['seg'] = sg.enc()
                    f3 = (lambda x, gamma: x) if alias else (lambda x, gamma: f1(x))
                    got, want = S.seminorm_h_1_2(f3, Q(a), Q(a + h), sg).v, ref12(c, a, a + h)
                res.count(('xhist', N, step, kind, tuple(c), a, h), True)
                if got != want:
                    fail('C14:call-history:%s-closed-form-exact-rule:N=%d' % (kind, N), got=q2s(got), want=q2s(want),
                         history_on_one_instance=hist[-8:], N=N, rule_sqrtinv=enc_rule1(*g14), rule_x=enc_rule1(*gx),
                         rule_leg=enc_rule1(*gl))
                    break

    # TWO different orders, `Slobodeckij(N_poly_1_4, N_poly_1_2)` (ErrorEstimator passes a tuple of orders): each routine
    # must be exact to half ITS OWN order; a rule asked for with the other routine's order gets the 1-point stand-in
    for N14, N12 in ([(1, 5), (5, 1), (3, 7)] if tier == 'quick' and not boost else [(1, 5), (5, 1), (3, 7), (7, 3), (1, 9), (9, 5), (5, 9)]):
        g14 = interpolatory_rule(rng, N14 + 1, lambda k: F(2, 2 * k + 1))
        gx = interpolatory_rule(rng, N12 + 1, lambda k: F(1, k + 2))
        gl = interpolatory_rule(rng, N12 + 1, lambda k: F(1, k + 1))
        other = ([F(1, 2)], [F(1)])
        with patched_rules({N14: g14, 'other': other}, {N12: gl, 'other': other}, {N12: gx, 'other': other}) as Slobodeckij:
            S2 = Slobodeckij(N14, N12)
        for _ in range(reps):
            a, h = rand_q(rng), rng.choice(SQUARES)
            root = (Q(h)**0.5).v
            for deg in range((max(N14, N12) - 1) // 2 + 1):
                c = [rand_q(rng) for _ in range(deg)] + [F(rng.choice([-3, -1, 1, 2, 5]), rng.choice([1, 2, 3]))]
                f = poly_fun(c)
                info = dict(N_poly_1_4=N14, N_poly_1_2=N12, coeffs=[q2s(v) for v in c], a=q2s(a), h=q2s(h))
                if deg <= (N14 - 1) // 2:
                    got, want = S2.seminorm_h_1_4(f, Q(a), Q(a + h)).v / root, ref14_over_sqrt_h(c, a, h)
                    res.count(('x14-two-orders', N14, N12, tuple(c), a, h), deg >= 1)
                    if got != want:
                        fail('C14:h14-closed-form-exact-rule:two-orders', got_over_sqrt_h=q2s(got), want_over_sqrt_h=q2s(want), **info)
                if deg <= (N12 - 1) // 2:
                    got, want = S2.seminorm_h_1_2(f, Q(a), Q(a + h)).v, ref12(c, a, a + h)
                    res.count(('x12-two-orders', N14, N12, tuple(c), a, h), deg >= 1)
                    if got != want:
                        fail('C14:h12-closed-form-exact-rule:two-orders', got=q2s(got), want=q2s(want), **info)
                    d = rng.choice(UNIT_DIRS)
                    sg = SegGamma(rand_q(rng), rand_q(rng), d[0], d[1], rand_q(rng), wrap=Q)
                    got_g = S2.seminorm_h_1_2(lambda x, gamma: f(x), Q(a), Q(a + h), sg).v
                    if got_g != got:
                        fail('C14:curve-aware-ne-flat-exact:two-orders', curve=q2s(got_g), flat=q2s(got), seg=sg.enc(), **info)
    # invariances hold for every rule with non-negative weights and nodes in (0,1): random stand-in rules,
    # arbitrary (non-polynomial) data
    for _ in range(8 if tier == 'quick' and not boost else 150):
        n = rng.randint(1, 4)
        g14, gx, gl = rand_rule(rng, n), rand_rule(rng, n), rand_rule(rng, n)
        with patched_rules({1: g14}, {1: gl}, {1: gx}) as Slobodeckij:
            S = Slobodeckij(1)
        kind = rng.random()
        if kind < 0.6:
            c = [rand_q(rng) for _ in range(rng.randint(1, 5))]
            f = poly_fun(c)
            fdesc = 'p:' + ':'.join(q2s(v) for v in c)
        else:
            c0, c1 = F(rng.randint(20, 40)), F(rng.randint(1, 3), rng.choice([1, 2]))
            f = lambda x, c0=c0, c1=c1: 1 / (c0 + c1 * x) + x * x
            fdesc = '1/(%s+%s x)+x^2' % (c0, c1)
        a, h, tau, cc = rand_q(rng, 0, 6), rng.choice(SQUARES), rand_q(rng, 0, 6), rand_q(rng)
        info = dict(f=fdesc, a=q2s(a), h=q2s(h), tau=q2s(tau), c=q2s(cc), rule_sqrtinv=enc_rule1(*g14),
                    rule_x=enc_rule1(*gx), rule_leg=enc_rule1(*gl))
        d = rng.choice(UNIT_DIRS)
        sg = SegGamma(rand_q(rng), rand_q(rng), d[0], d[1], rand_q(rng), wrap=Q)
        G = lambda X: X[0] * X[0] - 3 * X[1] + X[0] * X[1]
        routines = {
            'h14': lambda fn, a0, b0: S.seminorm_h_1_4(fn, Q(a0), Q(b0)).v,
            'h12': lambda fn, a0, b0: S.seminorm_h_1_2(fn, Q(a0), Q(b0)).v,
        }
        for name, run in routines.items():
            v = run(f, a, a + h)
            res.count(('xinv', name, fdesc, a, h, enc_rule1(*g14), enc_rule1(*gx)), n >= 2)
            if v < 0:
                fail('C14:negative:%s' % name, value=q2s(v), **info)
            z = run(lambda x: 0 * x + cc, a, a + h)
            if z != 0:
                fail('C14:nonzero-on-constant:%s' % name, value=q2s(z), **info)
            s = run(lambda x: cc * f(x), a, a + h)
            if s != cc * cc * v:
                fail('C14:scaling:%s' % name, scaled=q2s(s), unscaled=q2s(v), **info)
            t = run(lambda x: f(x - tau), a + tau, a + tau + h)
            if t != v:
                fail('C14:translation:%s' % name, translated=q2s(t), original=q2s(v), **info)
        # curve-aware = flat for data given in the embedded coordinates
        vg = S.seminorm_h_1_2(lambda x, gamma: G(gamma(x)), Q(a), Q(a + h), sg).v
        vf = S.seminorm_h_1_2(lambda x: G(sg(x)), Q(a), Q(a + h)).v
        res.count(('xcurve-embedded', a, h, sg.raw, enc_rule1(*gx)), n >= 2)
        if vg != vf:
            fail('C14:curve-aware-ne-flat-exact:embedded', curve=q2s(vg), flat=q2s(vf), seg=sg.enc(), **info)


def search_float(res, tier, boost, rng):
    """Float oracle on the real class with the real constructors."""
    from src.norms import Slobodeckij

    def fail(key, **data):
        res.violation(key, data)

    def within(kind, err, tol):
        """err <= tol, recording the worst observed ratio err / tol per kind of comparison (evidence)."""
        ratio = err / tol if tol > 0 else (0.0 if err == 0 else float('inf'))
        name = 'worst_err_over_tol_' + kind
        res.notes[name] = max(res.notes.get(name, 0.0), float('%.3g' % ratio))
        return err <= tol

    reps = 8 if tier == 'quick' and not boost else 150
    orders = list(range(1, 22, 2)) + [23]
    objs = {}
    for N in orders:
        try:
            objs[N] = Slobodeckij(N) if N <= 21 else Slobodeckij(N, 21)
        except Exception as exc:  # e.g. a table entry that is not returned
            fail('C14:constructor-raises:order=%d' % N, order=N, error='%s: %s' % (type(exc).__name__, exc))
    for N, S in objs.items():
        dmax = (N - 1) // 2
        for rep in range(reps):
            deg = rng.randint(0, dmax) if rep else dmax
            c = [rng.uniform(-1, 1) for _ in range(deg + 1)]
            h = 10**rng.uniform(-3, 3) if rep > 1 else (1e-3, 1e3)[rep]
            a = rng.uniform(-5, 5) * h if rng.random() < 0.8 else rng.uniform(-100, 100)
            b = a + h
            hh = b - a
            if not (1e-3 <= hh <= 1e3):
                h = min(max(hh, 1.001e-3), 0.999e3)
                b = a + h
                hh = b - a
            # functions whose variation over the element is tiny against an absolute constant or against their own size:
            # a residual of amplitude 1e-10, a large constant plus a gentle slope, a short element far from the origin
            if deg >= 1 and rep >= 2 and rep % 4 == 2:
                mode = ('tiny', 'offset', 'far')[(rep // 4 + N // 2) % 3]
                if mode == 'tiny':
                    c = [v * 2.0**-33 for v in c]
                elif mode == 'offset':
                    c = [16384.0 + c[0]] + [v / 16 for v in c[1:]]
                    a, h = rng.uniform(0, 1), 1.0
                    b = a + h
                    hh = b - a
                else:
                    a, h = rng.choice([100.0, 150.0, 37.0]), 2.0**-9
                    b = a + h
                    hh = b - a
                res.bump('small_variation_cases_' + mode)
            cf, af, bf = [F(v) for v in c], F(a), F(b)
            A = max(abs(a), abs(b))
            f = poly_fun(c)
            info = dict(order=N, coeffs=c, a=a, b=b)
            routines = [('h14', lambda fn, a0, b0: S.seminorm_h_1_4(fn, a0, b0), 1.5,
                         lambda: float(ref14_over_sqrt_h(cf, af, bf - af)) * math.sqrt(float(bf - af)))]
            if N <= 21:
                routines.append(('h12', lambda fn, a0, b0: S.seminorm_h_1_2(fn, a0, b0), 1.0,
                                 lambda: float(ref12(cf, af, bf))))
            for name, run, power, ref in routines:
                v = float(run(f, a, b))
                want = ref()
                kap = cond_allowance(c, A, A, hh, power)
                res.count(('f-closed', name, N, rep, tuple(c), a, b), deg >= 1)
                if kap > 1e-14 * abs(want):
                    res.bump('float_cases_with_relevant_conditioning_allowance')
                if not within('closed_form_' + name, abs(v - want), 1e-12 * abs(want) + kap):
                    fail('C14:%s-closed-form:order=%d' % (name, N), got=v, want=want, rel_err=abs(v - want) / abs(want)
                         if want else None, allowance=kap, deg=deg, **info)
                if not v >= 0:
                    fail('C14:negative:%s:order=%d' % (name, N), value=v, **info)
                z = float(run(lambda x: 0 * x + c[0], a, b))
                if z != 0:
                    fail('C14:nonzero-on-constant:%s:order=%d' % (name, N), value=z, **info)
                cc = rng.choice([-3.0, 0.5, 7.25, rng.uniform(-10, 10)])
                s = float(run(lambda x: cc * f(x), a, b))
                res.count(('f-scale', name, N, rep, cc), deg >= 1)
                if not within('scaling', abs(s - cc * cc * v), 1e-12 * abs(cc * cc * v) + 2 * cc * cc * kap):
                    fail('C14:scaling:%s:order=%d' % (name, N), factor=cc, scaled=s, unscaled=v, **info)
                tau = rng.choice([1.0, -2.5, rng.uniform(-3, 3) * hh, rng.uniform(-10, 10)])
                t = float(run(lambda x: f(x - tau), a + tau, b + tau))
                A2 = max(A, abs(a + tau), abs(b + tau), abs(tau))
                res.count(('f-translate', name, N, rep, tau), deg >= 1)
                if not within('translation', abs(t - v), 1e-12 * abs(v) + kap + cond_allowance(c, A, A + 2 * A2, hh, power)):
                    fail('C14:translation:%s:order=%d' % (name, N), tau=tau, translated=t, original=v, **info)
            if N > 21 or deg < 1:
                continue
            # rigid placements of a straight segment: curve-aware = flat
            v_flat = float(S.seminorm_h_1_2(f, a, b))
            for kind in ('rot90', 'generic'):
                if kind == 'rot90':
                    d = rng.choice([(1.0, 0.0), (0.0, 1.0), (-1.0, 0.0), (0.0, -1.0)])
                else:
                    th = rng.uniform(0, 2 * math.pi)
                    d = (math.cos(th), math.sin(th))
                p = (rng.uniform(-2, 2) * hh, rng.uniform(-2, 2) * hh)
                s0 = rng.choice([a, b, 0.0, rng.uniform(a, b)])
                sg = SegGamma(p[0], p[1], d[0], d[1], s0)
                R = abs(p[0]) + abs(p[1]) + abs(a - s0) + abs(b - s0)
                Lf = sum(k * abs(ck) * A**(k - 1) for k, ck in enumerate(c) if k)
                v_curve = float(S.seminorm_h_1_2(lambda x, gamma: f(x), a, b, sg))
                res.count(('f-curve', kind, N, rep), True)
                if not within('curve_' + kind, abs(v_curve - v_flat), 1e-12 * abs(v_flat) + 64 * EPS * (R + A) * hh * Lf * Lf):
                    fail('C14:curve-aware-ne-flat:%s:order=%d' % (kind, N), curve=v_curve, flat=v_flat, seg=list(sg.raw),
                         **info)
                # data living in the embedded coordinates
                gco = [rng.uniform(-1, 1) for _ in range(5)]
                G = lambda X: gco[0] * X[0] + gco[1] * X[1] + gco[2] * X[0] * X[1] + gco[3] * X[0]**2 + gco[4] * X[1]**2
                Rm = R + abs(p[0]) + abs(p[1])
                LG = sum(abs(v) for v in gco) * 2 * (1 + Rm)
                v_curve = float(S.seminorm_h_1_2(lambda x, gamma: G(gamma(x)), a, b, sg))
                v_fl = float(S.seminorm_h_1_2(lambda x: G(sg(x)), a, b))
                res.count(('f-curve-embedded', kind, N, rep), True)
                if not within('curve_embedded_' + kind, abs(v_curve - v_fl), 1e-12 * abs(v_fl) + 64 * EPS * (R + A) * hh * LG * LG):
                    fail('C14:curve-aware-ne-flat:%s-embedded:order=%d' % (kind, N), curve=v_curve, flat=v_fl,
                         seg=list(sg.raw), G=gco, **info)

    # call histories on one instance (the way the estimators use it): repeated intervals, integrands that return
    # their argument array; every call is compared with the closed form
    for N, S in objs.items():
        if N < 3:
            continue
        ivs = []
        for _ in range(2):
            h = 10**rng.uniform(-2, 2)
            ivs.append((rng.uniform(-2, 2) * h, h))
        sgs = [SegGamma(0.3, -0.2, 0.0, 1.0, 0.1), SegGamma(1.0, 2.0, 0.6, 0.8, -0.5)]
        hist = []
        for step in range(8 if tier == 'quick' and not boost else 60):
            a, h = rng.choice(ivs)
            b = a + h
            kind = rng.choice(['h14', 'h12', 'h12g']) if N <= 21 else 'h14'
            alias = rng.random() < 0.4
            c = [0.0, 1.0] if alias else [rng.uniform(-1, 1), rng.uniform(0.5, 1)]
            f1 = (lambda x: x) if alias else poly_fun(c)
            hist.append(dict(kind=kind, a=a, b=b, f='lambda x: x' if alias else c))
            cf, af, bf = [F(v) for v in c], F(a), F(b)
            A = max(abs(a), abs(b))
            if kind == 'h14':
                got = float(S.seminorm_h_1_4(f1, a, b))
                want = float(ref14_over_sqrt_h(cf, af, bf - af)) * math.sqrt(float(bf - af))
                kap = cond_allowance(c, A, A, b - a, 1.5)
            else:
                want = float(ref12(cf, af, bf))
                kap = cond_allowance(c, A, A, b - a, 1.0)
                if kind == 'h12':
                    got = float(S.seminorm_h_1_2(f1, a, b))
                else:
                    sg = rng.choice(sgs)
                    hist[-1]['seg'] = list(sg.raw)
                    f3 = (lambda x, gamma: x) if alias else (lambda x, gamma: f1(x))
                    got = float(S.seminorm_h_1_2(f3, a, b, sg))
                    kap += 64 * EPS * (3 + A) * (b - a) * 4
            res.count(('f-hist', N, step, kind, tuple(c), a, b), True)
            if not within('call_history_' + kind, abs(got - want), 1e-12 * abs(want) + kap):
                fail('C14:call-history:%s-closed-form:order=%d' % (kind, N), got=got, want=want, order=N,
                     history_on_one_instance=hist[-8:])
                break

    # corner: two straight unit-speed pieces, polynomial data in the embedded coordinates, highest order
    if 21 in objs:
        S = objs[21]
        from numpy.polynomial import Polynomial as NP
        for rep in range(4 if tier == 'quick' and not boost else 60):
            ang = rng.uniform(0, 2 * math.pi) if rep % 2 else rng.choice([0.0, math.pi / 2, math.pi, -math.pi / 2])
            phi = rng.choice([math.pi / 2, -math.pi / 2]) if rep % 3 != 2 else rng.uniform(-2.0, 2.0)
            # a closed polygon whose parametrisation starts in the middle of a side: the last and the first piece
            # continue each other on one straight line while their parameters wrap around ([L-h1, L] and [0, h2])
            collinear = rep % 4 == 3
            if collinear:
                phi = 0.0
            d1 = (math.cos(ang), math.sin(ang))
            d2 = (math.cos(ang + phi), math.sin(ang + phi))
            if rep % 2 == 0 and abs(abs(phi) - math.pi / 2) < 1e-12:  # exactly axis-parallel pieces
                d1 = tuple(float(round(v)) for v in d1)
                d2 = tuple(float(round(v)) for v in d2)
            P = (rng.uniform(-1, 1), rng.uniform(-1, 1))
            h1 = rng.uniform(0.5, 2.0)
            h2 = h1 * rng.uniform(2 / 3, 3 / 2)
            a1 = rng.uniform(-1, 1)
            b1 = a1 + h1
            a2 = b1 if rng.random() < 0.5 else rng.uniform(-1, 1)
            if collinear:
                a1, a2 = rng.choice([3.0, 4.0, 6.5]) - h1, 0.0
                b1 = a1 + h1
            b2 = a2 + h2
            g1 = SegGamma(P[0], P[1], d1[0], d1[1], b1)
            g2 = SegGamma(P[0], P[1], d2[0], d2[1], a2)
            co = {(i, j): rng.uniform(-1, 1) for i in range(3) for j in range(3) if 1 <= i + j <= 2}
            G = lambda X: sum(cc * X[0]**i * X[1]**j for (i, j), cc in co.items())
            info = dict(P=P, d1=d1, d2=d2, a1=a1, b1=b1, a2=a2, b2=b2, G={'%d,%d' % k: v for k, v in co.items()})
            try:
                got = float(S.seminorm_h_1_2_pw(lambda x, gamma: G(gamma(x)), a1, b1, g1, a2, b2, g2))
            except AssertionError as exc:
                fail('C14:corner-raises', error=assertion_tag(exc), **info)
                continue
            # reference: same-piece parts in closed form (composite 1-D polynomials), cross part graded
            parts = []
            for g, (lo, hi) in ((g1, (a1, b1)), (g2, (a2, b2))):
                px = NP([g.p1 - g.s * g.d1, g.d1])
                py = NP([g.p2 - g.s * g.d2, g.d2])
                comp = sum(cc * px**i * py**j for (i, j), cc in co.items())
                parts.append(float(ref12([F(float(v)) for v in comp.coef], F(lo), F(hi))))
            dd = d1[0] * d2[0] + d1[1] * d2[1]
            F1 = lambda U: G((P[0] - U * d1[0], P[1] - U * d1[1]))
            F2 = lambda V: G((P[0] + V * d2[0], P[1] + V * d2[1]))
            D2 = lambda U, V: U * U + V * V + 2 * U * V * dd
            cr = [graded_cross(F1, F2, D2, b1 - a1, b2 - a2, n) for n in (14, 22)]
            res.count(('f-corner', rep, tuple(P), d1, d2), True)
            if abs(cr[0] - cr[1]) > 1e-10 * abs(cr[1]):
                res.bump('corner_reference_not_converged')
                continue
            want = parts[0] + parts[1] + 2 * cr[1]
            if not within('corner', abs(got - want), 1e-8 * abs(want)):
                fail('C14:corner-vs-graded-reference', got=got, want=want, rel_err=abs(got - want) / abs(want), **info)


def search(res, tier, boost=False):
    for part, salt in ((search_exact, 'C14x'), (search_float, 'C14f')):
        try:
            with np.errstate(all='ignore'):
                part(res, tier, boost, seed_rng(res.seed, salt))
        except Exception as exc:  # the other stream still runs
            res.broken_obligation('search harness C14 (%s)' % part.__name__, '%s\n%s' % (exc, traceback.format_exc()))
