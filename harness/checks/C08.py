"""C08 — initial-potential load vector equals the integral of the exact initial potential."""
import contextlib
import io
import math
import sys
import traceback
import types
from fractions import Fraction as F

import numpy as np

from ..common import q2s, run_driver, seed_rng
from ..exact import NEWTON_COTES, enc_rule1, rand_rule
from ..qnum import Q
from ..slchecks import make_curve
from .. import numref
from .C04 import translate_formulas  # (ip_tik is one of the generated formulas)
from . import C03 as _C03

# Props/C03Problems.lean: the closed-form potentials of problems.py (regenerated from the source) ARE the heat-kernel
# potentials of the generated u0 over the domain rectangles, solve the heat equation and take the initial value u0
# Props/InitPotTie.lean: the functions REGENERATED from src/initial_potential.py (Gen/InitPotGen.lean) equal the hand model
PROP_MODS = ['Stbem.Props.C08', 'Stbem.Props.C03Problems', 'Stbem.Props.InitPotTie']


def translate_initpot(res):
    """Regenerates lean/Stbem/Gen/InitPotGen.lean (InitialOperator.__init__, linform, linform_vector, MP_M0_val, evaluate,
    evaluate_mesh) from the working tree of the repository under test; a construct the translator does not understand raises
    (= broken obligation).  A changed file must compile on its own before it replaces the one the driver links."""
    import os
    import subprocess
    from ..common import LEAN, REPO, VERIF, lake_lock, write_if_changed
    sys.path.insert(0, os.path.join(VERIF, 'translate'))
    import initpotgen

    def compiles(text):
        tmp = os.path.join(LEAN, '.lake', 'initpotgen_check_%d.lean' % os.getpid())
        with open(tmp, 'w') as fh:
            fh.write(text)
        try:
            with lake_lock():
                subprocess.run(['lake', 'build', 'Stbem.Model.InitialPotential'], cwd=LEAN, stdout=subprocess.PIPE, stderr=subprocess.STDOUT,
                               timeout=1200)
                p = subprocess.run(['lake', 'env', 'lean', tmp], cwd=LEAN, stdout=subprocess.PIPE, stderr=subprocess.STDOUT, text=True,
                                   timeout=600)
        finally:
            os.unlink(tmp)
        return None if p.returncode == 0 else p.stdout[-2000:]
    stats = initpotgen.generate(REPO, os.path.join(LEAN, 'Stbem', 'Gen'), write_if_changed, compiles)
    res.bump('generated_file_changed', stats.get('changed', 0))
    for k in ('assignments', 'branches', 'returns', 'asserts', 'none_checks', 'loops', 'continues', 'appends', 'closures', 'comprehensions',
              'unpackings', 'external_calls', 'array_ops', 'scalar_ops', 'rule_applications', 'schemes', 'float_constants',
              'discarded_isclose', 'continuation_copies', 'linform_calls', 'element_methods', 'factories'):
        res.bump('translated_' + k, stats.get(k, 0))
    res.count(('translated', 'initial_potential.py'), True, n=stats.get('assignments', 0) + stats.get('returns', 0))
    return stats


def translate(res):
    # every translator is run (a failure of one must not leave the files of the others stale); each failure is a broken obligation
    for name, fn in (('translate/formulas.py', translate_formulas), ('translate/problemdefs.py', _C03.translate_problems),
                     ('translate/initpotgen.py', translate_initpot)):
        try:
            fn(res)
        except Exception as exc:  # noqa: BLE001
            res.broken_obligation('translator %s' % name, '%s\n%s' % (exc, traceback.format_exc()[-3000:]))


RULE = ('tie (exact): the REAL InitialOperator (real constructor, real <domain>BoundaryRefined factories of src/initial_mesh.py) runs '
        'linform on Q numbers - rule constructor log_quadrature_scheme replaced by small random rational rules, exp1 / FPI_INV / np.pi '
        'by rational or polynomial stand-ins, math.fsum by an exact sum (harness process only) - and the load AND the per-cell '
        'contributions (element index, class identical / touching at gamma(c) / touching at gamma(d) / far, value) must be textually '
        'equal to the Lean model Stbem.Model.InitialPotential (`ip lin`); every side of UnitSquare, LShape and of PiSquare with the '
        'dyadic stand-in 25/8 for pi, segment levels 0..3 / 0..4, both orientations, both time branches (a == 0 / a != 0), '
        'polynomial and rational u0, assertion cases (non-dyadic piece, diagonal, edge shared by two root cells); linform_vector = map; '
        'instance of the Lean theorem linform_eq_integral_poly on the real code: exact Newton-Cotes rule + polynomial kernel => '
        'load = exact integral (Fractions). Regenerated from the source on every run (translate/initpotgen.py -> Gen/InitPotGen.lean): '
        'InitialOperator.__init__ / linform / linform_vector / MP_M0_val / evaluate / evaluate_mesh, Element.diam / gamma / '
        'connected_to_vertex and the domain meshes + <Domain>BoundaryRefined factories of src/initial_mesh.py; Props/InitPotTie.lean proves '
        'the generated linform EQUAL to the hand model for all inputs; every `ip lin` / `ip vec` request is answered a second time by the '
        'generated functions through the generated factories (`ip genlin`, `ip genvec`, `ip genpool`; every linform request in the quick '
        'tier, every third in the thorough tier) and must give the same text; '
        'evaluate / evaluate_mesh: the REAL methods on Q numbers (np.exp, np.pi, Gauss rule as rational stand-ins, REAL ProductScheme2D, '
        'REAL InitialMesh refined at random) vs the generated functions (`ip geneval`, `ip genevalmesh`). Kept from before: polynomial stand-in for exp1 in floats vs closed-form integral (1e-10), '
        'generated ip_tik validated against the Python function; the functions of problems.py (closed forms M0u0, u0, ...) '
        'regenerated into Lean and validated by exact execution (as in C03). search: u0 = 1 and the sine product against the '
        'closed-form potentials of problems.py integrated over the element (1e-5), linearity in u0, additivity under '
        'splitting, pointwise evaluate() for t >= 0.05 side^2 (1e-5). non-trivial = a call with >= 2 cell classes / every float case; '
        'distinct = (domain, segment, time interval, u0, kernel, rule).')
TRUSTED = [
    'Lean 4.33 kernel; axioms propext, Classical.choice, Quot.sound only',
    'translate/problemdefs.py (ast of problems.py; validated on every run by exact execution of the real functions); the two '
    'complex-erf closed forms of the Smooth problems are translated and tied but have no potential theorem (search only)',
    'translate/initpotgen.py (ast of src/initial_potential.py and of the Element members / domain factories of src/initial_mesh.py -> '
    'Gen/InitPotGen.lean; its object model -- Vertex = coordinates, element-wise NumPy = map/zipWith, closures applied column-wise, '
    'for loop = left fold -- is documented in the generated header; validated on every run by exact execution of the real methods); '
    'Props/InitPotTie.lean: generated = hand model for all inputs',
    'hand-written model lean/Stbem/Model/InitialPotential.lean (on top of the quadtree model of C16 and the rule model of C15), tied '
    'to src/initial_potential.py by the exact correspondence (harness/checks/C08.py, Driver/InitPotCmd.lean) and by Props/InitPotTie.lean '
    'to the regenerated functions; modelled rather than '
    'verified: Vertex identity = coordinates, set iteration order of leaf_elements (contributions are compared sorted by element '
    'index), math.isclose = equality; binary64 rounding is outside the model; the float pi-square (rounded midpoints) is covered '
    'by the float runs only',
    'the special function E1 is a parameter of model and theorems; the 1e-5 accuracy for the true kernel E1 is a claim about fixed '
    'rules on a non-polynomial integrand: search only (partial)',
]
ASSUMPTIONS = ['boundary elements are dyadic sub-intervals of unit-length pieces of a side (precondition of the domain-mesh matching)']

DOMAINS = {
    'UnitSquare': dict(init='UnitSquareBoundaryRefined', cells=[(0.0, 1.0, 0.0, 1.0)], side=1.0),
    'PiSquare': dict(init='PiSquareBoundaryRefined', cells=[(0.0, math.pi, 0.0, math.pi)], side=math.pi),
    'LShape': dict(init='LShapeBoundaryRefined', cells=[(-1.0, 0.0, 0.0, 1.0), (0.0, 1.0, 0.0, 1.0), (0.0, 1.0, -1.0, 0.0)], side=1.0),
}


class Seg:
    """Boundary element stub: time interval, space interval, straight piece."""
    def __init__(self, t0, t1, x0, x1, gamma):
        self.time_interval = (t0, t1)
        self.space_interval = (x0, x1)
        self.gamma_space = gamma
        self.h_t, self.h_x = t1 - t0, x1 - x0


def operator(domain, u0, quad_int=12):
    from src import initial_mesh as IM
    from src.initial_potential import InitialOperator
    from src.mesh import MeshParametrized
    gamma = make_curve(domain)
    with contextlib.redirect_stdout(io.StringIO()):
        mesh = MeshParametrized(gamma)
    M0 = InitialOperator(bdr_mesh=mesh, u0=u0, initial_mesh=getattr(IM, DOMAINS[domain]['init']), quad_int=quad_int)
    return gamma, mesh, M0


def piece_of(gamma, x0):
    for i in range(len(gamma.pw_gamma)):
        if gamma.pw_start[i] <= x0 < gamma.pw_start[i + 1]:
            return i
    raise ValueError(x0)


def unit_pieces(gamma, domain):
    """(start parameter, piece index) of every unit-length (side-length for the pi square) piece of the boundary."""
    out = []
    side = DOMAINS[domain]['side']
    for i in range(len(gamma.pw_gamma)):
        L = gamma.pw_start[i + 1] - gamma.pw_start[i]
        n = int(round(L / side))
        for k in range(n):
            out.append((gamma.pw_start[i] + k * side, i))
    return out


def poly_reference(domain, seg, u0c, kernel_pow, a, b):
    """int_Omega int_K u0(x) * k(|x-y|^2) dy dx for u0(x) = c0 + c1 x0 + c2 x1 + c3 x0 x1 and the polynomial
    stand-in exp1(u) = u^kernel_pow, i.e. k(r2) = (1/4pi) [ (r2/4b)^p - (r2/4a)^p ]  (second term absent for a = 0);
    tensor Gauss-Legendre, exact for polynomials."""
    x, w = numref.gl(12)
    c, d = seg.space_interval
    ys = seg.gamma_space(c + (d - c) * x)  # (2, n)
    wy = (d - c) * w
    tot = 0.0
    for (x0, x1, y0, y1) in DOMAINS[domain]['cells']:
        X0 = x0 + (x1 - x0) * x
        X1 = y0 + (y1 - y0) * x
        W = np.outer((x1 - x0) * w, (y1 - y0) * w)
        A, B = np.meshgrid(X0, X1, indexing='ij')
        u = u0c[0] + u0c[1] * A + u0c[2] * B + u0c[3] * A * B
        for k in range(len(x)):
            r2 = (A - ys[0, k])**2 + (B - ys[1, k])**2
            kv = (r2 / (4 * b))**kernel_pow
            if a != 0:
                kv = kv - (r2 / (4 * a))**kernel_pow
            tot += wy[k] * float(np.sum(W * u * kv))
    return tot / (4 * np.pi)


# ------------------------------------------------------------------------------------------------
# exact correspondence: the REAL InitialOperator.linform on Q numbers vs the Lean model (`ip ...`)
PI_STANDIN = F(25, 8)   # dyadic stand-in for np.pi in src.initial_mesh.PiSquare (see XDOMAINS)

UNIT_PIECES = [((0, 0), (1, 0)), ((1, 0), (1, 1)), ((1, 1), (0, 1)), ((0, 1), (0, 0))]
LSHAPE_PIECES = [((0, 0), (0, -1)), ((0, -1), (1, -1)), ((1, -1), (1, 0)), ((1, 0), (1, 1)), ((1, 1), (0, 1)),
                 ((0, 1), (-1, 1)), ((-1, 1), (-1, 0)), ((-1, 0), (0, 0))]
# domain -> (factory name in src.initial_mesh, driver domain, unit pieces of the boundary in the order and direction
# the shipped curve runs, side length, root squares (x0, y0, side))
XDOMAINS = {
    'unit': dict(init='UnitSquareBoundaryRefined', dom='unit', pieces=UNIT_PIECES, side=F(1), roots=[(F(0), F(0), F(1))]),
    'lshape': dict(init='LShapeBoundaryRefined', dom='lshape', pieces=LSHAPE_PIECES, side=F(1),
                   roots=[(F(0), F(-1), F(1)), (F(0), F(0), F(1)), (F(-1), F(0), F(1))]),
    # PiSquare: in binary64 the midpoints of the real pi-square are rounded (3*pi/4 needs 54 bits), so its coordinates
    # are not rational multiples of pi and the float pi-square is outside an exact tie (it is covered by the float
    # searches below).  Here `np.pi` of src.initial_mesh is replaced (harness only) by the dyadic 25/8: the REAL
    # PiSquareBoundaryRefined then builds the square [0, 25/8]^2 exactly, which exercises cell sizes != 2^-l.
    'pi': dict(init='PiSquareBoundaryRefined', dom='sq:' + q2s(PI_STANDIN),
               pieces=[((a[0] * PI_STANDIN, a[1] * PI_STANDIN), (b[0] * PI_STANDIN, b[1] * PI_STANDIN)) for a, b in UNIT_PIECES],
               side=PI_STANDIN, roots=[(F(0), F(0), PI_STANDIN)]),
}

IP_ASSERT_TAGS = [('id_bdr == 1', 'assert:id_bdr'), ('len(tmp) == 1', 'assert:tmp'), ('v0 is not None', 'assert:vertex-none'),
                  ('assert parent', 'assert:parent'), ('axis is not None', 'assert:axis'), ('result is None', 'assert:vertex-twice'),
                  ('vertex in self.vertices', 'assert:connected-member'), ('len(result) == 2', 'assert:connected-two'),
                  ('gamma_Q(0, 0)', 'assert:touch-origin'), ('element.level - 1', 'assert:level'),
                  ('__bisect_edge', 'assert:bisected')]


def ip_assert_tag(exc):
    tb = traceback.extract_tb(exc.__traceback__)
    line = (tb[-1].line or '') if tb else ''
    for pat, tag in IP_ASSERT_TAGS:
        if pat in line:
            return tag
    return 'assert:?(%s)' % line.strip()[:60]


class _Proxy:
    """module object with some attributes replaced (harness process only)"""
    def __init__(self, real, **over):
        self._real = real
        self.__dict__.update(over)

    def __getattr__(self, name):
        return getattr(self._real, name)


def _fsum_exact(xs):
    acc = Q(0)
    for x in xs:
        acc = acc + x
    return acc


def _elementwise(fn):
    def g(x):
        if isinstance(x, np.ndarray):
            out = np.empty(x.shape, dtype=object)
            for idx in np.ndindex(x.shape):
                out[idx] = fn(x[idx])
            return out
        return fn(x)
    return g


class Kernel:
    """stand-in for scipy.special.exp1: ('q', p0, p1, p2, q0) = (p0 + p1 u + p2 u^2)/(q0 + u^2) or ('p', c0, c1, ...)"""
    def __init__(self, kind, coeffs):
        self.kind, self.c = kind, [F(c) for c in coeffs]

    def __call__(self, u):
        u = F(u.v if isinstance(u, Q) else u)
        if self.kind == 'q':
            p0, p1, p2, q0 = self.c
            return Q((p0 + p1 * u + p2 * u * u) / (q0 + u * u))
        return Q(sum(c * u**k for k, c in enumerate(self.c)))

    def encode(self):
        return self.kind + ':' + ','.join(q2s(c) for c in self.c)


class U0:
    """initial datum: polynomial sum c x^i y^j, optionally divided by a second (positive) polynomial"""
    def __init__(self, num, den=None):
        self.num, self.den = num, den

    @staticmethod
    def _ev(ts, xy):
        acc = 0
        for (c, i, j) in ts:
            acc = acc + c * xy[0]**i * xy[1]**j
        return acc

    def __call__(self, xy):
        v = self._ev(self.num, xy)
        return v if self.den is None else v / self._ev(self.den, xy)

    def encode(self):
        enc = lambda ts: ':'.join('%s,%d,%d' % (q2s(c), i, j) for (c, i, j) in ts)
        return enc(self.num) if self.den is None else enc(self.num) + '|' + enc(self.den)

    def scaled_sum(self, al, other, be):
        assert self.den is None and other.den is None
        return U0([(al * c, i, j) for (c, i, j) in self.num] + [(be * c, i, j) for (c, i, j) in other.num])


class XSeg:
    """boundary element stub on a straight unit-speed piece: gamma(t) = P + (t - s0) D, handed out as the binary64
    array the real curves return (exact: all coordinates are dyadic)"""
    def __init__(self, a, b, c, d, s0, P, D):
        self.time_interval = (Q(a), Q(b))
        self.space_interval = (Q(c), Q(d))
        self.s0, self.P, self.D = F(s0), (F(P[0]), F(P[1])), (F(D[0]), F(D[1]))
        self.h_t, self.h_x = Q(b) - Q(a), Q(d) - Q(c)

    def point(self, t):
        t = F(t.v if isinstance(t, Q) else t)
        return (self.P[0] + (t - self.s0) * self.D[0], self.P[1] + (t - self.s0) * self.D[1])

    def gamma_space(self, t):
        x, y = self.point(t)
        assert F(float(x)) == x and F(float(y)) == y, 'harness: non-dyadic boundary point'
        return np.array([[float(x)], [float(y)]])

    def encode(self):
        a, b = self.time_interval
        c, d = self.space_interval
        p0, p1 = self.point(c), self.point(d)
        return ' '.join(q2s(v) for v in (a, b, c, d, p0[0], p0[1], p1[0], p1[1]))


class ExactIP:
    """The REAL InitialOperator (built by its real constructor) with: the rule constructor log_quadrature_scheme
    replaced by a rational rule of Q numbers, exp1 / FPI_INV / np.pi replaced by rational stand-ins, math.fsum by an exact
    sum; the REAL <domain>BoundaryRefined factory of src.initial_mesh (wrapped only to see the mesh it created)."""
    def __init__(self, domain, rule, kernel, pi, fpi_inv, u0, gauss=None, expk=None):
        self.domain, self.rule, self.kernel, self.pi, self.fpi, self.u0 = domain, rule, kernel, F(pi), F(fpi_inv), u0
        self.gauss, self.expk = gauss, expk   # evaluation rule / stand-in for np.exp (evaluate, evaluate_mesh only)
        self.spec = XDOMAINS[domain]
        self.last_mesh = None

    def context_line(self):
        return 'ip ctx %s %s %s %s %s' % (enc_rule1(*self.rule), self.kernel.encode(), q2s(self.pi), q2s(self.fpi), self.u0.encode())

    @contextlib.contextmanager
    def installed(self):
        import math as real_math
        import src.initial_mesh as IM
        import src.initial_potential as IP
        from src.quadrature import QuadScheme1D
        px, wx = self.rule
        qa = lambda xs: np.array([Q(x) for x in xs] + [None], dtype=object)[:-1]
        log_rule = QuadScheme1D(qa(px), qa(wx))
        saved = [(IP, n, getattr(IP, n)) for n in ('exp1', 'FPI_INV', 'np', 'math', 'log_quadrature_scheme')] + [(IM, 'np', IM.np)]
        saved.append((IP, 'gauss_quadrature_scheme', IP.gauss_quadrature_scheme))
        IP.exp1 = _elementwise(self.kernel)
        IP.FPI_INV = Q(self.fpi)
        over = dict(pi=Q(self.pi))
        if self.expk is not None:
            over['exp'] = _elementwise(self.expk)
        IP.np = _Proxy(saved[2][2], **over)
        if self.gauss is not None:
            gauss_rule = QuadScheme1D(qa(self.gauss[0]), qa(self.gauss[1]))
            IP.gauss_quadrature_scheme = lambda *a, **k: gauss_rule
        IP.math = _Proxy(real_math, fsum=_fsum_exact)
        IP.log_quadrature_scheme = lambda *a, **k: log_rule
        IM.np = _Proxy(saved[5][2], pi=PI_STANDIN)
        try:
            factory = getattr(IM, self.spec['init'])

            def wrapped(v0, v1):
                self.last_mesh = None
                mesh = factory(v0, v1)
                self.last_mesh = mesh
                return mesh
            stub = types.SimpleNamespace(gamma_space=types.SimpleNamespace(integrator=lambda q: None), leaf_elements=[])
            self.M0 = IP.InitialOperator(bdr_mesh=stub, u0=self.u0, initial_mesh=wrapped, problem='verif')
            yield self
        finally:
            for mod, n, v in reversed(saved):
                setattr(mod, n, v)

    def linform_str(self, seg):
        """answer of the real code in the syntax of the driver's `ip lin`"""
        p0, p1 = seg.point(seg.space_interval[0]), seg.point(seg.space_interval[1])
        try:
            val, ips = self.M0.linform(seg)
        except AssertionError as exc:
            return 'err ' + ip_assert_tag(exc), None
        mesh = self.last_mesh
        idx = {id(e): i for i, e in enumerate(mesh.elements)}
        rows = []
        for e, v in ips:
            cs = [(F(w.x), F(w.y)) for w in e.vertices]
            cls = 'I' if (p0 in cs and p1 in cs) else 'A' if p0 in cs else 'B' if p1 in cs else 'F'
            rows.append((idx[id(e)], cls, v))
        rows.sort(key=lambda r: r[0])
        return 'ok %s|%s' % (q2s(val), ' '.join('%d:%s:%s' % (i, c, q2s(v)) for (i, c, v) in rows)), (val, rows)


def segment_of(domain, piece_idx, l, k, a, b, reverse=False):
    spec = XDOMAINS[domain]
    (P, E) = spec['pieces'][piece_idx]
    side = spec['side']
    D = ((F(E[0]) - F(P[0])) / side, (F(E[1]) - F(P[1])) / side)
    s0 = piece_idx * side
    c, d = s0 + side * F(k, 2**l), s0 + side * F(k + 1, 2**l)
    if reverse:   # the same set of points run through in the opposite direction (a clockwise curve)
        return XSeg(a, b, c, d, s0, E, (-D[0], -D[1]))
    return XSeg(a, b, c, d, s0, P, D)


def rand_u0(rng, kind):
    rq = lambda: F(rng.randint(-6, 6), rng.choice([1, 2, 3, 5]))
    if kind == 'const':
        return U0([(F(rng.choice([-2, 1, 3]), rng.choice([1, 2])), 0, 0)])
    if kind == 'bilinear':
        return U0([(rq(), 0, 0), (rq(), 1, 0), (rq(), 0, 1), (F(rng.choice([-3, -1, 2, 5]), 2), 1, 1)])
    if kind == 'quadratic':
        return U0([(rq(), 0, 0), (rq(), 1, 0), (rq(), 0, 1), (rq(), 1, 1), (rq(), 2, 0), (F(rng.choice([-1, 1, 4]), 3), 0, 2)])
    return U0([(rq(), 0, 0), (rq(), 1, 0), (F(rng.choice([-2, 1, 3])), 0, 1)], [(F(rng.randint(1, 4)), 0, 0), (F(1, rng.randint(1, 3)), 2, 0), (F(1), 0, 2)])


def rand_kernel(rng, kind):
    if kind == 'q':
        while True:
            p0, p2 = F(rng.randint(1, 9), rng.randint(1, 5)), F(rng.randint(1, 9), rng.randint(1, 5))
            p1 = F(rng.randint(-9, 9), rng.randint(1, 5))
            if p1 * p1 < 4 * p0 * p2:
                return Kernel('q', [p0, p1, p2, F(rng.randint(1, 9), rng.randint(1, 3))])
    return Kernel('p', [F(rng.randint(-4, 4), rng.choice([1, 2, 3])) for _ in range(rng.randint(1, 3))] + [F(rng.choice([-2, 1, 3]), rng.choice([1, 2]))])


def exact_reference(domain, seg, u0, kernel, a, b, fpi):
    """int_Omega int_K u0(x) k(|x - y|^2) ds_y dx for a polynomial u0 and a polynomial stand-in exp1, exactly (Fractions):
    tensor closed Newton-Cotes rule with 7 nodes (exact to degree 7 in each variable) on every root square x segment;
    k(r2) = fpi * (E(r2/4b) - [a != 0] E(r2/4a))."""
    xs, ws = NEWTON_COTES[7]
    c, d = seg.space_interval
    p0, p1 = seg.point(c), seg.point(d)
    length = abs(p1[0] - p0[0]) + abs(p1[1] - p0[1])
    E = lambda u: kernel(u).v
    tot = F(0)
    for (x0, y0, s) in XDOMAINS[domain]['roots']:
        for xi, wi in zip(xs, ws):
            X = x0 + s * xi
            for xj, wj in zip(xs, ws):
                Y = y0 + s * xj
                u = u0(np.array([X, Y], dtype=object))
                for tk, wk in zip(xs, ws):
                    yx, yy = p0[0] + (p1[0] - p0[0]) * tk, p0[1] + (p1[1] - p0[1]) * tk
                    r2 = (X - yx)**2 + (Y - yy)**2
                    kv = E(r2 / (4 * b)) - (E(r2 / (4 * a)) if a != 0 else 0)
                    tot += s * s * length * wi * wj * wk * u * kv
    return F(fpi) * tot


# the last interval starts within 1e-8 of 0 without starting at 0 (exact test `a == 0` vs a tolerance)
TIME_CASES = [(F(0), F(1, 2)), (F(1, 4), F(1)), (F(0), F(1, 64)), (F(3, 8), F(1, 2)), (F(1, 2**30), F(1, 2**29))]


def correspond_exact(res, tier):
    """A. model = code: load and per-cell contributions, textually, all cell classes / both time branches / every side of
    the three domains / several levels / several u0, rules, kernels; assertion cases.  B. the instance of the Lean theorem
    `linform_eq_integral_poly` on the real code: exact rule + polynomial kernel => load = exact integral (Fractions)."""
    rng = seed_rng(res.seed, 'C08x')
    thorough = tier != 'quick'
    lmax = 4 if thorough else 3
    if hasattr(sys, 'set_int_max_str_digits'):   # sums of values of rational stand-ins have denominators of > 4300 digits
        sys.set_int_max_str_digits(0)
    lines, expect, meta = [], [], []

    def add(line, want, m=None):
        lines.append(line)
        expect.append(want)
        meta.append(m)

    n_ctx = 0
    n_twin = [0]
    for domain in ('unit', 'lshape', 'pi'):
        spec = XDOMAINS[domain]
        n_pieces = len(spec['pieces'])
        for rep in range(3 if thorough else 1):
            for ukind in ('bilinear', 'rational', 'quadratic', 'const'):
                if not thorough and ukind == 'const' and domain != 'unit':
                    continue
                rule = rand_rule(rng, n=rng.choice([1, 2, 2, 3]) if thorough else rng.choice([1, 2]))
                kernel = rand_kernel(rng, rng.choice(['q', 'q', 'p']))
                pi, fpi = F(rng.randint(1, 40), rng.randint(1, 40)), F(rng.randint(1, 40), rng.randint(1, 40))
                xo = ExactIP(domain, rule, kernel, pi, fpi, rand_u0(rng, ukind))
                n_ctx += 1
                add(xo.context_line(), 'ok')
                with xo.installed():
                    # every side of the domain in every context; levels 0..lmax; first, last and a random piece of a level
                    cases = []
                    for pi_ in range(n_pieces):
                        for l in range(lmax + 1):
                            ks = sorted(set([0, 2**l - 1, rng.randrange(2**l)]))
                            if thorough:
                                cases += [(pi_, l, k) for k in ks]
                        if not thorough:
                            l = rng.randint(1, lmax)
                            cases.append((pi_, l, rng.choice([0, 2**l - 1, rng.randrange(2**l)])))
                    if not thorough:
                        cases += [(rng.randrange(n_pieces), 0, 0) for _ in range(2)]
                        cases += [(rng.randrange(n_pieces), l, rng.randrange(2**l)) for l in (2, lmax)]
                    for (pi_, l, k) in cases:
                        a, b = TIME_CASES[(len(lines) + pi_) % len(TIME_CASES)] if rng.random() < 0.7 else rng.choice(TIME_CASES)
                        rev = rng.random() < 0.15
                        seg = segment_of(domain, pi_, l, k, a, b, reverse=rev)
                        res.bump('sides_%s_%d' % (domain, pi_))
                        want, val = xo.linform_str(seg)
                        m = dict(domain=domain, piece=pi_, l=l, k=k, time=(a, b), reversed=rev, u0=ukind, kernel=kernel.kind,
                                 rule_nodes=len(rule[0]), ctx=xo.context_line())
                        add('ip lin %s %d %s' % (spec['dom'], l + 1, seg.encode()), want, m)
                        # twin: the linform REGENERATED from the source (Gen/InitPotGen.lean); every request in the quick tier, every
                        # third one in the thorough tier (the driver time doubles otherwise; generated = hand model is a theorem)
                        n_twin[0] += 1
                        if not thorough or n_twin[0] % 3 == 0:
                            add('ip genlin %s %d %s' % (spec['dom'], l + 1, seg.encode()), want, dict(m, generated=True))
                    # linform_vector = map of linform (serial branch, no cache directory)
                    segs = [segment_of(domain, rng.randrange(n_pieces), 1, rng.randrange(2), *rng.choice(TIME_CASES)) for _ in range(2)]
                    with contextlib.redirect_stdout(io.StringIO()):
                        vec = xo.M0.linform_vector(elems=segs)
                    # the real routine stores into np.zeros (binary64): compare the doubles of the exact values
                    for req in ('vec', 'genvec', 'genpool'):   # hand model, generated serial loop, generated pool branch
                        add('ip %s %s 3 %s' % (req, spec['dom'], ' '.join(s.encode().replace(' ', ',') for s in segs)), None,
                            dict(vector=[float(v) for v in vec], domain=domain, generated=req != 'vec'))
                    # assertion cases: not a dyadic piece ([1/4, 3/4] of a side), not axis-parallel, an edge shared by two root cells (L-shape)
                    bad = [XSeg(0, 1, 0, 1, 0, (F(spec['side']) / 4, 0), (spec['side'] / 2, 0)),
                           XSeg(0, 1, 0, 1, 0, (0, 0), (spec['side'], spec['side']))]
                    if domain == 'lshape':
                        bad.append(XSeg(0, 1, 0, 1, 0, (0, 0), (1, 0)))
                    for seg in bad:
                        want, _ = xo.linform_str(seg)
                        for req in ('lin', 'genlin'):
                            add('ip %s %s 6 %s' % (req, spec['dom'], seg.encode()), want,
                                dict(domain=domain, illegal=seg.encode(), ctx=xo.context_line(), generated=req != 'lin'))
    out = run_driver(lines)
    if len(out) != len(lines):
        res.broken_obligation('correspondence C08: driver returned %d lines for %d' % (len(out), len(lines)), '')
        return
    res.notes['exact_contexts'] = n_ctx
    for line, want, got, m in zip(lines, expect, out, meta):
        if m is None:
            if want != got:
                res.broken_obligation('correspondence C08: context line rejected', '%s -> %s' % (line[:300], got))
                return
            continue
        which = ('the definition regenerated from the source (Gen/InitPotGen.lean)' if m.get('generated') else 'the hand-written model')
        res.bump('requests_generated_twin' if m.get('generated') else 'requests_hand_model')
        if 'vector' in m:
            ok = got.startswith('ok ') and [float(F(v)) for v in got[3:].split(',')] == m['vector']
            res.count(('ipvec', line), True)
            if not ok:
                res.broken_obligation('correspondence C08: linform_vector of %s and src/initial_potential.py differ' % which,
                                      'line: %s\npython: %r\nmodel: %s' % (line, m['vector'], got[:400]))
                return
            continue
        if 'illegal' in m:
            res.bump('illegal_' + want.replace(' ', '_')[:40])
            res.count(('ipbad', line, m['ctx']), True)
        else:
            classes = sorted(set(r.split(':')[1] for r in want.split('|')[1].split())) if want.startswith('ok') else ['err']
            for c in classes:
                res.bump('cells_seen_' + c)
            res.bump('time_branch_' + ('a0' if m['time'][0] == 0 else 'general'))
            res.bump('segments_level_%d' % m['l'])
            res.count(('ip', line, m['ctx']), len(classes) >= 2)
        if want != got:
            res.broken_obligation('correspondence C08: linform of %s and src/initial_potential.py differ' % which,
                                  'case %r\nline: %s\npython: %s\nmodel:  %s' % ({k: v for k, v in m.items() if k != 'ctx'}, line, want[:600], got[:600]) +
                                  '\ncontext: ' + m.get('ctx', '')[:1200])
            res.notes['disagreement'] = dict(line=line, context=m.get('ctx'))
            return
    res.sample(dict(exact_linform_cases=len([m for m in meta if m and 'l' in m]), classes='I/A/B/F', domains=list(XDOMAINS)))

    # --- B. exact rule + polynomial kernel: the load is the exact integral (instance of linform_eq_integral_poly) ---
    n_b = 0
    for domain in ('unit', 'lshape', 'pi'):
        spec = XDOMAINS[domain]
        for rep in range(3 if thorough else 1):
            deg_k = rng.choice([1, 2])
            ukind = 'bilinear' if deg_k == 1 else rng.choice(['const', 'linear'])
            u0 = rand_u0(rng, 'bilinear') if ukind == 'bilinear' else U0([(F(2), 0, 0)] + ([(F(-3, 2), 1, 0), (F(1, 3), 0, 1)] if ukind == 'linear' else []))
            kernel = Kernel('p', [F(rng.randint(-3, 3), 2) for _ in range(deg_k)] + [F(rng.choice([-1, 2, 3]), rng.choice([1, 3]))])
            pi = F(rng.randint(1, 9), rng.randint(1, 9))
            xo = ExactIP(domain, NEWTON_COTES[7], kernel, pi, 1 / (4 * pi), u0)    # law FPI_INV = 1/(4 pi)
            with xo.installed():
                for _ in range(4 if thorough else 2):
                    pi_, l = rng.randrange(len(spec['pieces'])), rng.randint(0, 2 if not thorough else 3)
                    a, b = rng.choice(TIME_CASES)
                    seg = segment_of(domain, pi_, l, rng.randrange(2**l), a, b)
                    want, val = xo.linform_str(seg)
                    if val is None:
                        res.violation('C08:linform-raises', dict(domain=domain, segment=seg.encode(), error=want))
                        continue
                    ref = exact_reference(domain, seg, u0, kernel, a, b, xo.fpi)
                    n_b += 1
                    res.count(('ipexact', domain, seg.encode(), xo.context_line()), True)
                    if val[0].v != ref:
                        res.broken_obligation('tie C08: linform with an exact rule and a polynomial kernel differs from the exact integral',
                                              'domain %s segment %s: linform %s, exact %s' % (domain, seg.encode(), q2s(val[0]), q2s(ref)))
                        res.violation('C08:load-not-the-integral:exact-rule',
                                      dict(domain=domain, segment=seg.encode(), context=xo.context_line(), linform=q2s(val[0]), exact=q2s(ref)))
                        return
    res.notes['exact_integral_instances'] = n_b


def correspond_eval(res, tier):
    """evaluate / evaluate_mesh: the REAL methods on Q numbers (np.exp, np.pi, the Gauss rule replaced by rational stand-ins;
    space_integrator = the REAL ProductScheme2D.integrate over a box, as the curve classes build it; evaluate_mesh on REAL
    InitialMesh objects refined at random) against the functions regenerated from the source (`ip geneval`, `ip genevalmesh`)."""
    import src.initial_mesh as IM
    from src.quadrature import ProductScheme2D, QuadScheme1D
    rng = seed_rng(res.seed, 'C08ev')
    thorough = tier != 'quick'
    lines, expect, meta = [], [], []
    qa = lambda xs: np.array([Q(x) for x in xs] + [None], dtype=object)[:-1]
    for domain in ('unit', 'lshape', 'pi'):
        spec = XDOMAINS[domain]
        for rep in range(3 if thorough else 1):
            gauss = rand_rule(rng, n=rng.choice([1, 2, 3]))
            expk = rand_kernel(rng, rng.choice(['q', 'p']))
            xo = ExactIP(domain, rand_rule(rng, n=1), rand_kernel(rng, 'q'), F(rng.randint(1, 40), rng.randint(1, 40)),
                         F(rng.randint(1, 9)), rand_u0(rng, rng.choice(['bilinear', 'rational', 'quadratic'])), gauss=gauss, expk=expk)
            lines.append(xo.context_line()); expect.append('ok'); meta.append(None)
            genc = '%s %s' % (enc_rule1(*gauss), expk.encode())
            with xo.installed():
                scheme = ProductScheme2D(QuadScheme1D(qa(gauss[0]), qa(gauss[1])))
                for _ in range(4 if thorough else 2):
                    a, c = F(rng.randint(-4, 4), rng.choice([1, 2, 3])), F(rng.randint(-4, 4), rng.choice([1, 2, 5]))
                    b, d = a + F(rng.randint(1, 6), rng.choice([1, 2, 3])), c + F(rng.randint(1, 6), rng.choice([1, 4]))
                    t = F(rng.randint(1, 12), rng.choice([1, 4, 7]))
                    x = (F(rng.randint(-3, 3), rng.choice([1, 2])), F(rng.randint(-3, 3), rng.choice([1, 3])))
                    xo.M0.space_integrator = lambda f, a=a, b=b, c=c, d=d: scheme.integrate(f, Q(a), Q(b), Q(c), Q(d))
                    val = xo.M0.evaluate(Q(t), [[Q(x[0])], [Q(x[1])]])
                    lines.append('ip geneval %s %s' % (genc, ' '.join(q2s(v) for v in (t, x[0], x[1], a, b, c, d))))
                    expect.append('ok ' + q2s(val)); meta.append(dict(what='evaluate', domain=domain))
                for _ in range(3 if thorough else 2):
                    with contextlib.redirect_stdout(io.StringIO()):
                        mesh = getattr(IM, {'unit': 'UnitSquare', 'lshape': 'LShape', 'pi': 'PiSquare'}[domain])()
                    ids = []
                    for _ in range(rng.randint(0, 3 if not thorough else 5)):
                        el = rng.choice(sorted(mesh.leaf_elements, key=lambda e: mesh.elements.index(e)))
                        ids.append(mesh.elements.index(el))
                        mesh.refine(el)
                    t = F(rng.randint(1, 12), rng.choice([1, 4, 7]))
                    x = (F(rng.randint(-3, 3), rng.choice([1, 2])), F(rng.randint(-3, 3), rng.choice([1, 3])))
                    val = xo.M0.evaluate_mesh(Q(t), np.array([[Q(x[0])], [Q(x[1])]], dtype=object), mesh)
                    lines.append('ip genevalmesh %s %s %s %s' % (genc, spec['dom'], ' '.join(q2s(v) for v in (t, x[0], x[1])),
                                                               ','.join(str(i) for i in ids) or '-'))
                    expect.append('ok ' + q2s(val)); meta.append(dict(what='evaluate_mesh', domain=domain, refined=len(ids), leaves=len(mesh.leaf_elements)))
    out = run_driver(lines)
    if len(out) != len(lines):
        res.broken_obligation('correspondence C08 (evaluate): driver returned %d lines for %d' % (len(out), len(lines)), '')
        return
    for line, want, got, m in zip(lines, expect, out, meta):
        if m is not None:
            res.count(('ipeval', line), True)
            res.bump('generated_' + m['what'])
        if want != got:
            res.broken_obligation('correspondence C08: %s of the definition regenerated from the source (Gen/InitPotGen.lean) and '
                                  'src/initial_potential.py differ' % (m['what'] if m else 'context line'),
                                  'line: %s\npython: %s\nmodel:  %s' % (line[:600], want[:300], got[:300]))
            return


def correspond(res, tier):
    import src.initial_potential as IP
    from ..formulas_tie import validate
    rng = seed_rng(res.seed, 'C08')
    bad = validate(res, seed_rng(res.seed, 'C08f'), ['ip_tik'], 40)
    for b in bad[:2]:
        res.broken_obligation('translator validation: generated ip_tik and Python time_integrated_kernel differ', repr(b))
    _C03.correspond_problems(res, tier)   # generated terms of problems.py == the running functions (exact)
    try:
        correspond_exact(res, tier)
    except Exception as exc:  # noqa: BLE001 - the real code cannot be run exactly any more: the tie is broken
        res.broken_obligation('correspondence C08: exact execution of the real linform failed', '%r\n%s' % (exc, traceback.format_exc()[-3000:]))
    try:
        correspond_eval(res, tier)
    except Exception as exc:  # noqa: BLE001
        res.broken_obligation('correspondence C08: exact execution of the real evaluate / evaluate_mesh failed', '%r\n%s' % (exc, traceback.format_exc()[-3000:]))
    lmax = 3 if tier == 'quick' else 5
    saved = IP.exp1
    try:
        for domain in DOMAINS:
            u0c = [rng.randint(-3, 3) for _ in range(4)]
            u0 = lambda xy, c=u0c: c[0] + c[1] * xy[0] + c[2] * xy[1] + c[3] * xy[0] * xy[1]
            gamma, mesh, M0 = operator(domain, u0)
            pieces = unit_pieces(gamma, domain)
            side = DOMAINS[domain]['side']
            cases = []
            for (s, pi_) in pieces:
                for l in range(0, lmax + 1):
                    ks = range(2**l) if (tier == 'thorough' and l <= 3) else rng.sample(range(2**l), min(2**l, 2))
                    for k in ks:
                        cases.append((s + side * k / 2**l, s + side * (k + 1) / 2**l, pi_))
            if tier == 'quick':
                cases = rng.sample(cases, min(len(cases), 14))
            for (x0, x1, pi_) in cases:
                for (a, b) in ((0.0, 0.5), (0.25, 1.0)):
                    p = rng.choice([1, 2])
                    IP.exp1 = lambda u, p=p: u**p
                    seg = Seg(a, b, x0, x1, gamma.pw_gamma[pi_])
                    try:
                        val, ips = M0.linform(seg)
                    except Exception as exc:  # noqa: BLE001
                        res.violation('C08:linform-raises', dict(domain=domain, segment=[x0, x1], time=[a, b], error=repr(exc)))
                        continue
                    ref = poly_reference(domain, seg, u0c, p, a, b)
                    scale = abs(ref) + 1e-3 * (x1 - x0)
                    res.count(('poly', domain, x0, x1, a, b, p, tuple(u0c)), True)
                    if abs(val - ref) > 1e-10 * scale:
                        res.broken_obligation('tie C08: linform with a polynomial kernel differs from the exact polynomial integral',
                                              'domain %s segment [%r,%r] time [%r,%r] u0 %s kernel power %d: linform %.15e, exact %.15e' %
                                              (domain, x0, x1, a, b, u0c, p, val, ref))
                        res.violation('C08:load-not-the-integral:polynomial-kernel',
                                      dict(domain=domain, segment=[x0, x1], time=[a, b], u0_coefficients=u0c, kernel='exp1(u)=u^%d' % p,
                                           linform=val, exact=ref))
                        return
    finally:
        IP.exp1 = saved
    res.sample(dict(domain='LShape', segment='dyadic sub-interval of a unit piece', kernel='exp1 -> u^p (harness only)'))


def search(res, tier, boost=False):
    from problems import problem_helper
    rng = seed_rng(res.seed, 'C08s')
    tg, wtg = numref.graded(10, 14, 0.25)
    xg, wxg = numref.gl(12)
    worst = 0.0
    combos = [('UnitSquare', 'Singular'), ('LShape', 'Singular'), ('UnitSquare', 'Smooth'), ('PiSquare', 'Smooth')]
    n_el = (4 if tier == 'quick' else 24) * (2 if boost else 1)
    for domain, problem in combos:
        data = problem_helper(problem, domain)
        gamma, mesh, M0 = operator(domain, data['u0'])
        pieces = unit_pieces(gamma, domain)
        side = DOMAINS[domain]['side']
        n_deep = (3 if tier == 'quick' else 12) * (2 if boost else 1)
        for it in range(n_el + n_deep):
            s, pi_ = rng.choice(pieces)
            if it < n_el:
                l = rng.randint(0, 3)
                lt = rng.randint(0, 4)
                kt = rng.randrange(2**lt)
            else:
                # meshes graded strongly towards t = 0: time level up to 31 (start times down to 5e-10, positive or 0),
                # space level as coarse as the aspect bound h_x^2/h_t <= 32 admits (or one finer)
                lt = rng.randint(12, 31)
                kt = rng.choice([0, 1, 1, 2, 3])
                l = 0
                while (side / 2**l)**2 * 2**lt > 32:
                    l += 1
                l += rng.randint(0, 1)
                res.bump('deep_time_level_elements')
            k = rng.randrange(2**l)
            x0, x1 = s + side * k / 2**l, s + side * (k + 1) / 2**l
            hx = x1 - x0
            a, b = kt / 2**lt, (kt + 1) / 2**lt
            if hx**2 / (b - a) > 32:
                continue
            seg = Seg(a, b, x0, x1, gamma.pw_gamma[pi_])
            try:
                val, _ = M0.linform(seg)
            except Exception as exc:  # noqa: BLE001
                res.violation('C08:linform-raises', dict(domain=domain, segment=[x0, x1], time=[a, b], error=repr(exc)))
                continue
            # reference: closed-form potential integrated over the element (graded towards t = a, where it is steep for a = 0)
            ts = a + (b - a) * tg
            xs = x0 + hx * xg
            ref = 0.0
            for t, wt in zip(ts, wtg):
                pts = seg.gamma_space(xs)
                vals = np.array([float(np.squeeze(data['M0u0'](t, pts[:, [j]]))) for j in range(len(xs))])
                ref += (b - a) * wt * hx * float(np.dot(wxg, vals))
            err = abs(val - ref) / max(abs(ref), 1e-12)
            worst = max(worst, err)
            res.count(('load', domain, problem, x0, x1, a, b), True)
            if err > 1e-5:
                res.violation('C08:load-inaccurate:%s' % domain, dict(domain=domain, problem=problem, segment=[x0, x1], time=[a, b],
                              linform=val, reference=ref, rel_error=err))
            # additivity under splitting in space and time
            xm, tm = (x0 + x1) / 2, (a + b) / 2
            parts = M0.linform(Seg(a, b, x0, xm, seg.gamma_space))[0] + M0.linform(Seg(a, b, xm, x1, seg.gamma_space))[0]
            partt = M0.linform(Seg(a, tm, x0, x1, seg.gamma_space))[0] + M0.linform(Seg(tm, b, x0, x1, seg.gamma_space))[0]
            for nm, pv in (('space', parts), ('time', partt)):
                if abs(pv - val) > 1e-5 * abs(val) + 1e-14:
                    res.violation('C08:not-additive:' + nm, dict(domain=domain, segment=[x0, x1], time=[a, b], whole=val, pieces=pv))
        # linearity in u0 (same mesh, exact arithmetic of the assembly): u0 = x, sin(x) y, random quadratic
        fs = [lambda xy: xy[0], lambda xy: np.sin(xy[0]) * xy[1], lambda xy: 1 + 0.5 * xy[0] * xy[1] - xy[1]**2]
        s, pi_ = rng.choice(pieces)
        seg = Seg(0.0, 0.5, s, s + side / 2, gamma.pw_gamma[pi_])
        al, be = 0.75, -1.5
        v = []
        for f in (fs[0], fs[1], lambda xy: al * fs[0](xy) + be * fs[1](xy)):
            _, _, Mf = operator(domain, f)
            v.append(Mf.linform(seg)[0])
        res.count(('linear', domain), True)
        if abs(v[2] - (al * v[0] + be * v[1])) > 1e-12 * (abs(v[0]) + abs(v[1]) + 1e-12):
            res.violation('C08:not-linear-in-u0', dict(domain=domain, values=v))
        # the same three data through the vector API on the process-pool path, one after the other in this process
        # with the very same element list: every operator must deliver ITS OWN loads (= its serial linform values)
        segs = [seg, Seg(0.25, 0.5, s + side / 2, s + side, gamma.pw_gamma[pi_])]
        vp = []
        for f in (fs[0], fs[1], lambda xy: al * fs[0](xy) + be * fs[1](xy)):
            _, _, Mf = operator(domain, f)
            try:
                with contextlib.redirect_stdout(io.StringIO()):
                    got = np.asarray(Mf.linform_vector(elems=segs, use_mp=True), dtype=float).reshape(-1)
                want = np.array([Mf.linform(e)[0] for e in segs])
            except Exception as exc:  # noqa: BLE001
                res.violation('C08:linform-vector-raises', dict(domain=domain, error=repr(exc)[:300]))
                break
            vp.append(got)
            res.count(('linear-vector-pool', domain, len(vp)), True)
            if not np.array_equal(got, want):
                res.violation('C08:vector-not-own-loads:pool', dict(domain=domain, datum=len(vp), pool=[float(x) for x in got],
                              serial=[float(x) for x in want], note='three operators (different u0) called one after the other'))
                break
        if len(vp) == 3 and np.max(np.abs(vp[2] - (al * vp[0] + be * vp[1]))) > 1e-12 * (np.max(np.abs(vp[0])) + np.max(np.abs(vp[1])) + 1e-12):
            res.violation('C08:not-linear-in-u0:vector', dict(domain=domain, values=[[float(x) for x in v_] for v_ in vp]))
        # pointwise domain-quadrature evaluation vs closed form for t >= 0.05 side^2
        if problem == 'Singular' or domain != 'LShape':
            for it_ in range(3 + (8 if domain == 'LShape' else 3)):
                # later draws: SMALL times (0.015..0.03 side^2; the shipped domain rule is still accurate to 1e-7 there, 7e-6
                # at 0.01) at points all around the curve - on the non-convex L-shape also next to the re-entrant corner
                t = rng.uniform(0.05 * side**2, 1.0 * side**2) if it_ < 3 else rng.uniform(0.015 * side**2, 0.03 * side**2)
                xh = rng.uniform(0, float(gamma.gamma_length))
                x = gamma.eval(np.array([xh])).reshape(2, 1)
                ev = M0.evaluate(t, x)
                cf = float(np.squeeze(data['M0u0'](t, x)))
                res.count(('eval', domain, problem, t, xh), True)
                if abs(ev - cf) > 1e-5 * max(abs(cf), 1e-9):
                    res.violation('C08:evaluate-inaccurate:%s' % domain, dict(domain=domain, problem=problem, t=t, x_hat=xh, value=float(ev), closed_form=cf))
    # long-lived InitialOperator, re-created meshes (example.py --refinement uniform --grading): the loads it delivers for the
    # elements of the new mesh object equal the loads of an operator created on that mesh
    from ..slchecks import regrid_iterations
    for k, mesh_k, els, old, fresh in regrid_iterations('UnitSquare', n_iter=2, with_m0=lambda xy: 1 + 0 * xy[0]):
        with contextlib.redirect_stdout(io.StringIO()):
            got = np.asarray(old['M0'].linform_vector(elems=els[:12]), dtype=float).reshape(-1)
            want = np.array([fresh['M0'].linform(e)[0] for e in els[:12]]) if k else got
        res.count(('regrid-load', k), True)
        if k and not np.array_equal(got, want):
            res.violation('C08:vector-not-own-loads:long-lived-operator', dict(iteration=k, got=[float(v) for v in got], want=[float(v) for v in want],
                          note='operator created on the mesh of iteration 0, elements of the re-created mesh'))
    # one cache directory, the same boundary elements requested in different orders, cold / warm / by a later operator object:
    # every load vector is the caller's own loads in the caller's order
    from ..slchecks import cache_order_probe
    from src.mesh import MeshParametrized
    import src.parametrization as Pm_
    from src.initial_potential import InitialOperator
    from src.initial_mesh import UnitSquareBoundaryRefined
    with contextlib.redirect_stdout(io.StringIO()):
        mesh_c = MeshParametrized(Pm_.UnitSquare())
        mesh_c.uniform_refine()
        ref_c = InitialOperator(bdr_mesh=mesh_c, u0=lambda xy: 1 + xy[0], initial_mesh=UnitSquareBoundaryRefined)
    els_c = list(mesh_c.leaf_elements)[:10]
    for nm, ph, got, lst in cache_order_probe(lambda d: InitialOperator(bdr_mesh=mesh_c, u0=lambda xy: 1 + xy[0], initial_mesh=UnitSquareBoundaryRefined, cache_dir=d),
                                              lambda op, l: np.asarray(op.linform_vector(elems=l)).reshape(-1), els_c, rng):
        res.count(('cache-order-load', nm, ph), True)
        with contextlib.redirect_stdout(io.StringIO()):
            want = np.array([ref_c.linform(e)[0] for e in lst])
        if not np.array_equal(got, want):
            res.violation('C08:vector-not-own-loads:cache-element-order', dict(order=nm, phase=ph, got=[float(v) for v in got[:6]], want=[float(v) for v in want[:6]]))
            break
    # the caching logic of linform_vector on LARGE lists (256 ... 400 elements, as the later iterations of an adaptive loop
    # have them): two requests of equal length that agree in their first and last elements and differ in between, against one
    # cache directory.  The loads themselves are replaced by a cheap stand-in (an instance attribute `linform`), so that only
    # the bookkeeping is exercised: every vector is the caller's own loads in the caller's order.
    import shutil
    import tempfile
    tmpd = tempfile.mkdtemp(prefix='c08big_', dir='/tmp')
    try:
        with contextlib.redirect_stdout(io.StringIO()):
            mesh_b = MeshParametrized(Pm_.UnitSquare())
            for _ in range(3):
                mesh_b.uniform_refine()
            if rng.random() < 0.5:
                for e in rng.sample(list(mesh_b.leaf_elements), 6):
                    if not e.children:
                        mesh_b.refine_space(e)

        def stand_in(e):
            return (7.0 * float(e.time_interval[0]) + 13.0 * float(e.space_interval[0]) + float(e.space_interval[1]) + 0.5 * float(e.time_interval[1]), 0)
        base = list(mesh_b.leaf_elements)
        mid = base[5:-5]
        variants = [('leaf-order', base)]
        for nm_ in ('middle-reversed', 'middle-shuffled'):
            m2 = list(mid)
            if nm_ == 'middle-reversed':
                m2.reverse()
            else:
                rng.shuffle(m2)
            variants.append((nm_, base[:5] + m2 + base[-5:]))
        for round_ in ('cold', 'later-operator'):
            with contextlib.redirect_stdout(io.StringIO()):
                op_b = InitialOperator(bdr_mesh=mesh_b, u0=lambda xy: 1 + xy[0], initial_mesh=UnitSquareBoundaryRefined, cache_dir=tmpd)
            op_b.linform = stand_in
            for nm_, lst in variants:
                with contextlib.redirect_stdout(io.StringIO()):
                    got = np.asarray(op_b.linform_vector(elems=lst)).reshape(-1)
                want = np.array([stand_in(e)[0] for e in lst])
                res.count(('cache-large-list', round_, nm_, len(lst)), True)
                if got.shape != want.shape or not np.array_equal(got, want):
                    nbad = int(np.sum(got != want)) if got.shape == want.shape else -1
                    res.violation('C08:vector-not-own-loads:cache-large-list',
                                  dict(order=nm_, phase=round_, n=len(lst), wrong_entries=nbad,
                                       history='linform_vector on %s against one cache directory; loads replaced by a stand-in' %
                                               [v[0] for v in variants]))
                    break
        # the pool path of linform_vector on machines with few cores (mp.cpu_count() = 2): N on both sides of the chunking
        # threshold 8 * cpu and with a partial last chunk; loads replaced by the stand-in as above
        import multiprocessing as _mp
        with contextlib.redirect_stdout(io.StringIO()):
            op_p = InitialOperator(bdr_mesh=mesh_b, u0=lambda xy: 1 + xy[0], initial_mesh=UnitSquareBoundaryRefined)
        op_p.linform = stand_in
        for n_req in (5, 16, 17, 18, 19, 35, 67):
            lst = base[:n_req]
            old_cc = _mp.cpu_count
            _mp.cpu_count = lambda: 2
            try:
                with contextlib.redirect_stdout(io.StringIO()):
                    got = np.asarray(op_p.linform_vector(elems=lst, use_mp=True)).reshape(-1)
            finally:
                _mp.cpu_count = old_cc
            want = np.array([stand_in(e)[0] for e in lst])
            res.count(('pool-few-cores', n_req), True)
            if got.shape != want.shape or not np.array_equal(got, want):
                res.violation('C08:vector-not-own-loads:pool-path-few-cores',
                              dict(n=n_req, cpu_count=2, chunk=n_req // 16 + 1,
                                   wrong_entries=[int(i) for i in np.nonzero(got != want)[0][:8]] if got.shape == want.shape else 'shape',
                                   history='linform_vector(elems[:%d], use_mp=True) with mp.cpu_count() = 2; loads replaced by a stand-in' % n_req))
                break
    except AssertionError as exc:
        res.notes['cache_large_list_skipped'] = repr(exc)
    finally:
        shutil.rmtree(tmpd, ignore_errors=True)
    res.notes['worst_rel_error'] = worst
