"""C08 — initial-potential load vector equals the integral of the exact initial potential."""
import contextlib
import io
import math

import numpy as np

from ..common import seed_rng
from ..slchecks import make_curve
from .. import numref
from .C04 import translate_formulas as translate  # noqa: F401  (ip_tik is one of the generated formulas)

PROP_MODS = ['Stbem.Props.C08']
RULE = ('tie: the REAL InitialOperator.linform (boundary-targeted domain mesh, the three cell classes, their '
        'parametrisations and Jacobians, both branches of the time-integrated kernel) with the special function exp1 '
        'replaced in the harness by polynomials, for which the 3-D Duffy rules are exact: the load must equal the '
        'closed-form polynomial integral over domain x segment to rounding, for every dyadic boundary segment up to the '
        'level bound on unit square, pi square and L-shape, both time branches, polynomial u0; the generated kernel '
        'ip_tik is validated against the Python function exactly. search: u0 = 1 and the sine product against the '
        'closed-form potentials of problems.py integrated over the element (1e-5), linearity in u0, additivity under '
        'splitting, pointwise evaluate() for t >= 0.05 side^2 (1e-5). non-trivial = every case; distinct = (domain, '
        'segment, time interval, u0, kernel).')
TRUSTED = [
    'Lean 4.33 kernel; axioms propext, Classical.choice, Quot.sound only',
    'quadtree model (C16) and quadrature theorems (C15) for the exactness on polynomial kernels',
    'the 1e-5 accuracy for the true kernel E1 is a claim about fixed rules on a non-polynomial integrand: search only (partial)',
]
ASSUMPTIONS = ['boundary elements are dyadic sub-intervals of unit-length pieces of a side (precondition of the domain-mesh matching)']

DOMAINS = {
    'UnitSquare': dict(init='UnitSquareBoundaryRefined', cells=[(0.0, 1.0, 0.0, 1.0)], side=1.0),
    'PiSquare': dict(init='PiSquareBoundaryRefined', cells=[(0.0, math.pi, 0.0, math.pi)], side=math.pi),
    'LShape': dict(init='LShapeBoundaryRefined', cells=[(-1.0, 0.0, 0.0, 1.0), (0.0, 1.0, 0.0, 1.0), (0.0, 1.0, -1.0, 0.0)], side=1.0),
}


class Seg:
    """Boundary element stub: time interval, space interval, straight piece."""
    def __init__(self, t0, t1, x0, x1, gamma):
        self.time_interval = (t0, t1)
        self.space_interval = (x0, x1)
        self.gamma_space = gamma
        self.h_t, self.h_x = t1 - t0, x1 - x0


def operator(domain, u0, quad_int=12):
    from src import initial_mesh as IM
    from src.initial_potential import InitialOperator
    from src.mesh import MeshParametrized
    gamma = make_curve(domain)
    with contextlib.redirect_stdout(io.StringIO()):
        mesh = MeshParametrized(gamma)
    M0 = InitialOperator(bdr_mesh=mesh, u0=u0, initial_mesh=getattr(IM, DOMAINS[domain]['init']), quad_int=quad_int)
    return gamma, mesh, M0


def piece_of(gamma, x0):
    for i in range(len(gamma.pw_gamma)):
        if gamma.pw_start[i] <= x0 < gamma.pw_start[i + 1]:
            return i
    raise ValueError(x0)


def unit_pieces(gamma, domain):
    """(start parameter, piece index) of every unit-length (side-length for the pi square) piece of the boundary."""
    out = []
    side = DOMAINS[domain]['side']
    for i in range(len(gamma.pw_gamma)):
        L = gamma.pw_start[i + 1] - gamma.pw_start[i]
        n = int(round(L / side))
        for k in range(n):
            out.append((gamma.pw_start[i] + k * side, i))
    return out


def poly_reference(domain, seg, u0c, kernel_pow, a, b):
    """int_Omega int_K u0(x) * k(|x-y|^2) dy dx for u0(x) = c0 + c1 x0 + c2 x1 + c3 x0 x1 and the polynomial
    stand-in exp1(u) = u^kernel_pow, i.e. k(r2) = (1/4pi) [ (r2/4b)^p - (r2/4a)^p ]  (second term absent for a = 0);
    tensor Gauss-Legendre, exact for polynomials."""
    x, w = numref.gl(12)
    c, d = seg.space_interval
    ys = seg.gamma_space(c + (d - c) * x)  # (2, n)
    wy = (d - c) * w
    tot = 0.0
    for (x0, x1, y0, y1) in DOMAINS[domain]['cells']:
        X0 = x0 + (x1 - x0) * x
        X1 = y0 + (y1 - y0) * x
        W = np.outer((x1 - x0) * w, (y1 - y0) * w)
        A, B = np.meshgrid(X0, X1, indexing='ij')
        u = u0c[0] + u0c[1] * A + u0c[2] * B + u0c[3] * A * B
        for k in range(len(x)):
            r2 = (A - ys[0, k])**2 + (B - ys[1, k])**2
            kv = (r2 / (4 * b))**kernel_pow
            if a != 0:
                kv = kv - (r2 / (4 * a))**kernel_pow
            tot += wy[k] * float(np.sum(W * u * kv))
    return tot / (4 * np.pi)


def correspond(res, tier):
    import src.initial_potential as IP
    from ..formulas_tie import validate
    rng = seed_rng(res.seed, 'C08')
    bad = validate(res, seed_rng(res.seed, 'C08f'), ['ip_tik'], 40)
    for b in bad[:2]:
        res.broken_obligation('translator validation: generated ip_tik and Python time_integrated_kernel differ', repr(b))
    lmax = 3 if tier == 'quick' else 5
    saved = IP.exp1
    try:
        for domain in DOMAINS:
            u0c = [rng.randint(-3, 3) for _ in range(4)]
            u0 = lambda xy, c=u0c: c[0] + c[1] * xy[0] + c[2] * xy[1] + c[3] * xy[0] * xy[1]
            gamma, mesh, M0 = operator(domain, u0)
            pieces = unit_pieces(gamma, domain)
            side = DOMAINS[domain]['side']
            cases = []
            for (s, pi_) in pieces:
                for l in range(0, lmax + 1):
                    ks = range(2**l) if (tier == 'thorough' and l <= 3) else rng.sample(range(2**l), min(2**l, 2))
                    for k in ks:
                        cases.append((s + side * k / 2**l, s + side * (k + 1) / 2**l, pi_))
            if tier == 'quick':
                cases = rng.sample(cases, min(len(cases), 14))
            for (x0, x1, pi_) in cases:
                for (a, b) in ((0.0, 0.5), (0.25, 1.0)):
                    p = rng.choice([1, 2])
                    IP.exp1 = lambda u, p=p: u**p
                    seg = Seg(a, b, x0, x1, gamma.pw_gamma[pi_])
                    try:
                        val, ips = M0.linform(seg)
                    except Exception as exc:  # noqa: BLE001
                        res.violation('C08:linform-raises', dict(domain=domain, segment=[x0, x1], time=[a, b], error=repr(exc)))
                        continue
                    ref = poly_reference(domain, seg, u0c, p, a, b)
                    scale = abs(ref) + 1e-3 * (x1 - x0)
                    res.count(('poly', domain, x0, x1, a, b, p, tuple(u0c)), True)
                    if abs(val - ref) > 1e-10 * scale:
                        res.broken_obligation('tie C08: linform with a polynomial kernel differs from the exact polynomial integral',
                                              'domain %s segment [%r,%r] time [%r,%r] u0 %s kernel power %d: linform %.15e, exact %.15e' %
                                              (domain, x0, x1, a, b, u0c, p, val, ref))
                        res.violation('C08:load-not-the-integral:polynomial-kernel',
                                      dict(domain=domain, segment=[x0, x1], time=[a, b], u0_coefficients=u0c, kernel='exp1(u)=u^%d' % p,
                                           linform=val, exact=ref))
                        return
    finally:
        IP.exp1 = saved
    res.sample(dict(domain='LShape', segment='dyadic sub-interval of a unit piece', kernel='exp1 -> u^p (harness only)'))


def search(res, tier, boost=False):
    from problems import problem_helper
    rng = seed_rng(res.seed, 'C08s')
    tg, wtg = numref.graded(10, 14, 0.25)
    xg, wxg = numref.gl(12)
    worst = 0.0
    combos = [('UnitSquare', 'Singular'), ('LShape', 'Singular'), ('UnitSquare', 'Smooth'), ('PiSquare', 'Smooth')]
    n_el = (4 if tier == 'quick' else 24) * (2 if boost else 1)
    for domain, problem in combos:
        data = problem_helper(problem, domain)
        gamma, mesh, M0 = operator(domain, data['u0'])
        pieces = unit_pieces(gamma, domain)
        side = DOMAINS[domain]['side']
        n_deep = (3 if tier == 'quick' else 12) * (2 if boost else 1)
        for it in range(n_el + n_deep):
            s, pi_ = rng.choice(pieces)
            if it < n_el:
                l = rng.randint(0, 3)
                lt = rng.randint(0, 4)
                kt = rng.randrange(2**lt)
            else:
                # meshes graded strongly towards t = 0: time level up to 31 (start times down to 5e-10, positive or 0),
                # space level as coarse as the aspect bound h_x^2/h_t <= 32 admits (or one finer)
                lt = rng.randint(12, 31)
                kt = rng.choice([0, 1, 1, 2, 3])
                l = 0
                while (side / 2**l)**2 * 2**lt > 32:
                    l += 1
                l += rng.randint(0, 1)
                res.bump('deep_time_level_elements')
            k = rng.randrange(2**l)
            x0, x1 = s + side * k / 2**l, s + side * (k + 1) / 2**l
            hx = x1 - x0
            a, b = kt / 2**lt, (kt + 1) / 2**lt
            if hx**2 / (b - a) > 32:
                continue
            seg = Seg(a, b, x0, x1, gamma.pw_gamma[pi_])
            try:
                val, _ = M0.linform(seg)
            except Exception as exc:  # noqa: BLE001
                res.violation('C08:linform-raises', dict(domain=domain, segment=[x0, x1], time=[a, b], error=repr(exc)))
                continue
            # reference: closed-form potential integrated over the element (graded towards t = a, where it is steep for a = 0)
            ts = a + (b - a) * tg
            xs = x0 + hx * xg
            ref = 0.0
            for t, wt in zip(ts, wtg):
                pts = seg.gamma_space(xs)
                vals = np.array([float(np.squeeze(data['M0u0'](t, pts[:, [j]]))) for j in range(len(xs))])
                ref += (b - a) * wt * hx * float(np.dot(wxg, vals))
            err = abs(val - ref) / max(abs(ref), 1e-12)
            worst = max(worst, err)
            res.count(('load', domain, problem, x0, x1, a, b), True)
            if err > 1e-5:
                res.violation('C08:load-inaccurate:%s' % domain, dict(domain=domain, problem=problem, segment=[x0, x1], time=[a, b],
                              linform=val, reference=ref, rel_error=err))
            # additivity under splitting in space and time
            xm, tm = (x0 + x1) / 2, (a + b) / 2
            parts = M0.linform(Seg(a, b, x0, xm, seg.gamma_space))[0] + M0.linform(Seg(a, b, xm, x1, seg.gamma_space))[0]
            partt = M0.linform(Seg(a, tm, x0, x1, seg.gamma_space))[0] + M0.linform(Seg(tm, b, x0, x1, seg.gamma_space))[0]
            for nm, pv in (('space', parts), ('time', partt)):
                if abs(pv - val) > 1e-5 * abs(val) + 1e-14:
                    res.violation('C08:not-additive:' + nm, dict(domain=domain, segment=[x0, x1], time=[a, b], whole=val, pieces=pv))
        # linearity in u0 (same mesh, exact arithmetic of the assembly): u0 = x, sin(x) y, random quadratic
        fs = [lambda xy: xy[0], lambda xy: np.sin(xy[0]) * xy[1], lambda xy: 1 + 0.5 * xy[0] * xy[1] - xy[1]**2]
        s, pi_ = rng.choice(pieces)
        seg = Seg(0.0, 0.5, s, s + side / 2, gamma.pw_gamma[pi_])
        al, be = 0.75, -1.5
        v = []
        for f in (fs[0], fs[1], lambda xy: al * fs[0](xy) + be * fs[1](xy)):
            _, _, Mf = operator(domain, f)
            v.append(Mf.linform(seg)[0])
        res.count(('linear', domain), True)
        if abs(v[2] - (al * v[0] + be * v[1])) > 1e-12 * (abs(v[0]) + abs(v[1]) + 1e-12):
            res.violation('C08:not-linear-in-u0', dict(domain=domain, values=v))
        # pointwise domain-quadrature evaluation vs closed form for t >= 0.05 side^2
        if problem == 'Singular' or domain != 'LShape':
            for _ in range(3):
                t = rng.uniform(0.05 * side**2, 1.0 * side**2)
                xh = rng.uniform(0, float(gamma.gamma_length))
                x = gamma.eval(np.array([xh])).reshape(2, 1)
                ev = M0.evaluate(t, x)
                cf = float(np.squeeze(data['M0u0'](t, x)))
                res.count(('eval', domain, problem, t, xh), True)
                if abs(ev - cf) > 1e-5 * max(abs(cf), 1e-9):
                    res.violation('C08:evaluate-inaccurate:%s' % domain, dict(domain=domain, problem=problem, t=t, x_hat=xh, value=float(ev), closed_form=cf))
    res.notes['worst_rel_error'] = worst
