"""C09 — Sobolev and weighted-L2 indicators equal their definition on every patch."""
import contextlib
import math
from fractions import Fraction as F

import numpy as np

from ..common import q2s, run_driver, seed_rng, silence_stdout
from ..meshgen import random_op
from ..meshlib import PyMesh, show_cell

PROP_MODS = ['Stbem.Props.C09', 'Stbem.Props.EstimatorTie']
LEVEL = 'proof'
RULE = ('correspondence (exact): the REAL ErrorEstimator.sobolev_space / sobolev_time / estimate_sobolev (serial, and '
        'the pool path with mp.cpu_count patched to 1, 2, 5, 16) and weighted_l2 / estimate_weighted_l2 are run on real '
        'MeshParametrized meshes (UnitSquare, LShape with split long sides, Circle; Fraction or binary64 coordinates taken '
        'as exact rationals) with TOKEN seminorm routines: level A replaces the private __integrate_h_1_2 / __integrate_h_1_4 by '
        'injective integer codes of their arguments (t_a, t_b, which element is left / right / None; t_a, t_b, x_a, x_b, '
        'gamma), level B keeps the real __integrate_* bodies with an exact dyadic outer rule and replaces '
        'Slobodeckij.seminorm_h_1_2 / _pw / seminorm_h_1_4 by codes of (Gauss point, interval ends, pieces, routine); every '
        'ips list, every fsum and the assembled array are compared textually with the Lean model on the same mesh dump '
        '(also permuted, truncated and duplicated element lists, incl. the KeyError); every such request is answered a second time by '
        'the definitions REGENERATED from src/error_estimator.py (translate/estimatorgen.py -> Gen/EstimatorGen.lean, driver `gee`: '
        'sobolev_space / sobolev_time / estimate_sobolev serial + pool / weighted_l2 / estimate_weighted_l2 statement by statement, '
        'level B through the generated __integrate_h_1_2 / __integrate_h_1_4). search (floats, real seminorms, '
        'independent of the model): every patch value against an independent evaluation of the double integrals on the '
        'geometric union patch (own Gauss-Legendre / Duffy quadrature through numpy.leggauss), weighted L2 against direct '
        'Gauss integration, seam pairs against their rotated / reflected interior twins, shortcut against per-element '
        'evaluation, serial against pool. non-trivial = element with a hanging-node neighbour, a seam neighbour or a '
        'neighbour on another piece; distinct = (mesh, element, path).')
TRUSTED = [
    'Lean 4.33 kernel; axioms propext, Classical.choice, Quot.sound only',
    'harness/checks/C09.py (token routines, mesh dump) and Driver/EstimatorCmd.lean (same hash arithmetic, parser)',
    'the logic of src/error_estimator.py is regenerated from the source on every run (translate/estimatorgen.py -> '
    'Gen/EstimatorGen.lean) and proved equal to the hand-written model for all inputs, errors included (Props/EstimatorTie.lean: '
    'gen_integrate_h_1_2_eq, gen_integrate_h_1_4_eq, gen_sobolev_space_eq, gen_sobolev_time_eq, gen_weighted_l2_eq, '
    'gen_estimate_sobolev_serial_eq / _pool_eq, gen_estimate_weighted_l2_*_eq); trusted there: the object model at the top of the '
    'generated file (element = cell of its immutable fields, edges_axis / neighbour_elements = geometric neighbour lists, '
    '__init__ field definitions and Element.edges_axis checked textually, cache_dir = None, closures = their captured values), '
    'executed against the real class here',
    'the neighbour lists of the model are the geometric ones of C10 (tied to Edge.neighbour_elements() by C10 and again '
    'here through the order of every ips list)',
    'multiprocessing.Pool.map returns results in argument order (modelled as an order-preserving map)',
    'accuracy of the quadrature for non-polynomial residuals is measured, not proved (partial): 1e-4 at order 17',
]
ASSUMPTIONS = ['binary64 coordinates are read as the rationals they denote; token values are integers below 2^36 times '
               'dyadic step sizes so that every float sum in the real code is exact',
               'np.allclose(gamma(a), gamma(b)) is modelled as: a = b or {a, b} = {0, L}']

HASH_P = 68719476731


def translate(res):
    """Regenerates lean/Stbem/Gen/EstimatorGen.lean (the logic of src/error_estimator.py, statement by statement) from the
    working tree; a construct the translator does not understand raises (= broken obligation, the previous file is kept).
    Gen/QuadGen.lean (imported by it) is regenerated first."""
    import os
    import subprocess
    import sys
    from ..common import LEAN, REPO, VERIF, lake_lock, write_if_changed
    from .C15 import translate_quadgen
    translate_quadgen(res)
    sys.path.insert(0, os.path.join(VERIF, 'translate'))
    import estimatorgen

    def compiles(text):
        tmp = os.path.join(LEAN, '.lake', 'estimatorgen_check_%d.lean' % os.getpid())
        with open(tmp, 'w') as fh:
            fh.write(text)
        try:
            with lake_lock():
                p = subprocess.run(['lake', 'build', 'Stbem.Gen.QuadGen', 'Stbem.Model.Mesh'], cwd=LEAN, stdout=subprocess.PIPE,
                                   stderr=subprocess.STDOUT, text=True, timeout=600)
                if p.returncode == 0:
                    p = subprocess.run(['lake', 'env', 'lean', tmp], cwd=LEAN, stdout=subprocess.PIPE, stderr=subprocess.STDOUT,
                                       text=True, timeout=600)
        finally:
            os.unlink(tmp)
        return None if p.returncode == 0 else p.stdout[-2000:]
    stats = estimatorgen.generate(REPO, os.path.join(LEAN, 'Stbem', 'Gen'), write_if_changed, compiles)
    res.bump('generated_estimator_file_changed', stats.get('changed', 0))
    for k in ('methods', 'module_functions', 'methods_not_translated', 'assignments', 'augmented_assignments', 'appends', 'array_stores',
              'for_loops', 'branches', 'branch_bound_variables', 'none_tests', 'asserts', 'returns', 'closures', 'seminorm_calls',
              'private_method_calls', 'method_calls', 'pool_maps', 'pool_blocks', 'global_stores', 'global_declarations',
              'comprehensions', 'dict_lookups', 'list_reads', 'identity_tests', 'vertex_reads', 'element_attribute_reads',
              'edge_walks', 'neighbour_lists', 'numpy_calls', 'array_ops', 'residual_calls', 'star_arguments',
              'cache_blocks_not_modelled'):
        res.bump('translated_estimator_' + k, stats.get(k, 0))
    res.count(('translated', 'error_estimator.py'), True, n=stats.get('assignments', 0) + stats.get('returns', 0))
    return stats


GEN_TWINS = ('space', 'time', 'est', 'pool', 'direct', 'wl2')


def report(res, key, data):
    """One report per violation key and run (the first failing input is the replay datum)."""
    seen = getattr(res, '_c09_reported', None)
    if seen is None:
        seen = res._c09_reported = []
    if key in seen:
        res.bump('repeats:' + key)
        return
    seen.append(key)
    res.violation(key, data)


# ------------------------------------------------------------------------------------------------
# token arithmetic (mirrors Driver/EstimatorCmd.lean)
def mix(h, v):
    return (h * 1000003 + v % HASH_P + 1) % HASH_P


def rat_code(q):
    q = to_frac(q)
    return [1 if q.numerator < 0 else 0, abs(q.numerator), q.denominator]


def hash_l(xs):
    h = 17
    for v in xs:
        h = mix(h, v)
    return h


def to_frac(x):
    if isinstance(x, F):
        return x
    if hasattr(x, 'item'):
        x = x.item()
    return F(x)


# ------------------------------------------------------------------------------------------------
# real meshes
def make_gamma(name):
    from src.parametrization import Circle, LShape, PiSquare, UnitSquare
    return dict(UnitSquare=UnitSquare, LShape=LShape, Circle=Circle, PiSquare=PiSquare)[name]()


def make_mesh(name, T=None, exact=True, split_long=True):
    """The real MeshParametrized on the named curve. With `exact` the polygon meshes carry Fraction coordinates."""
    from src.mesh import MeshParametrized
    gamma = make_gamma(name)
    with silence_stdout():
        if T is None:
            T = [F(0), F(1)] if exact else [0, 1]
        if exact and name in ('UnitSquare', 'LShape'):
            X = [F(int(round(float(v)))) for v in gamma.pw_start]
            assert all(float(a) == float(b) for a, b in zip(X, gamma.pw_start))
            mesh = MeshParametrized(gamma, initial_space_mesh=X, initial_time_mesh=list(T))
        else:
            mesh = MeshParametrized(gamma, initial_time_mesh=list(T))
        if name == 'LShape' and split_long:  # as example.py does
            for elem in list(mesh.leaf_elements):
                if elem.h_x > 1:
                    mesh.refine_space(elem)
    return gamma, mesh


def load_line(mesh):
    leaves = list(mesh.leaf_elements)
    T0 = min(e.time_interval[0] for e in leaves)
    T1 = max(e.time_interval[1] for e in leaves)
    return 'ee load 1 0 %s %s %s %d %s' % (q2s(mesh.gamma_space.gamma_length), q2s(T0), q2s(T1), mesh.N_elements,
                                         ' '.join(show_cell(mesh, e) for e in leaves))


def is_dyadic(mesh, space=True):
    def ok(v):
        d = to_frac(v).denominator
        return d & (d - 1) == 0 and d <= 2**12
    for e in mesh.leaf_elements:
        if not (ok(e.time_interval[0]) and ok(e.time_interval[1])):
            return False
        if space and not (ok(e.space_interval[0]) and ok(e.space_interval[1])):
            return False
    return True


def make_estimator(mesh, N_poly=1):
    from src.error_estimator import ErrorEstimator
    with silence_stdout():
        return ErrorEstimator(mesh, N_poly=N_poly)


class Stub:
    pass


def farr(xs):
    a = np.empty(len(xs), dtype=object)
    for i, x in enumerate(xs):
        a[i] = x
    return a


B_POINTS, B_WEIGHTS = [F(1, 4), F(3, 4)], [F(1, 2), F(1, 2)]
LEVEL_B = 'B;%s;%s' % (','.join(q2s(v) for v in B_POINTS), ','.join(q2s(v) for v in B_WEIGHTS))


@contextlib.contextmanager
def tokens(level, mesh):
    """Installs the token routines (harness process; forked pool workers inherit them)."""
    from src.error_estimator import ErrorEstimator
    from src.norms import Slobodeckij
    pieces = list(mesh.gamma_space.pw_gamma)

    def pidx(gamma):
        for i, g in enumerate(pieces):
            if g is gamma:
                return i
        raise AssertionError('unknown gamma')

    saved = []

    def patch(obj, name, val):
        saved.append((obj, name, getattr(obj, name)))
        setattr(obj, name, val)

    if level == 'A':
        def i12(self, residual, t_a, t_b, elem_left, elem_right):
            return float(hash_l([1] + rat_code(t_a) + rat_code(t_b) + [elem_left.glob_idx] +
                                ([0] if elem_right is None else [elem_right.glob_idx + 1])))

        def i14(self, residual, t_a, t_b, x_a, x_b, gamma):
            return float(hash_l([2] + rat_code(t_a) + rat_code(t_b) + rat_code(x_a) + rat_code(x_b) + [pidx(gamma)]))
        patch(ErrorEstimator, '_ErrorEstimator__integrate_h_1_2', i12)
        patch(ErrorEstimator, '_ErrorEstimator__integrate_h_1_4', i14)
    else:
        def s12(self, f, a, b, gamma=None):
            t = f(farr([F(0)]), gamma)[0][0]
            return float(hash_l([3] + rat_code(t) + rat_code(a) + rat_code(b) + [pidx(gamma)]))

        def s12pw(self, f, a_1, b_1, gamma_1, a_2, b_2, gamma_2):
            t = f(farr([F(0)]), gamma_1)[0][0]
            return float(hash_l([4] + rat_code(t) + rat_code(a_1) + rat_code(b_1) + [pidx(gamma_1)] + rat_code(a_2) +
                                rat_code(b_2) + [pidx(gamma_2)]))

        def s14(self, f, a, b):
            x, gamma = f(farr([F(0)]))[0][1:]
            return float(hash_l([5] + rat_code(x) + rat_code(a) + rat_code(b) + [pidx(gamma)]))
        patch(Slobodeckij, 'seminorm_h_1_2', s12)
        patch(Slobodeckij, 'seminorm_h_1_2_pw', s12pw)
        patch(Slobodeckij, 'seminorm_h_1_4', s14)
    try:
        yield
    finally:
        for obj, name, val in reversed(saved):
            setattr(obj, name, val)


def probe_residual(t, x_hat, gamma):
    """Residual of level B: hands its arguments back to the token seminorm routines."""
    out = np.empty(len(t), dtype=object)
    for i in range(len(t)):
        out[i] = (t[i], x_hat[i], gamma)
    return out


def show_ips(r):
    return '%s|%s' % (q2s(r[0]), ','.join('%d:%s' % (i, q2s(v)) for i, v in r[1]))


def show_pairs(arr):
    return ' '.join('%s:%s' % (q2s(a), q2s(b)) for a, b in arr)


def guarded(fn, show):
    try:
        return show(fn())
    except (AssertionError, KeyError, IndexError):
        return 'err'


@contextlib.contextmanager
def cpu_count(k):
    import src.error_estimator as ee
    old = ee.mp.cpu_count
    ee.mp.cpu_count = lambda: k
    try:
        yield
    finally:
        ee.mp.cpu_count = old


def nontrivial_elem(mesh, e):
    L = mesh.gamma_space.gamma_length
    for edge in e.edges:
        ns = edge.neighbour_elements()
        if len(ns) == 2:
            return True
        for n in ns:
            if n.gamma_space is not e.gamma_space:
                return True
    return e.space_interval[0] == 0 or e.space_interval[1] == L


# ------------------------------------------------------------------------------------------------
def mesh_suite(rng, tier):
    """(label, curve, mesh) for the correspondence."""
    out = []
    thor = tier != 'quick'
    specs = [('UnitSquare', [F(0), F(1)], True), ('LShape', [F(0), F(1)], True), ('Circle', [0, 1], False),
             ('UnitSquare', [F(0), F(1, 3), F(1)], True), ('Circle', [0, 0.5, 2], False),
             ('LShape', [F(0), F(1, 2), F(1)], True), ('UnitSquare', [0, 1], False), ('LShape', [0, 1, 1.5], False)]
    n_rand = 2 if not thor else 8
    for name, T, exact in specs:
        for k in range(n_rand + 1):
            gamma, mesh = make_mesh(name, T=T, exact=exact)
            pm = PyMesh(mesh)
            ops = []
            if k > 0:
                steps = rng.randint(3, 14 if not thor else 40)
                bias = rng.choice([0.2, 0.5, 0.8])
                for _ in range(steps):
                    if len(mesh.leaf_elements) > (40 if not thor else 120):
                        break
                    op = random_op(rng, pm, ['rt', 'rs', 'rb'], bias)
                    ops.append(op)
                    pm.apply(op)
            out.append(('%s/T=%s/%s' % (name, [str(t) for t in T], ops), name, mesh))
    # the pinned three-elements guard counts all roots: one-element-wide and two-element-wide glued meshes
    for refine in (0, 1):
        gamma, mesh = make_mesh('Circle', T=[0, 1, 2, 3], exact=False)
        with silence_stdout():
            for _ in range(refine):
                mesh.uniform_refine_space()
        out.append(('Circle/1-wide/%d' % refine, 'Circle', mesh))
    return out


def real_nbr_line(mesh):
    parts = []
    for e in mesh.leaf_elements:
        sp = [e] + [n for edge in e.edges_axis(0) for n in edge.neighbour_elements()]
        tm = [e] + [n for edge in e.edges_axis(1) for n in edge.neighbour_elements()]
        parts.append('%d:%s/%s' % (e.glob_idx, ','.join(str(n.glob_idx) for n in sp), ','.join(str(n.glob_idx) for n in tm)))
    return ' '.join(parts)


def correspond(res, tier):
    rng = seed_rng(res.seed, 'C09')
    lines, expect, where = [], [], []

    def add(line, want, label):
        lines.append(line)
        expect.append(want)
        where.append(label)
        parts = line.split(' ', 2)
        if parts[0] == 'ee' and parts[1] in GEN_TWINS:
            # the same request answered by the definitions regenerated from src/error_estimator.py
            lines.append('g' + line)
            expect.append(want)
            where.append(label + ' [generated twin]')
            res.bump('gen_twin_' + parts[1])

    suite = mesh_suite(rng, tier)
    pools_left = 6 if tier == 'quick' else 20
    cpus = [1, 2, 5, 16]
    for mi, (label, cname, mesh) in enumerate(suite):
        elems = list(mesh.leaf_elements)
        ids = ','.join(str(e.glob_idx) for e in elems)
        L = q2s(mesh.gamma_space.gamma_length)
        add(load_line(mesh), 'ok %d' % len(elems), label)
        add('ee nbrs', real_nbr_line(mesh), label)
        levels = ['A']
        dy_t, dy_x = is_dyadic(mesh, space=False), is_dyadic(mesh, space=True)
        floats = not any(isinstance(v, F) for e in elems for v in e.space_interval + e.time_interval)
        if dy_t and floats:  # level B evaluates the real gamma pieces (np.allclose): binary64 coordinates only
            levels.append('B')
        for level in levels:
            est = make_estimator(mesh)
            lv = 'A' if level == 'A' else LEVEL_B
            if level == 'B':
                g = Stub()
                g.points, g.weights = farr(B_POINTS), farr(B_WEIGHTS)
                est.gauss = g
            residual = probe_residual
            with tokens(level, mesh):
                for e in elems:
                    nt = nontrivial_elem(mesh, e)
                    for sym in (0, 1):
                        add('ee space %s %s %d %d' % (L, lv, sym, e.glob_idx),
                            guarded(lambda: est.sobolev_space(e, residual, nbrs_symmetry=bool(sym)), show_ips), label)
                        res.count(('space', mi, level, sym, e.glob_idx), nt)
                        if level == 'A' or dy_x:
                            add('ee time %s %d %d' % (lv, sym, e.glob_idx),
                                guarded(lambda: est.sobolev_time(e, residual, nbrs_symmetry=bool(sym)), show_ips), label)
                            res.count(('time', mi, level, sym, e.glob_idx), nt)
                if level == 'B' and not dy_x:
                    continue
                # assembled array: serial, direct definition, permuted / truncated / duplicated lists, pool
                want = guarded(lambda: est.estimate_sobolev(elems, residual), show_pairs)
                add('ee est %s %s %s' % (L, lv, ids), want, label)
                res.count(('est', mi, level), True)

                def direct():
                    return [(est.sobolev_time(e, residual)[0], est.sobolev_space(e, residual)[0]) for e in elems]
                want_d = guarded(direct, show_pairs)
                add('ee direct %s %s %s' % (L, lv, ids), want_d, label)
                if level == 'A':
                    perm = list(elems)
                    rng.shuffle(perm)
                    add('ee est %s %s %s' % (L, lv, ','.join(str(e.glob_idx) for e in perm)),
                        guarded(lambda: est.estimate_sobolev(perm, residual), show_pairs), label)
                    sub = perm[:max(1, len(perm) // 2)]
                    add('ee est %s %s %s' % (L, lv, ','.join(str(e.glob_idx) for e in sub)),
                        guarded(lambda: est.estimate_sobolev(sub, residual), show_pairs), label)
                    dup = perm + [perm[0], perm[-1]]
                    add('ee est %s %s %s' % (L, lv, ','.join(str(e.glob_idx) for e in dup)),
                        guarded(lambda: est.estimate_sobolev(dup, residual), show_pairs), label)
                    res.count(('est-lists', mi), True, n=3)
                    if pools_left > 0 and (mi % 3 == 1 or len(elems) > 16):
                        k = cpus[pools_left % len(cpus)]
                        pools_left -= 1
                        with cpu_count(k):
                            got = guarded(lambda: est.estimate_sobolev(elems, residual, use_mp=True), show_pairs)
                        add('ee pool %s %s %d %s' % (L, lv, k, ids), got, label)
                        res.count(('pool', mi, k), True)
                        res.bump('pool_runs_cpu_%d' % k)
                        if got != want:
                            report(res, 'C09:pool-differs-from-serial:tokens', dict(mesh=label, cpu=k, serial=want[:300], pool=got[:300]))
                if want != want_d and 'err' not in (want, want_d):
                    report(res, 'C09:shortcut-differs-from-direct:tokens', dict(mesh=label, level=level, shortcut=want[:300], direct=want_d[:300]))
        # weighted L2 (exact, Fraction meshes only)
        if all(isinstance(e.space_interval[1], F) and isinstance(e.time_interval[1], F) for e in elems):
            corr_weighted(res, rng, mesh, elems, add, label, mi, tier)
    out = run_driver(lines)
    if len(out) != len(lines):
        res.broken_obligation('correspondence C09: driver output length', '%d vs %d' % (len(out), len(lines)))
        return
    for line, want, got, label in zip(lines, expect, out, where):
        got = 'err' if got.startswith('err') else got
        if got != want:
            res.broken_obligation('correspondence C09: model and src/error_estimator.py differ',
                                  'mesh %s\nline: %s\npython: %s\nmodel:  %s' % (label[:400], line[:400], want[:1500], got[:1500]))
            return
    res.notes['model_lines'] = len(lines)
    res.sample(dict(meshes=len(suite), example=suite[1][0][:200], levels='A (private __integrate_* tokens), B (Slobodeckij tokens)',
                    first_line=lines[2][:120], first_answer=expect[2][:160]))


def corr_weighted(res, rng, mesh, elems, add, label, mi, tier):
    import src.error_estimator as ee
    est = make_estimator(mesh)
    pts1, wts1 = [F(1, 4), F(3, 4)], [F(1, 2), F(1, 2)]
    if rng.random() < 0.5:
        pts1, wts1 = [F(1, 5), F(1, 2), F(6, 7)], [F(1, 3), F(1, 6), F(1, 2)]
    g = Stub()
    g.points = [farr([a for a in pts1 for _ in pts1]), farr([b for _ in pts1 for b in pts1])]
    g.weights = farr([a * b for a in wts1 for b in wts1])
    est.gauss_2d = g
    poly = [(rng.randint(0, 3), rng.randint(0, 3), F(rng.randint(-9, 9), rng.choice([1, 2, 3, 5]))) for _ in range(3)]
    pieces = list(mesh.gamma_space.pw_gamma)

    def residual(t, x_hat, gamma):
        pc = [i for i, gm in enumerate(pieces) if gm is gamma][0]
        return sum(c * t**i * x_hat**j for i, j, c in poly) + pc
    ps = ','.join('%d:%d:%s' % (i, j, q2s(c)) for i, j, c in poly)
    old = ee.sqrt
    ee.sqrt = lambda h: (3 * F(h) + 1) / (F(h) + 2)
    try:
        vals = [est.weighted_l2(e, residual) for e in elems]
        arr = est.estimate_weighted_l2(elems, residual)
        arr_mp = None
        if mi % 5 == 0:
            with cpu_count(3):
                arr_mp = est.estimate_weighted_l2(elems, residual, use_mp=True)
    finally:
        ee.sqrt = old
    for e, v, row in zip(elems, vals, arr):
        add('ee wl2 %d %s %s %s %s' % (e.glob_idx, ','.join(q2s(x) for x in g.points[0]), ','.join(q2s(x) for x in g.points[1]),
                                       ','.join(q2s(x) for x in g.weights), ps), '%s:%s' % (q2s(v[0]), q2s(v[1])), label)
        res.count(('wl2', mi, e.glob_idx), True)
        if (row[0], row[1]) != (v[0], v[1]):
            report(res, 'C09:estimate_weighted_l2-differs-from-weighted_l2:exact', dict(mesh=label, elem=e.glob_idx))
    # estimate_weighted_l2 (serial, and the pool path when it was run) against the generated function
    ids = ','.join(str(e.glob_idx) for e in elems)
    enc = (','.join(q2s(x) for x in g.points[0]), ','.join(q2s(x) for x in g.points[1]), ','.join(q2s(x) for x in g.weights), ps)
    add('gee wl2s %s %s %s %s %s 0' % ((ids, ) + enc), show_pairs(arr), label)
    res.count(('wl2s', mi, 0), True)
    if arr_mp is not None:
        add('gee wl2s %s %s %s %s %s 1' % ((ids, ) + enc), show_pairs(arr_mp), label)
        res.count(('wl2s', mi, 1), True)
    if arr_mp is not None and not all(a[0] == b[0] and a[1] == b[1] for a, b in zip(arr, arr_mp)):
        report(res, 'C09:weighted-l2-pool-differs-from-serial:exact', dict(mesh=label))


# ================================================================================================
# search: floats, real seminorm routines, independent reference (numpy Gauss-Legendre only)
_GL = {}


def gl(n):
    if n not in _GL:
        x, w = np.polynomial.legendre.leggauss(n)
        _GL[n] = (0.5 * (x + 1.0), 0.5 * w)
    return _GL[n]


def exactness(N):
    """degree of exactness of the rule the code builds for `N_poly = N`"""
    return 2 * ((N + 1) // 2) - 1


def ref_h12_static(f, segs, n=36):
    """∬ |f(x)-f(y)|² / |γ(x)-γ(y)|² over (∪ segs)², segs = [(a, b, gamma)] consecutive sub-arcs (b_k ≙ a_{k+1})."""
    x1, w1 = gl(n)
    x2, w2 = gl(n + 1)
    total = 0.0
    for a, b, g in segs:
        h = b - a
        X = np.repeat(a + h * x1, len(x2))
        Y = np.tile(a + h * x2, len(x1))
        W = np.kron(w1, w2) * h * h
        d2 = np.sum((g(X) - g(Y))**2, axis=0)
        total += np.dot((f(X, g) - f(Y, g))**2 / d2, W)
    xi, wi = gl(n)
    XI = np.repeat(xi, len(xi))
    ETA = np.tile(xi, len(xi))
    WW = np.kron(wi, wi) * XI
    for (a1, b1, g1), (a2, b2, g2) in zip(segs[:-1], segs[1:]):
        h1, h2 = b1 - a1, b2 - a2
        for s, tau in ((XI, XI * ETA), (XI * ETA, XI)):
            X = b1 - h1 * s
            Y = a2 + h2 * tau
            d2 = np.sum((g1(X) - g2(Y))**2, axis=0)
            total += 2.0 * h1 * h2 * np.dot((f(X, g1) - f(Y, g2))**2 / d2, WW)
    return total


def ref_space(r, ta, tb, segs, nt=20):
    tt, wt = gl(nt)
    val = 0.0
    for p, w in zip(tt, wt):
        t = ta + (tb - ta) * p
        val += w * ref_h12_static(lambda xh, g: np.asarray(r(np.full(len(xh), t), xh, g), dtype=float), segs)
    return (tb - ta) * val


def ref_h14_static(f, a, b, n=30):
    """∬ |f(s)-f(t)|² / |s-t|^{3/2} over [a,b]² = 4 ∫_0^{√h} G(w²)/w² dw, G(d) = ∫_0^{h-d} (f(s+d)-f(s))² ds."""
    h = b - a
    xw, ww = gl(n)
    xs, ws = gl(n)
    total = 0.0
    for p, w in zip(xw, ww):
        om = math.sqrt(h) * p
        d = om * om
        s = a + (h - d) * xs
        G = (h - d) * np.dot((f(s + d) - f(s))**2, ws)
        total += w * G / (om * om)
    return 4.0 * math.sqrt(h) * total


def ref_time(r, ta, tb, xa, xb, gamma, nx=20):
    xx, wx = gl(nx)
    val = 0.0
    for p, w in zip(xx, wx):
        x = xa + (xb - xa) * p
        val += w * ref_h14_static(lambda t: np.asarray(r(t, np.full(len(t), x), gamma), dtype=float), ta, tb)
    return (xb - xa) * val


def ref_l2(r, e, n=30):
    x, w = gl(n)
    t0, t1 = e.time_interval
    x0, x1 = e.space_interval
    T = np.repeat(t0 + (t1 - t0) * x, n)
    X = np.tile(x0 + (x1 - x0) * x, n)
    return (t1 - t0) * (x1 - x0) * np.dot(np.asarray(r(T, X, e.gamma_space), dtype=float)**2, np.kron(w, w))


# ---- residual families -----------------------------------------------------------------------
def poly_residual(coef):
    def r(t, x_hat, gamma):
        t, x_hat = np.asarray(t, dtype=float), np.asarray(x_hat, dtype=float)
        out = np.zeros(np.broadcast(t, x_hat).shape)
        for (i, j), c in coef.items():
            out = out + c * t**i * x_hat**j
        return out
    return r


def trig_residual(a, b, om, ph, centre=(0.0, 0.0)):
    def r(t, x_hat, gamma):
        x = gamma(np.asarray(x_hat, dtype=float))
        return (1.0 + 0.5 * np.cos(om * np.asarray(t, dtype=float) + ph)) * np.cos(a * (x[0] - centre[0]) + b * (x[1] - centre[1]) + ph)
    return r


def symmetric_residual(k, centre):
    """invariant under quarter turns about `centre` and under the reflection exchanging the two coordinates"""
    def r(t, x_hat, gamma):
        x = gamma(np.asarray(x_hat, dtype=float))
        u, v = x[0] - centre[0], x[1] - centre[1]
        return (1.0 + 0.3 * np.sin(2.0 * np.asarray(t, dtype=float))) * (np.cos(k * u) + np.cos(k * v) + 0.25 * u * u * v * v)
    return r


CENTRE = dict(UnitSquare=(0.5, 0.5), PiSquare=(math.pi / 2, math.pi / 2), Circle=(0.0, 0.0), LShape=(0.0, 0.0))


# ---- real meshes for the search --------------------------------------------------------------
def search_mesh(rng, name, mode, tier, fine=False):
    gamma, mesh = make_mesh(name, T=[0, 1], exact=False)
    pm = PyMesh(mesh)
    with silence_stdout():
        if fine and name == 'Circle' and mode == 'random':
            mesh.uniform_refine_space()  # quarter-circle elements are outside the measured accuracy range of order 17
        if mode == 'uniform':
            mesh.uniform_refine()
        elif mode == 'space':
            mesh.uniform_refine_space()
        elif mode == 'random':
            for _ in range(rng.randint(4, 10 if tier == 'quick' else 25)):
                if len(mesh.leaf_elements) > (36 if tier == 'quick' else 90):
                    break
                pm.apply(random_op(rng, pm, ['rt', 'rs', 'rb'], rng.choice([0.3, 0.5, 0.7])))
    return gamma, mesh


def describe(e):
    return dict(glob_idx=e.glob_idx, t=[float(v) for v in e.time_interval], x=[float(v) for v in e.space_interval])


def space_pair(mesh, elem, nbr):
    """Geometry of the union patch, independent of the code's left/right logic: (segs, cls, seam_same_piece)."""
    L = mesh.gamma_space.gamma_length
    if nbr is elem:
        straight = len(mesh.gamma_space.pw_gamma) > 1
        return [(elem.space_interval[0], elem.space_interval[1], elem.gamma_space)], 'single-straight' if straight else 'single-curved', False
    a, b = elem, nbr
    # order along the curve: `first` ends where `second` starts (directly or through the seam)
    if a.space_interval[1] == b.space_interval[0]:
        first, second, seam = a, b, False
    elif b.space_interval[1] == a.space_interval[0]:
        first, second, seam = b, a, False
    elif a.space_interval[1] == L and b.space_interval[0] == 0:
        first, second, seam = a, b, True
    elif b.space_interval[1] == L and a.space_interval[0] == 0:
        first, second, seam = b, a, True
    else:
        raise AssertionError('not neighbours')
    same = first.gamma_space is second.gamma_space
    polygon = len(mesh.gamma_space.pw_gamma) > 1
    if same and polygon:
        cls = 'same-straight'
    elif same:
        cls = 'seam-same-piece' if seam else 'same-curved'
    else:
        cls = 'seam-corner' if seam else 'corner'
    segs = [(first.space_interval[0], first.space_interval[1], first.gamma_space),
            (second.space_interval[0], second.space_interval[1], second.gamma_space)]
    return segs, cls, (seam and same)


def rel_err(a, b, scale=None):
    scale = max(abs(a), abs(b)) if scale is None else scale
    return abs(a - b) / scale if scale > 0 else 0.0


def _check_patches(res, rng, cname, mesh, family, N_poly, r, tol, sample, worst):
    """Every pair value of sobolev_space / sobolev_time and weighted_l2 of the sampled elements against the reference."""
    est = make_estimator(mesh, N_poly=N_poly)
    idx2elem = {e.glob_idx: e for e in mesh.leaf_elements}
    for e in sample:
        # ---- space
        total, ips = est.sobolev_space(e, r)
        for gid, val in ips:
            n = idx2elem[gid]
            segs, cls, seam_same = space_pair(mesh, e, n)
            if family == 'poly' and cls not in ('same-straight', 'single-straight'):
                continue  # x_hat-polynomials jump at the seam; chord distances are not polynomial: not exact
            ta, tb = max(e.time_interval[0], n.time_interval[0]), min(e.time_interval[1], n.time_interval[1])
            ref = ref_space(r, ta, tb, segs)
            scale = max(abs(ref), abs(val), 1e-300)
            err = abs(val - ref) / scale if scale > 1e-12 else abs(val - ref)
            res.count(('space', cname, family, N_poly, e.glob_idx, gid), cls not in ('single-straight', 'single-curved'))
            key = '%s/%s' % (family, cls)
            worst[key] = max(worst.get(key, 0.0), 0.0 if seam_same else err)
            if err > tol:
                data = dict(curve=cname, leaves=len(mesh.leaf_elements), N_poly=list(N_poly) if isinstance(N_poly, tuple) else N_poly,
                            residual=family, elem=describe(e), nbr=describe(n), pair_class=cls, code_value=float(val),
                            union_patch_reference=float(ref), relative_error=float(err), tolerance=tol)
                if seam_same:
                    report(res, 'C09:seam-same-piece-complementary-arc:%s:reference' % cname, data)
                else:
                    report(res, 'C09:space-patch-differs-from-definition:%s:%s:%s' % (cname, cls, family), data)
        if abs(total - math.fsum(v for _, v in ips)) > 1e-13 * max(1.0, abs(total)):
            report(res, 'C09:sobolev_space-sum-differs-from-ips:%s' % cname, dict(elem=describe(e)))
        # ---- time
        total, ips = est.sobolev_time(e, r)
        for gid, val in ips:
            n = idx2elem[gid]
            xa, xb = max(e.space_interval[0], n.space_interval[0]), min(e.space_interval[1], n.space_interval[1])
            ta, tb = min(e.time_interval[0], n.time_interval[0]), max(e.time_interval[1], n.time_interval[1])
            if n.gamma_space is not e.gamma_space:
                report(res, 'C09:time-neighbour-on-other-piece:%s' % cname, dict(elem=describe(e), nbr=describe(n)))
                continue
            ref = ref_time(r, ta, tb, xa, xb, e.gamma_space)
            scale = max(abs(ref), abs(val))
            err = abs(val - ref) / scale if scale > 1e-12 else abs(val - ref)
            res.count(('time', cname, family, N_poly, e.glob_idx, gid), n is not e)
            key = '%s/time' % family
            worst[key] = max(worst.get(key, 0.0), err)
            if err > tol:
                report(res, 'C09:time-patch-differs-from-definition:%s:%s' % (cname, family),
                              dict(curve=cname, N_poly=list(N_poly) if isinstance(N_poly, tuple) else N_poly, residual=family,
                                   elem=describe(e), nbr=describe(n), code_value=float(val), union_patch_reference=float(ref),
                                   relative_error=float(err), tolerance=tol))
        # ---- weighted L2
        w_t, w_x = est.weighted_l2(e, r)
        n2 = ref_l2(r, e)
        h_t = e.time_interval[1] - e.time_interval[0]
        h_x = e.space_interval[1] - e.space_interval[0]
        for name, got, want in (('time', w_t, n2 / math.sqrt(h_t)), ('space', w_x, n2 / h_x)):
            scale = max(abs(got), abs(want))
            err = abs(got - want) / scale if scale > 1e-12 else abs(got - want)
            res.count(('wl2', cname, family, N_poly, e.glob_idx, name), True)
            key = '%s/weighted-l2' % family
            worst[key] = max(worst.get(key, 0.0), err)
            if err > tol:
                report(res, 'C09:weighted-l2-differs-from-definition:%s:%s:%s' % (cname, name, family),
                              dict(curve=cname, N_poly=list(N_poly) if isinstance(N_poly, tuple) else N_poly, elem=describe(e),
                                   code_value=float(got), reference=float(want), relative_error=float(err), tolerance=tol))


REAL_ERRORS = (AssertionError, KeyError, IndexError, ZeroDivisionError, FloatingPointError, TypeError, ValueError, AttributeError)


def check_patches(res, rng, cname, mesh, family, N_poly, r, tol, sample, worst):
    try:
        _check_patches(res, rng, cname, mesh, family, N_poly, r, tol, sample, worst)
    except REAL_ERRORS as exc:
        import traceback
        tb = traceback.extract_tb(exc.__traceback__)
        site = next(('%s:%d' % (f.filename.split('/')[-1], f.lineno) for f in reversed(tb) if '/src/' in f.filename), 'harness')
        if site == 'harness':
            raise
        report(res, 'C09:evaluation-raises:%s:%s:%s' % (cname, type(exc).__name__, site),
               dict(curve=cname, leaves=len(mesh.leaf_elements), residual=family, N_poly=N_poly, sample=[describe(e) for e in sample],
                    error=repr(exc)[:200]))


def check_assembly(res, rng, cname, mesh, N_poly, r, worst, pool_cpu=None, symmetric=False, tol_sym=1e-9):
    try:
        _check_assembly(res, rng, cname, mesh, N_poly, r, worst, pool_cpu=pool_cpu, symmetric=symmetric, tol_sym=tol_sym)
    except REAL_ERRORS as exc:
        import traceback
        tb = traceback.extract_tb(exc.__traceback__)
        site = next(('%s:%d' % (f.filename.split('/')[-1], f.lineno) for f in reversed(tb) if '/src/' in f.filename), 'harness')
        if site == 'harness':
            raise
        report(res, 'C09:evaluation-raises:%s:%s:%s' % (cname, type(exc).__name__, site),
               dict(curve=cname, leaves=len(mesh.leaf_elements), N_poly=N_poly, pool_cpu=pool_cpu, error=repr(exc)[:200]))


def pick_poly(rng, N):
    """Random polynomial residual in (t, x_hat) for which every rule of order tuple N is exact."""
    N_l2, N_outer, N_time, N_space = N
    dt = min(exactness(N_l2) // 2, exactness(N_outer) // 2, exactness(N_time) // 2, 4)
    dx = min(exactness(N_l2) // 2, exactness(N_outer) // 2, exactness(N_space) // 2 + 1, 4)
    coef = {}
    for i in range(dt + 1):
        for j in range(dx + 1):
            if rng.random() < 0.7 or (i, j) == (dt, dx):
                coef[(i, j)] = rng.choice([-2.0, -1.0, -0.5, 0.5, 1.0, 1.5, 3.0])
    return coef, dt, dx


def find_elem(elems, t, x, L):
    for e in elems:
        if abs(e.time_interval[0] - t[0]) < 1e-12 and abs(e.time_interval[1] - t[1]) < 1e-12 and \
                abs(e.space_interval[0] - x[0]) < 1e-9 * L and abs(e.space_interval[1] - x[1]) < 1e-9 * L:
            return e
    return None


def has_seam_same_piece_nbr(mesh, e):
    L = mesh.gamma_space.gamma_length
    for edge in e.edges_axis(0):
        for n in edge.neighbour_elements():
            if n is not e and n.gamma_space is e.gamma_space and \
                    ((e.space_interval[1] == L and n.space_interval[0] == 0) or (n.space_interval[1] == L and e.space_interval[0] == 0)):
                return True
    return False


def _check_assembly(res, rng, cname, mesh, N_poly, r, worst, pool_cpu=None, symmetric=False, tol_sym=1e-9):
    """shortcut vs per-element evaluation, serial vs pool, weighted-L2 paths, rigid symmetries."""
    est = make_estimator(mesh, N_poly=N_poly)
    elems = list(mesh.leaf_elements)
    L = float(mesh.gamma_space.gamma_length)
    eta = est.estimate_sobolev(elems, r)
    direct = np.array([[est.sobolev_time(e, r)[0], est.sobolev_space(e, r)[0]] for e in elems])
    for i, e in enumerate(elems):
        for col, name in ((0, 'time'), (1, 'space')):
            err = rel_err(eta[i, col], direct[i, col])
            res.count(('shortcut', cname, N_poly, e.glob_idx, name), True)
            worst['shortcut'] = max(worst.get('shortcut', 0.0), err)
            if err > 1e-13:
                report(res, 'C09:shortcut-differs-from-direct:%s:%s' % (cname, name),
                              dict(curve=cname, leaves=len(elems), elem=describe(e), assembled=float(eta[i, col]),
                                   per_element=float(direct[i, col]), relative_error=float(err)))
    # the element list in another ORDER (callers may sort by slab, reverse, shuffle): row i belongs to list entry i
    pos = {id(e): i for i, e in enumerate(elems)}
    orders = [('reversed', list(reversed(elems))),
              ('latest-slab-first', sorted(elems, key=lambda e: (-e.time_interval[0], e.space_interval[0])))]
    sh = list(elems)
    rng.shuffle(sh)
    orders.append(('shuffled', sh))
    for oname, lst in orders[:(3 if len(elems) <= 40 else 1)]:
        eta_o = est.estimate_sobolev(lst, r)
        wl2_o = est.estimate_weighted_l2(lst, r)
        res.count(('list-order', cname, N_poly, oname, len(lst)), True)
        for i, e in enumerate(lst):
            for col, name in ((0, 'time'), (1, 'space')):
                err = rel_err(eta_o[i, col], direct[pos[id(e)], col])
                if err > 1e-12:
                    report(res, 'C09:shortcut-differs-from-direct:%s:%s:list-order' % (cname, name),
                           dict(curve=cname, leaves=len(elems), order=oname, elem=describe(e), list_position=i,
                                assembled=float(eta_o[i, col]), per_element=float(direct[pos[id(e)], col]),
                                relative_error=float(err)))
                    break
            if tuple(wl2_o[i]) != tuple(est.weighted_l2(e, r)):
                report(res, 'C09:estimate_weighted_l2-differs-from-weighted_l2:%s:list-order' % cname, dict(elem=describe(e), order=oname))
    wl2 = est.estimate_weighted_l2(elems, r)
    for i, e in enumerate(elems):
        if tuple(wl2[i]) != tuple(est.weighted_l2(e, r)):
            report(res, 'C09:estimate_weighted_l2-differs-from-weighted_l2:%s' % cname, dict(elem=describe(e)))
    if pool_cpu is not None:
        # a second estimator (other orders) is constructed on the same mesh BEFORE the pool calls of the first one: the
        # workers must compute with the estimator whose method is called, not with the one constructed last
        other = make_estimator(mesh, N_poly=1 if N_poly != 1 else 3)      # noqa: F841 (alive during the pool calls)
        with cpu_count(pool_cpu):
            eta_mp = est.estimate_sobolev(elems, r, use_mp=True)
            wl2_mp = est.estimate_weighted_l2(elems, r, use_mp=True)
        res.count(('pool', cname, pool_cpu, len(elems)), True)
        res.bump('search_pool_runs')
        if not np.array_equal(eta, eta_mp):
            report(res, 'C09:pool-differs-from-serial:%s:sobolev' % cname, dict(curve=cname, cpu=pool_cpu, max_abs_diff=float(np.max(np.abs(eta - eta_mp)))))
        if not np.array_equal(wl2, wl2_mp):
            report(res, 'C09:pool-differs-from-serial:%s:weighted-l2' % cname, dict(curve=cname, cpu=pool_cpu))
        # the same estimator, the same list OBJECT, another residual (what a loop does that estimates two quantities on
        # one mesh): the workers must see the residual of the current call
        def r2(t, x_hat, gamma, _r=r):
            return 3.0 * _r(t, x_hat, gamma) + np.asarray(t, dtype=float)
        eta2 = est.estimate_sobolev(elems, r2)
        wl22 = est.estimate_weighted_l2(elems, r2)
        with cpu_count(pool_cpu):
            eta2_mp = est.estimate_sobolev(elems, r2, use_mp=True)
            wl22_mp = est.estimate_weighted_l2(elems, r2, use_mp=True)
        res.count(('pool-second-residual', cname, pool_cpu, len(elems)), True)
        if not np.array_equal(eta2, eta2_mp):
            report(res, 'C09:pool-differs-from-serial:%s:sobolev:second-residual' % cname,
                   dict(curve=cname, cpu=pool_cpu, max_abs_diff=float(np.max(np.abs(eta2 - eta2_mp))),
                        equals_first_residual_result=bool(np.array_equal(eta2_mp, eta_mp)),
                        history='estimate_sobolev(elems, r, use_mp=True) then estimate_sobolev(elems, r2, use_mp=True), same list object'))
        if not np.array_equal(wl22, wl22_mp):
            report(res, 'C09:pool-differs-from-serial:%s:weighted-l2:second-residual' % cname,
                   dict(curve=cname, cpu=pool_cpu, equals_first_residual_result=bool(np.array_equal(wl22_mp, wl2_mp)),
                        history='estimate_weighted_l2(elems, r, use_mp=True) then (elems, r2, use_mp=True), same list object'))
    if not symmetric:
        return
    moves = []
    if cname in ('UnitSquare', 'PiSquare', 'Circle'):
        for q in (1, 2):
            moves.append(('rotate-%d-quarter' % q, lambda x, q=q: ((x[0] + q * L / 4) % L, ((x[1] + q * L / 4 - 1e-12 * L) % L) + 1e-12 * L)))
    moves.append(('reflect', lambda x: (L - x[1], L - x[0])))
    for name, mv in moves:
        for i, e in enumerate(elems):
            img = find_elem(elems, e.time_interval, mv(e.space_interval), L)
            if img is None:
                continue
            j = elems.index(img)
            for col, what, arr in ((0, 'sobolev-time', eta), (1, 'sobolev-space', eta), (0, 'l2-time', wl2), (1, 'l2-space', wl2)):
                err = rel_err(arr[i, col], arr[j, col])
                res.count(('symmetry', cname, name, e.glob_idx, what), True)
                seam = what == 'sobolev-space' and (has_seam_same_piece_nbr(mesh, e) or has_seam_same_piece_nbr(mesh, img))
                if not seam:
                    worst['symmetry/' + what] = max(worst.get('symmetry/' + what, 0.0), err)
                if err > tol_sym:
                    data = dict(curve=cname, leaves=len(elems), move=name, indicator=what, elem=describe(e), image=describe(img),
                                value=float(arr[i, col]), value_at_image=float(arr[j, col]), relative_difference=float(err),
                                N_poly=N_poly)
                    if seam:
                        report(res, 'C09:seam-same-piece-complementary-arc:%s:symmetry' % cname, data)
                    else:
                        report(res, 'C09:symmetry-not-respected:%s:%s:%s' % (cname, name, what), data)


def seam_demo(res):
    """Deterministic probe of the same-piece seam pair: Circle with 4 and with 8 elements, residual t*cos(4*theta)
    (invariant under quarter turns), order 17: value of the pair across the seam vs its rotated interior twin."""
    def r(t, x_hat, gamma):
        x = gamma(np.asarray(x_hat, dtype=float))
        return np.asarray(t, dtype=float) * (x[0]**4 - 6.0 * x[0]**2 * x[1]**2 + x[1]**4)
    out = {}
    for refine in (0, 1):
        gamma, mesh = make_mesh('Circle', T=[0, 1], exact=False)
        with silence_stdout():
            for _ in range(refine):
                mesh.uniform_refine_space()
        est = make_estimator(mesh, N_poly=17)
        elems = sorted(mesh.leaf_elements, key=lambda e: e.space_interval[0])
        first, second, last = elems[0], elems[1], elems[-1]
        try:
            ips = dict(est.sobolev_space(first, r)[1])
        except REAL_ERRORS as exc:
            report(res, 'C09:evaluation-raises:Circle:%s:seam-demo' % type(exc).__name__, dict(error=repr(exc)[:200]))
            return
        seam, twin = float(ips[last.glob_idx]), float(ips[second.glob_idx])
        ref = float(ref_space(r, 0.0, 1.0, space_pair(mesh, first, last)[0]))
        out['%d elements' % len(elems)] = dict(seam_pair=[last.glob_idx, first.glob_idx], seam_pair_value=round(seam, 6),
                                                interior_twin=[first.glob_idx, second.glob_idx], interior_twin_value=round(twin, 6),
                                                union_patch_reference=round(ref, 6))
        res.count(('seam-demo', len(elems)), True)
        if rel_err(seam, twin) > 1e-6:
            report(res, 'C09:seam-same-piece-complementary-arc:Circle:%d-elements:twin' % len(elems),
                   dict(curve='Circle', leaves=len(elems), residual='t*cos(4 theta)', N_poly=17, seam_elems=[describe(last), describe(first)],
                        twin_elems=[describe(first), describe(second)], seam_pair_value=seam, interior_twin_value=twin,
                        union_patch_reference=ref))
    res.notes['seam_same_piece_probe'] = out


def reuse_across_refinement(res, rng, tier):
    """One estimator kept over an adaptive loop on ONE growing mesh (as example.py keeps it): after every local refinement
    its indicators on the current leaves must be those of an estimator created now (serial path)."""
    for cname in (('UnitSquare', 'Circle') if tier == 'quick' else ('UnitSquare', 'Circle', 'LShape', 'PiSquare')):
        gamma, mesh = search_mesh(rng, cname, 'uniform', tier)
        est = make_estimator(mesh, N_poly=5)

        def r(t, x_hat, g):
            x = g(np.asarray(x_hat, dtype=float))
            return np.asarray(t, dtype=float) * (1.0 + x[0]) + x[1] ** 2
        hist = []
        for step in range(3 if tier == 'quick' else 5):
            elems = list(mesh.leaf_elements)
            try:
                with silence_stdout():
                    old = np.array(est.estimate_sobolev(elems, r), dtype=float)
                    old_w = np.array(est.estimate_weighted_l2(elems, r), dtype=float)
            except Exception as exc:  # noqa: BLE001
                report(res, 'C09:estimator-reuse-raises:%s' % cname, dict(curve=cname, step=step, error=repr(exc)[:300], refinements=hist))
                break
            fresh_est = make_estimator(mesh, N_poly=5)
            with silence_stdout():
                new = np.array(fresh_est.estimate_sobolev(elems, r), dtype=float)
                new_w = np.array(fresh_est.estimate_weighted_l2(elems, r), dtype=float)
            res.count(('reuse-across-refinement', cname, step, len(elems)), True)
            if old.shape != new.shape or not np.array_equal(old, new) or not np.array_equal(old_w, new_w):
                report(res, 'C09:estimator-reuse-differs-from-fresh:%s' % cname,
                       dict(curve=cname, step=step, leaves=len(elems), refinements=hist,
                            max_abs_diff=float(np.max(np.abs(old - new))) if old.shape == new.shape else None,
                            history='one ErrorEstimator used before and after local refinements of its mesh (serial path)'))
                break
            e = rng.choice(elems)
            ax = rng.choice([0, 1])
            with silence_stdout():
                mesh.refine_axis(e, ax)
            hist.append(dict(elem=describe(e), axis=ax))


def search(res, tier, boost=False):
    rng = seed_rng(res.seed, 'C09s')
    thor = tier != 'quick'
    worst = {}
    seam_demo(res)
    reuse_across_refinement(res, seed_rng(res.seed, 'C09reuse'), tier)
    mult = 2 if boost else 1
    # 1. polynomial residuals, all orders: exact within the order
    n_poly = (6 if not thor else 40) * mult
    for k in range(n_poly):
        cname = ['UnitSquare', 'LShape', 'PiSquare', 'Circle'][k % 4]
        gamma, mesh = search_mesh(rng, cname, rng.choice(['random', 'uniform', 'space']), tier)
        N = (rng.choice([1, 3, 5, 7, 9, 11, 13, 15, 17, 19]), rng.choice([1, 3, 5, 7, 9, 11, 13, 15, 17, 19]),
             rng.choice([1, 3, 5, 7, 9, 11, 13, 15, 17, 19]), rng.choice([1, 3, 5, 7, 9, 11, 13, 15, 17, 19]))
        # skewed order tuples (one rule at a low order, the others high; the residual sits at the exactness limit of
        # each direction separately): an order handed to the wrong rule shows
        skew = [(19, 19, 1, 17), (19, 19, 17, 1), (19, 19, 3, 13), (1, 19, 9, 9), (19, 1, 9, 9), (19, 19, 13, 3)]
        if k < (3 if not thor else len(skew)):
            N = skew[(k + res.seed) % len(skew)]
        coef, dt, dx = pick_poly(rng, N)
        elems = list(mesh.leaf_elements)
        sample = rng.sample(elems, min(len(elems), 4 if not thor else 8))
        check_patches(res, rng, cname, mesh, 'poly', N, poly_residual(coef), 1e-8, sample, worst)
        if k < 2:
            res.sample(dict(kind='polynomial residual', curve=cname, N_poly=N, degree_t=dt, degree_x=dx, leaves=len(elems)))
    # 2. trigonometric residuals in embedded coordinates at order 17 (incl. corners and the seam)
    n_trig = (4 if not thor else 16) * mult
    for k in range(n_trig):
        cname = ['Circle', 'UnitSquare', 'LShape', 'PiSquare'][k % 4]
        mode = ['space', 'uniform', 'random', 'uniform'][k % 4] if k < 4 else rng.choice(['random', 'uniform', 'space'])
        gamma, mesh = search_mesh(rng, cname, mode, tier, fine=True)
        r = trig_residual(rng.choice([0.5, 1.0, 1.5]), rng.choice([-1.0, 0.5, 1.0]), rng.choice([1.0, 2.0]), rng.random())
        elems = list(mesh.leaf_elements)
        L = mesh.gamma_space.gamma_length
        seam_elems = [e for e in elems if e.space_interval[0] == 0 or e.space_interval[1] == L]
        sample = rng.sample(seam_elems, min(len(seam_elems), 2)) + rng.sample(elems, min(len(elems), 3 if not thor else 6))
        check_patches(res, rng, cname, mesh, 'trig', 17, r, 1e-4, sample, worst)
        if k < 2:
            res.sample(dict(kind='trigonometric residual', curve=cname, N_poly=17, leaves=len(elems)))
    # 3. assembly: shortcut vs direct, serial vs pool, symmetries (symmetric meshes, invariant residual)
    plan = [('Circle', 'space', 17, 2), ('UnitSquare', 'uniform', 17, None), ('LShape', 'space', 17, None),
            ('PiSquare', 'uniform', 17, 5)]
    if thor:
        plan += [('Circle', 'uniform', 17, 16), ('UnitSquare', 'space', 9, 1), ('LShape', 'uniform', 17, None)]
    for cname, mode, N, cpu in plan:
        gamma, mesh = search_mesh(rng, cname, mode, tier)
        side = {'UnitSquare': 1.0, 'PiSquare': math.pi}.get(cname, 1.0)
        k = 2 * math.pi / side if cname in ('UnitSquare', 'PiSquare') else 1.5
        r = symmetric_residual(k, CENTRE[cname])
        check_assembly(res, rng, cname, mesh, N, r, worst, pool_cpu=cpu, symmetric=True)
    for k in range((2 if not thor else 8) * mult):
        cname = ['UnitSquare', 'Circle', 'LShape', 'PiSquare'][k % 4]
        gamma, mesh = search_mesh(rng, cname, 'random', tier)
        r = trig_residual(1.0, 0.5, 1.0, rng.random())
        check_assembly(res, rng, cname, mesh, rng.choice([3, 5, 9]), r, worst, pool_cpu=None, symmetric=False)
    # estimator cache files: two DIFFERENT meshes of one problem with equally many elements and the same sequence of element
    # numbers (4x2 and 8x1 root cells; time-then-space vs space-then-time refinement) against ONE cache directory, and the
    # elements of one mesh in two orders: every call returns the indicators of its own elements
    import shutil
    import tempfile
    from src.error_estimator import ErrorEstimator
    from src.mesh import MeshParametrized
    import src.parametrization as Pm_
    cdir = tempfile.mkdtemp(prefix='c09cache_', dir='/tmp')
    try:
        r_c = trig_residual(1.0, 0.5, 1.0, 0.3)
        with silence_stdout():
            gam_c = Pm_.UnitSquare()
            m_a = MeshParametrized(gam_c, initial_time_mesh=[0., 0.5, 1.])                                   # 4 x 2 root cells
            m_b = MeshParametrized(gam_c, initial_space_mesh=[0., .5, 1., 1.5, 2., 2.5, 3., 3.5, 4.])         # 8 x 1 root cells
            m_c = MeshParametrized(gam_c)
            m_d = MeshParametrized(gam_c)
            e0 = list(m_c.leaf_elements)[0]
            for ch in m_c.refine_time(e0):
                pass
            m_c.refine_space(list(m_c.leaf_elements)[-1])
            f0 = list(m_d.leaf_elements)[0]
            m_d.refine_space(f0)
            m_d.refine_time(list(m_d.leaf_elements)[-1])
        for label, meshes in (('root-grids', (m_a, m_b)), ('refinement-order', (m_c, m_d))):
            for mesh_q in meshes:
                with silence_stdout():
                    est_q = ErrorEstimator(mesh_q, N_poly=5, cache_dir=cdir, problem='shared')
                    els_q = list(mesh_q.leaf_elements)
                    got_l2 = np.array(est_q.estimate_weighted_l2(els_q, r_c), dtype=float)
                    got_sl = np.array(est_q.estimate_sobolev(els_q, r_c), dtype=float)
                    ref_q = ErrorEstimator(mesh_q, N_poly=5)
                    want_l2 = np.array([ref_q.weighted_l2(e, r_c) for e in els_q], dtype=float)
                    want_sl = np.array([[ref_q.sobolev_time(e, r_c)[0], ref_q.sobolev_space(e, r_c)[0]] for e in els_q])
                res.count(('estimator-cache', label, id(mesh_q) % 1000), True)
                if got_l2.shape != want_l2.shape or not np.allclose(got_l2, want_l2, rtol=1e-12, atol=0):
                    report(res, 'C09:cache-changes-result:weighted-l2:%s' % label, dict(meshes=label, leaves=len(els_q),
                           note='two meshes with equally many elements and equal element numbers against one cache directory'))
                if got_sl.shape != want_sl.shape or not np.allclose(got_sl, want_sl, rtol=1e-11, atol=0):
                    report(res, 'C09:cache-changes-result:sobolev:%s' % label, dict(meshes=label, leaves=len(els_q)))
    finally:
        shutil.rmtree(cdir, ignore_errors=True)
    res.notes['search_worst_relative_errors'] = {k: float('%.3g' % v) for k, v in sorted(worst.items())}
