"""C20 — the h-h/2 and the hierarchical estimator equal their definitions; Prolongate preserves values."""
import os
import sys
import time as _time
from fractions import Fraction as F

import numpy as np

from ..common import LEAN, VERIF, q2s, run_driver, seed_rng, silence_stdout, write_if_changed
from ..estimlib import SingularMatrix, SynthOps, Sqrt, exact_solve, patched_np, qarr, quadrants, rect_of, unq
from ..meshgen import INITIAL_GRIDS, op_json, op_line, random_op
from ..meshlib import PyMesh, all_elements, canon

from ..meshops_tie import PROP_MOD_C20 as MESHOPS_PROP_MOD, TRUSTED as MESHOPS_TRUSTED, generated_twins, translate_meshops  # noqa: E402

from ..estimgen_tie import PROP_MOD as ESTIMGEN_PROP_MOD, TRUSTED as ESTIMGEN_TRUSTED, prelude_requests, translate_estimgen  # noqa: E402

PROP_MODS = ['Stbem.Props.C20', 'Stbem.Props.C20Solve', MESHOPS_PROP_MOD, ESTIMGEN_PROP_MOD]
RULE = ('correspondence: the REAL HierarchicalErrorEstimator.estimate / HH2ErrorEstimator.estimate / '
        'DummyElement.uniform_refinement / Prolongate run in-process on exact data and are compared textually with the '
        'Lean model: (1) children rectangles of uniform_refinement on leaves of random real meshes (Fraction '
        'coordinates) vs `quarters` in the generated order; (2) estimators with synthetic exact leaves '
        '(bilform_matrix / linform_vector / g = rational functions of the element rectangles; module-level `np` '
        'replaced by a stand-in whose zeros() is an object array of Fractions, linalg.solve an exact solver and sqrt a '
        'token, all numbers being Fractions that absorb the float literal 0.5 exactly; everything else is NumPy) vs `hierEstimate` / `hh2Sq` fed with the matrices the leaves returned, for '
        'all four data configurations (g, M0 present or not), random and Galerkin densities, extension-solves-fine-'
        'problem cases and failing-assertion cases; (3) Prolongate on random real mesh histories (coarse = earlier '
        'leaf set / random antichain cut / same list / list without ancestor) vs `prolongate` on the replayed model '
        'mesh.  Every estimator request is answered a second time by the functions REGENERATED from the two estimator sources '
        '(translate/estimgen.py -> Gen/EstimGen.lean, `gest quarters/kids/hier/hh2`: elements built from the rectangles by the '
        'vertex convention, leaves = stubs handing out the recorded arrays) and must give the same answer; the Python / NumPy '
        'prelude of the generated file is executed against NumPy itself (`gest np`: @, -, +=, -=, repeat, max, min, abs, '
        'np.array of pairs, position map; shape errors and length-1 broadcasting included).  Every exact run is also compared with the definition computed geometrically (quadrants LL,LR,UL,UR, '
        'fine elements in a different order) — a difference there is a VIOLATION with the input.  '
        'search (floats, no model): real SingleLayerOperator on UnitSquare/Circle/LShape meshes; indicators and '
        'h-h/2 recomputed with single-pair bilform() on a replayed copy of the mesh that was REALLY bisected '
        '(children matched by rectangle), 1e-9 relative; serial vs pool path; Prolongate against the parent chain and '
        'rectangle containment.  non-trivial = non-uniform mesh with >= 3 elements (estimators), a fine element >= 2 '
        'generations below its coarse ancestor (Prolongate); distinct = distinct (mesh history, element list, '
        'operator parameters, density, configuration).')
TRUSTED = [
    'Lean 4.33 kernel; axioms propext, Classical.choice, Quot.sound only',
    'translator translate/consts.py (ast of the two estimator sources -> Gen/Consts.lean: child boxes in source order, '
    'sign patterns, combination, repeat factor); unsupported source shapes raise',
    'hand-written model lean/Stbem/Model/Estim.lean, tied by this correspondence; `solve` of the model is '
    'self-checking (returns y only if A y = b) and proved complete: for every square matrix that is injective on '
    'vectors / has non-zero determinant it returns the unique solution, `none` only for singular matrices '
    '(solve_complete, solve_none_singular; Props/C20Solve.lean: solve_complete_det, regular_iff_det)',
    'harness: harness/estimlib.py (np stand-in, exact solver, synthetic operators), Driver/EstimCmd.lean parser',
    'Python semantics: Fraction exact; NumPy object arrays apply Python operators element-wise; np.repeat order; '
    'dict keyed by object identity for DummyElement',
    'not modelled: binary64 rounding in the production path (covered only by the 1e-9 float search); np.linalg.solve '
    '(LAPACK) is replaced by an exact solver in the correspondence run; multiprocessing',
    MESHOPS_TRUSTED,
    ESTIMGEN_TRUSTED,
]
ASSUMPTIONS = [
    'the leaves bilform_matrix(test, trial)[i, j] = <V 1_trial_j, 1_test_i>, linform_vector, g(elems)_j = <g, 1_j> are '
    'pairings with indicator functions (C01/C16); by linearity (theorem pairing_linear) the sums over the four '
    'children are the pairings with the two-level functions',
    'coarse lists passed to Prolongate contain no element twice (the dict comprehension would keep the last index, the '
    'model the first)',
    'vertex convention of Element (t0,x0),(t0,x1),(t1,x1),(t1,x0) (asserted in Element.__init__, re-checked by the '
    'translator)',
]

sys.path.insert(0, os.path.join(VERIF, 'translate'))


def translate(res):
    """three translators; each one runs even if another one cannot translate (every failure is a broken obligation)"""
    import traceback
    translate.consts = translate.estimgen = None
    failures = []

    def consts():
        import consts as T
        c = T.generate(os.environ.get('STBEM_REPO', '/repo'), os.path.join(LEAN, 'Stbem', 'Gen'), write_if_changed)
        translate.consts = c
        res.notes['child_boxes'] = [[q2s(v) for v in b] for b in c['boxes']]
        res.notes['patterns'] = c['patterns']

    def estimgen():
        # both estimator files regenerated statement by statement (Gen/EstimGen.lean; tie: Props/EstimTie.lean)
        translate.estimgen = translate_estimgen(res)
    # Prolongate (and the refinement drivers the mesh histories run through) regenerated from src/mesh.py
    for name, fn in (('translate/consts.py', consts), ('translate/meshops.py', lambda: translate_meshops(res)),
                     ('translate/estimgen.py', estimgen)):
        try:
            fn()
        except Exception as exc:
            failures.append((name, exc, traceback.format_exc()))
    for name, exc, tb in failures[1:]:
        res.broken_obligation('translator %s' % name, '%s\n%s' % (exc, tb))
    if failures:
        name, exc, tb = failures[0]
        raise type(exc)('%s: %s' % (name, exc)) from exc


# ------------------------------------------------------------------------------------------------
class _Capped:
    """at most three replay files per violation key"""
    def __init__(self, res):
        self._res, self._n = res, {}

    def violation(self, key, data, **kw):
        self._n[key] = self._n.get(key, 0) + 1
        if self._n[key] <= 3:
            self._res.violation(key, data, **kw)

    def __getattr__(self, name):
        return getattr(self._res, name)


def enc(xs):
    xs = list(xs)
    return ','.join(q2s(x) for x in xs) if xs else '-'


def enc_mat(m):
    rows = [enc(r) for r in m]
    return ';'.join(rows) if rows else '-'


def enc_rects(rs):
    return ';'.join(enc(r) for r in rs)


def rand_q(rng, lo=-3, hi=3, dens=(1, 2, 3, 4, 5, 8)):
    d = rng.choice(dens)
    return F(rng.randint(lo * d, hi * d), d)


def rand_par(rng, bad=False):
    par = dict(w=F(rng.randint(1, 12), rng.choice([1, 2, 3])), r=F(rng.randint(0, 6), rng.choice([1, 2, 5])),
               ft=rand_q(rng, 0, 2), fx=rand_q(rng, 0, 2), d=F(rng.randint(-2, 2), rng.choice([4, 8, 16])),
               g0=rand_q(rng), g1=rand_q(rng), g2=rand_q(rng), m0=rand_q(rng), m1=rand_q(rng), m2=rand_q(rng))
    if bad:  # scalings become non-positive: the assertion of the code must fire
        par['w'] = F(rng.randint(-5, 0))
        par['r'] = F(0)
        par['d'] = F(0)
    return par


def random_mesh(rng, max_leaves, steps):
    """real src.mesh.Mesh on Fraction coordinates after a random history"""
    glue, X, T = INITIAL_GRIDS[rng.randrange(len(INITIAL_GRIDS))]
    pm = PyMesh.create(glue, X, T)
    ops = []
    for _ in range(steps):
        if len(pm.mesh.leaf_elements) >= max_leaves:
            break
        op = random_op(rng, pm, ['rt', 'rs', 'rb'], rng.choice([0.2, 0.5, 0.8]))
        if pm.apply(op).startswith('err'):
            break
        ops.append(op)
    return pm, dict(glue=glue, X=[q2s(x) for x in X], T=[q2s(t) for t in T], ops=[op_json(o) for o in ops]), (glue, X, T, ops)


def fobj(xs):
    a = np.empty(len(xs), dtype=object)
    for i, x in enumerate(xs):
        a[i] = F(x)
    return a


def nonuniform(elems):
    return len({tuple(e.levels) for e in elems if hasattr(e, 'levels')}) > 1


# ------------------------------------------------------------------------------------------------
# definitions computed geometrically (independent of the code under test and of the model)
def hier_definition(ops, coarse, Phi, use_g, use_m0):
    out = []
    for r in coarse:
        q = quadrants(r)  # LL, LR, UL, UR
        rhs = [F(0)] * 4
        if use_g:
            rhs = [a + b for a, b in zip(rhs, ops.g_vec(q))]
        if use_m0:
            rhs = [a - b for a, b in zip(rhs, ops.m0_vec(q))]
        vphi = [sum((ops.kernel(qj, c) * p for c, p in zip(coarse, Phi)), F(0)) for qj in q]
        psis = [[1, 1, -1, -1],   # +1 on the lower half in time
                [1, -1, 1, -1],   # +1 on the left half in space
                [1, -1, -1, 1]]   # product
        e = []
        for psi in psis:
            num = sum((s * (a - b) for s, a, b in zip(psi, rhs, vphi)), F(0))
            den = sum((psi[i] * psi[j] * ops.kernel(q[i], q[j]) for i in range(4) for j in range(4)), F(0))
            if den <= 0:
                return 'err'
            e.append(num * num / den)
        out.append((e[0] + e[2] / 2, e[1] + e[2] / 2))
    return out


def parent_index(coarse, q):
    hits = [i for i, c in enumerate(coarse) if c[0] <= q[0] and q[1] <= c[1] and c[2] <= q[2] and q[3] <= c[3]]
    return hits


def hh2_definition(ops, coarse, Phi, rhs_fun, rng):
    fine = []
    for r in coarse:
        fine += list(reversed(quadrants(r)))
    rng.shuffle(fine)
    A = ops.matrix(fine, fine)
    rhs = rhs_fun(fine)
    try:
        y = exact_solve(A, rhs)
    except SingularMatrix:
        return 'singular'
    p = []
    for q in fine:
        hits = parent_index(coarse, q)
        p.append(Phi[hits[0]])
    d = [a - b for a, b in zip(y, p)]
    return sum((d[i] * A[i, j] * d[j] for i in range(len(d)) for j in range(len(d))), F(0))


# ------------------------------------------------------------------------------------------------
def correspond(res, tier):
    import importlib
    import src.hierarchical_error_estimator as HM
    import src.h_h2_error_estimator as H2M
    import src.mesh as MM
    importlib.reload(MM)
    importlib.reload(HM)
    importlib.reload(H2M)
    res = _Capped(res)
    t_start = _time.time()
    rng = seed_rng(res.seed, 'C20')
    lines, expect, where = [], [], []

    def add(line, want, info):
        lines.append(line)
        expect.append(want)
        where.append(info)

    # --- 0. the built driver carries the constants that were just generated
    c = getattr(translate, 'consts', None)
    if c is not None:
        want = '|'.join([';'.join(enc(b) for b in c['boxes']), ';'.join(','.join(str(v) for v in p) for p in c['patterns']),
                         ';'.join(enc(r) for r in c['combine']), str(c['repeat'])])
        add('est consts', want, dict(kind='consts'))
    eg = getattr(translate, 'estimgen', None)
    if eg is not None:
        # the built driver carries the tables / float constants of the estimators as just regenerated
        tabs = dict(eg.get('_tables', []))
        want = ';'.join(','.join(str(v) for v in p) for p in tabs.get('HierarchicalErrorEstimator.estimate_table1', [])) + '|1/2'
        add('gest consts', want, dict(kind='consts [REGENERATED from the estimator sources: gest]'))
    GEN = ' [REGENERATED from the estimator sources: gest]'

    quick = tier == 'quick'
    # --- 1. + 2. estimators on exact data
    n_cases = 100 if quick else 1000
    for case in range(n_cases):
        which = 'hier' if case % 2 == 0 else 'hh2'
        max_leaves = rng.choice([1, 2, 3, 5, 8, 12] if which == 'hier' else [1, 2, 3, 4, 6, 8 if quick else 14])
        pm, hist, _ = random_mesh(rng, max_leaves, rng.randint(0, 14))
        elems = list(pm.mesh.leaf_elements)
        mode = rng.choice(['leaves', 'leaves', 'subset', 'perm'])
        if mode == 'subset' and len(elems) > 1:
            elems = rng.sample(elems, rng.randint(1, len(elems)))
        elif mode == 'perm':
            rng.shuffle(elems)
        elems = elems[:max_leaves + 4]
        n = len(elems)
        coarse = [rect_of(e) for e in elems]
        use_g, use_m0 = [(True, False), (False, True), (True, True), (False, False)][(case // 2) % 4]
        bad = which == 'hier' and case % 16 == 14
        ops = SynthOps(rand_par(rng, bad=bad))
        dens = rng.choice(['random', 'galerkin', 'solves'] if which == 'hh2' else ['random', 'galerkin'])

        def rhs_of(rects, ops=ops, use_g=use_g, use_m0=use_m0):
            v = [F(0)] * len(rects)
            if use_g:
                v = [a + b for a, b in zip(v, ops.g_vec(rects))]
            if use_m0:
                v = [a - b for a, b in zip(v, ops.m0_vec(rects))]
            return v
        Phi = fobj([rand_q(rng) for _ in range(n)])
        if dens == 'galerkin':
            try:
                Phi = exact_solve(ops.matrix(coarse, coarse), rhs_of(coarse))
            except SingularMatrix:
                pass
        g_fun = ops.g if use_g else None
        if dens == 'solves':
            # data for which the piecewise-constant extension of Phi solves the fine problem exactly
            use_g = True

            def g_fixed(elems_fine, ops=ops, coarse=coarse, Phi=Phi, use_m0=use_m0):
                rects = [rect_of(e) for e in elems_fine]
                p = [Phi[parent_index(coarse, q)[0]] for q in rects]
                A = ops.matrix(rects, rects)
                v = fobj([sum((A[i, j] * p[j] for j in range(len(p))), F(0)) for i in range(len(p))])
                if use_m0:
                    v = v + ops.m0_vec(rects)
                ops.calls.append(('g', rects, None, None, v, list(elems_fine), None))
                return qarr(v)
            g_fun = g_fixed
            # parents must be unique for this construction
            if any(len(parent_index(coarse, q)) != 1 for r in coarse for q in quadrants(r)):
                dens = 'random'
                g_fun = ops.g
        info = dict(kind=which, history=hist, elems=[e.glob_idx for e in elems], par={k: q2s(v) for k, v in ops.par.items()},
                    Phi=[q2s(v) for v in Phi], g=use_g, M0=use_m0, density=dens)
        key = (which, repr(hist), tuple(info['elems']), tuple(sorted(info['par'].items())), tuple(info['Phi']), use_g, use_m0, dens)
        res.count(key, nontrivial=(n >= 3 and nonuniform(elems)))
        res.bump('tie_' + which)

        # (1) children of the real uniform_refinement vs the model
        kids = HM.DummyElement.uniform_refinement(elems)
        flat = [rect_of(ch) for chs in kids for ch in chs]
        add('est quarters ' + enc_rects(coarse), enc_rects(flat), dict(info, kind='quarters'))
        add('gest quarters ' + enc_rects(coarse), enc_rects(flat), dict(info, kind='quarters' + GEN))
        # vertices of the children (coordinates, which of them are new = idx -1), identities: all distinct objects; the
        # generated functions number them by allocation: len(elems) + 4 i + k
        all_kids = [ch for chs in kids for ch in chs]
        if len({id(ch) for ch in all_kids}) != len(all_kids) or any(id(ch) in {id(e) for e in elems} for ch in all_kids):
            res.violation('C20:child-identity', dict(info, note='uniform_refinement returns the same object twice'))
        add('gest kids ' + enc_rects(coarse),
            ';'.join('%d:%s' % (n + j, '|'.join('%s,%s,%d' % (q2s(v.t), q2s(v.x), -1 if v.idx == -1 else 0) for v in ch.vertices))
                     for j, ch in enumerate(all_kids)) + ' %d' % (n + len(all_kids)), dict(info, kind='children' + GEN))
        for e, chs in zip(elems, kids):
            if [rect_of(ch) for ch in chs] != quadrants(rect_of(e)):
                res.violation('C20:child-order', dict(info, element=[q2s(v) for v in rect_of(e)],
                                                      children=[[q2s(v) for v in rect_of(ch)] for ch in chs],
                                                      expected_order='LL,LR,UL,UR'))
            if any(ch.gamma_space is not e.gamma_space for ch in chs):
                res.violation('C20:child-gamma', dict(info))

        # (2) the estimator itself
        if which == 'hier':
            with patched_np(HM), silence_stdout():
                try:
                    est = HM.HierarchicalErrorEstimator(SL=ops, M0=ops if use_m0 else None, g=g_fun)
                    got = est.estimate(elems, qarr(Phi))
                    got = [(unq(row[0]), unq(row[1])) for row in got]
                except AssertionError:
                    got = 'err'
            bil = [cl for cl in ops.calls if cl[0] == 'bilform_matrix']
            if not bil or bil[0][1] != flat or bil[0][2] != coarse:
                res.broken_obligation('correspondence C20: hierarchical estimator does not assemble on (children, elems)',
                                      repr(info)[:2000])
                continue
            mat = bil[0][4]
            Ss = [b[4] for b in bil[1:]]
            for i, b in enumerate(bil[1:]):
                if b[1] != flat[4 * i:4 * i + 4] or b[2] != flat[4 * i:4 * i + 4]:
                    res.broken_obligation('correspondence C20: local block is not assembled on the children of element i',
                                          repr(dict(info, i=i))[:2000])
            for i in range(len(Ss), n):  # not reached because an assertion fired earlier
                Ss.append(ops.matrix(flat[4 * i:4 * i + 4], flat[4 * i:4 * i + 4]))
            gv = next((cl[4] for cl in ops.calls if cl[0] == 'g'), None)
            mv = next((cl[4] for cl in ops.calls if cl[0] == 'linform_vector'), None)
            want = 'err' if got == 'err' else ';'.join('%s,%s' % (q2s(a), q2s(b)) for a, b in got)
            add('est hier %s %s %s %s %s' % (enc_mat(mat), enc(Phi), enc(gv) if gv is not None else 'none',
                                             enc(mv) if mv is not None else 'none', '|'.join(enc_mat(S) for S in Ss)),
                want, info)
            add('gest hier %s %s %s %s %s %s' % (enc_rects(coarse), enc_mat(mat), enc(Phi), enc(gv) if gv is not None else 'none',
                                                enc(mv) if mv is not None else 'none', '|'.join(enc_mat(S) for S in Ss)),
                want, dict(info, kind='hier' + GEN))
            if got == 'err':
                res.bump('hier_assertion_cases')
            # definition
            ref = hier_definition(ops, coarse, Phi, use_g, use_m0)
            if ref != got:
                res.violation('C20:hier-definition', dict(info, rects=[[q2s(v) for v in r] for r in coarse],
                                                          code=str(got)[:1500], definition=str(ref)[:1500]))
            if got != 'err' and any(v < 0 for row in got for v in row):
                res.violation('C20:hier-negative', dict(info, code=str(got)[:1500]))
            if case < 4:
                res.sample(dict(kind='hier', n=n, g=use_g, M0=use_m0, density=dens, indicators=want[:200]))
        else:
            use_mp = rng.random() < 0.5
            with patched_np(H2M), silence_stdout():
                try:
                    est = H2M.HH2ErrorEstimator(SL=ops, M0=ops if use_m0 else None, g=g_fun, use_mp=use_mp)
                    got = est.estimate(elems, qarr(Phi))
                    if isinstance(got, Sqrt):
                        got = Sqrt(unq(got.radicand))
                except AssertionError:
                    got = 'err'
                except SingularMatrix:
                    got = 'err'
            bil = [cl for cl in ops.calls if cl[0] == 'bilform_matrix']
            if not bil or bil[0][1] != flat or bil[0][2] != flat or bil[0][3] != use_mp:
                res.broken_obligation('correspondence C20: h-h/2 estimator does not assemble on (children, children)',
                                      repr(info)[:2000])
                continue
            A = bil[0][4]
            gv = next((cl[4] for cl in ops.calls if cl[0] == 'g'), None)
            mv = next((cl[4] for cl in ops.calls if cl[0] == 'linform_vector'), None)
            if isinstance(got, Sqrt):
                want = q2s(got.radicand)
            elif got == 'err':
                want = 'err'
            else:
                res.broken_obligation('correspondence C20: h-h/2 does not return np.sqrt(...)', repr(got)[:300])
                continue
            add('est hh2 %s %s %s %s' % (enc_mat(A), enc(Phi), enc(gv) if gv is not None else 'none',
                                         enc(mv) if mv is not None else 'none'), want, info)
            add('gest hh2 %s %s %s %s %s' % (enc_rects(coarse), enc_mat(A), enc(Phi), enc(gv) if gv is not None else 'none',
                                            enc(mv) if mv is not None else 'none'), want, dict(info, kind='hh2' + GEN))
            if want == 'err':
                ref = 'singular'
                if all(len(parent_index(coarse, q)) == 1 for r in coarse for q in quadrants(r)):
                    ref = hh2_definition(ops, coarse, Phi, rhs_of if dens != 'solves' else (lambda rects: [F(0)] * len(rects)), rng)
                if ref != 'singular':
                    res.violation('C20:hh2-raises', dict(info, rects=[[q2s(v) for v in r] for r in coarse],
                                                         note='the estimator raised although the fine problem is solvable'))
            if want != 'err':
                if dens == 'solves':
                    res.bump('hh2_solves_cases')
                    if got.radicand != 0:
                        res.violation('C20:hh2-nonzero-on-solution', dict(info, radicand=want))

                    def rhs_fun(rects, ops=ops, coarse=coarse, Phi=Phi, use_m0=use_m0):
                        p = [Phi[parent_index(coarse, q)[0]] for q in rects]
                        A2 = ops.matrix(rects, rects)
                        return [sum((A2[i, j] * p[j] for j in range(len(p))), F(0)) for i in range(len(p))]
                else:
                    rhs_fun = rhs_of
                if all(len(parent_index(coarse, q)) == 1 for r in coarse for q in quadrants(r)):
                    ref = hh2_definition(ops, coarse, Phi, rhs_fun, rng)
                    if ref != 'singular' and ref != got.radicand:
                        res.violation('C20:hh2-definition', dict(info, rects=[[q2s(v) for v in r] for r in coarse],
                                                                 code_squared=want, definition_squared=q2s(ref)))
            if case < 6:
                res.sample(dict(kind='hh2', n=n, g=use_g, M0=use_m0, density=dens, squared=want[:80]))

    res.notes['t_tie_estimators_s'] = round(_time.time() - t_start, 1)
    # --- 2b. the Python / NumPy prelude of the generated estimator file against Python / NumPy itself
    for line, want, what in prelude_requests(seed_rng(res.seed, 'C20np'), 40 if quick else 300):
        add(line, want, dict(kind='prelude of Gen/EstimGen.lean vs NumPy: ' + what))
        res.bump('tie_numpy_prelude')
    # --- 3. Prolongate on real histories
    n_hist = 16 if quick else 150
    for h in range(n_hist):
        glue, X, T = INITIAL_GRIDS[rng.randrange(len(INITIAL_GRIDS))]
        pm = PyMesh.create(glue, X, T)
        hist_lines = ['mesh init %d %s %s' % (glue, enc(X), enc(T))]
        hist_expect = ['ok %d' % len(pm.mesh.leaf_elements)]
        snaps = [[e.glob_idx for e in pm.mesh.leaf_elements]]
        ops_done = []
        errored = False
        kinds = ['rt', 'rs', 'rb', 'rt', 'rs', 'diso', 'daniso'] if h % 3 == 0 else ['rt', 'rs', 'rb']
        for k in range(rng.randint(3, 25 if quick else 60)):
            if len(pm.mesh.leaf_elements) > 120:
                break
            op = random_op(rng, pm, kinds, rng.choice([0.2, 0.5, 0.8]))
            out = pm.apply(op)
            hist_lines.append(op_line(op))
            hist_expect.append(canon(out))
            ops_done.append(op)
            if out.startswith('err'):
                # a failed operation leaves the real mesh half-refined while the model keeps the old state: such a
                # history is not used for Prolongate
                errored = True
                break
            snaps.append([e.glob_idx for e in pm.mesh.leaf_elements])
        hist = dict(glue=glue, X=[q2s(x) for x in X], T=[q2s(t) for t in T], ops=[op_json(o) for o in ops_done])
        for ln, ex in zip(hist_lines, hist_expect):
            add(ln, ex, dict(kind='mesh-history', history=hist))
        if errored:
            res.bump('prolong_histories_skipped')
            continue
        allel = {e.glob_idx: e for e in all_elements(pm.mesh)}
        leaves = [e.glob_idx for e in pm.mesh.leaf_elements]
        for trial in range(6):
            mode = ['snapshot', 'cut', 'same', 'missing', 'snapshot', 'cut'][trial]
            if mode == 'snapshot':
                coarse = list(rng.choice(snaps))
                fine = list(leaves)
            elif mode == 'cut':
                coarse = []
                stack = list(pm.mesh.roots)
                below = []
                while stack:
                    e = stack.pop()
                    if e.children and rng.random() < 0.6:
                        stack.extend(e.children)
                    else:
                        coarse.append(e.glob_idx)
                        sub = [e]
                        while sub:
                            s = sub.pop()
                            below.append(s.glob_idx)
                            sub.extend(s.children)
                fine = rng.sample(below, min(len(below), rng.randint(1, 40)))
            elif mode == 'same':
                coarse = list(rng.choice(snaps))
                fine = list(coarse)
            else:
                coarse = list(leaves)
                rng.shuffle(coarse)
                coarse = coarse[:max(1, len(coarse) // 2)]
                fine = list(leaves)
            rng.shuffle(coarse)
            if mode != 'same':
                rng.shuffle(fine)
            else:
                fine = list(coarse)
            vec = np.array([rng.randint(-64, 64) / 8.0 for _ in coarse])
            ec = [allel[i] for i in coarse]
            ef = [allel[i] for i in fine]
            try:
                got = MM.Prolongate(vec, ec, ef)
                want = enc(got)
            except AssertionError:
                got, want = None, 'err'
            except Exception as exc:  # anything else is not modelled: reported through the oracle below
                got, want = None, 'err:' + type(exc).__name__
            info = dict(kind='prolong', history=hist, coarse=coarse, fine=fine, vec=[float(v) for v in vec], mode=mode)
            add('mesh prolong %s %s %s' % (','.join(map(str, coarse)), enc(vec), ','.join(map(str, fine))), want, info)
            # property on the real objects: value of the unique coarse ancestor-or-self
            cset = {id(e): i for i, e in enumerate(ec)}
            depth = 0
            expect_err = False
            exp = []
            for e in ef:
                a, dd = e, 0
                while a is not None and id(a) not in cset:
                    a, dd = a.parent, dd + 1
                if a is None:
                    expect_err = True
                    break
                depth = max(depth, dd)
                ra, rf = rect_of(a), rect_of(e)
                if not (ra[0] <= rf[0] and rf[1] <= ra[1] and ra[2] <= rf[2] and rf[3] <= ra[3]):
                    res.violation('C20:prolongate-ancestor-not-containing', dict(info))
                exp.append(vec[cset[id(a)]])
            res.count(('prolong', repr(hist), tuple(coarse), tuple(fine)), nontrivial=depth >= 2)
            res.bump('tie_prolong')
            if expect_err != (got is None):
                res.violation('C20:prolongate-assert', dict(info, expected_error=expect_err, raised=got is None))
            elif got is not None and [float(v) for v in got] != [float(v) for v in exp]:
                res.violation('C20:prolongate-value', dict(info, got=[float(v) for v in got], expected=[float(v) for v in exp]))
            if mode == 'same' and got is not None and [float(v) for v in got] != [float(v) for v in vec]:
                res.violation('C20:prolongate-identity', dict(info))

    res.notes['t_tie_python_s'] = round(_time.time() - t_start, 1)
    # every mesh request (histories and Prolongate) is put to the definitions regenerated from src/mesh.py as well
    twins, origin = generated_twins(lines)
    for tw, i in zip(twins, origin):
        add(tw, expect[i], dict(where[i], kind=str(where[i].get('kind')) + ' [REGENERATED from src/mesh.py: gmesh]'))
    res.notes['generated_model_lines'] = len(twins)
    out = run_driver(lines)
    res.notes['t_tie_total_s'] = round(_time.time() - t_start, 1)
    res.notes['model_lines'] = len(lines)
    if len(out) != len(lines):
        res.broken_obligation('correspondence C20: driver output length', '%d vs %d' % (len(out), len(lines)))
        return
    for line, want, got, info in zip(lines, expect, out, where):
        if canon(got) != canon(want):
            res.broken_obligation('correspondence C20: model and code differ (%s)' % info.get('kind'),
                                  repr(dict(info, line=line[:600], python=want[:800], model=got[:800]))[:6000])
            break


# ------------------------------------------------------------------------------------------------
# failing-input search on the real operators (floats; no model involved)
def _replay_param_mesh(gamma_name, T, seq):
    from src.mesh import MeshParametrized
    import src.parametrization as P
    mesh = MeshParametrized(getattr(P, gamma_name)(), initial_time_mesh=list(T))
    for gid, ax in seq:
        e = next(x for x in all_elements(mesh) if x.glob_idx == gid)
        if e.children:
            continue
        mesh.refine_axis(e, ax)
    return mesh


def _leaf_descendants(e):
    out, st = [], [e]
    while st:
        x = st.pop()
        if x.children:
            st.extend(x.children)
        else:
            out.append(x)
    return out


def _really_bisect(mesh):
    """Bisects every leaf of `mesh` once in time and once in space with the real refinement routines; returns for
    every original leaf (by glob_idx) its four real grandchildren as dict rect -> Element."""
    orig = list(mesh.leaf_elements)
    for e in sorted(orig, key=lambda x: x.level_time):
        if not e.children:
            mesh.refine_time(e)
    for e in sorted(list(mesh.leaf_elements), key=lambda x: x.level_space):
        if not e.children:
            mesh.refine_space(e)
    table = {}
    for e in orig:
        table[e.glob_idx] = {rect_of(x): x for x in _leaf_descendants(e)}
    return orig, table


def _rel(a, b):
    return abs(a - b) / max(abs(a), abs(b), 1e-300)


def search(res, tier, boost=False):
    import importlib
    import src.hierarchical_error_estimator as HM
    import src.h_h2_error_estimator as H2M
    import src.mesh as MM
    from src.single_layer import SingleLayerOperator
    importlib.reload(HM)
    importlib.reload(H2M)
    res = _Capped(res)
    t_start = _time.time()
    rng = seed_rng(res.seed, 'C20s')
    quick = tier == 'quick'
    n_cases = (12 if quick else 40) * (2 if boost else 1)
    tol = 1e-9

    class M0Stub:
        def __init__(self, c):
            self.c = c

        def linform_vector(self, elems=None, use_mp=False):
            return np.array([self.c[0] * e.h_t * e.h_x * (1 + self.c[1] * e.time_interval[0] + self.c[2] * e.space_interval[1])
                             for e in elems])

    # LARGE element lists (N = 128 ... 200, not a multiple of 64; late adaptive iterations) with a cheap synthetic single-layer
    # stand-in: every element's indicators against the definition |<rhs - V Phi, psi>|^2 / <V psi, psi>, psi = time split,
    # space split, checkerboard (shared half-half), children in the order LL, LR, UL, UR
    class SLStub:
        """positive, smooth, non-symmetric stand-in for <V 1_trial, 1_test> (no causality needed for the definition)"""
        def bilform_matrix(self, elems_test=None, elems_trial=None, use_mp=False, **kw):
            tt = np.array([[0.5 * (e.time_interval[0] + e.time_interval[1]), 0.5 * (e.space_interval[0] + e.space_interval[1]), e.h_t * e.h_x] for e in elems_test], dtype=float)
            rr = np.array([[0.5 * (e.time_interval[0] + e.time_interval[1]), 0.5 * (e.space_interval[0] + e.space_interval[1]), e.h_t * e.h_x] for e in elems_trial], dtype=float)
            d2 = (tt[:, None, 0] - rr[None, :, 0])**2 + (tt[:, None, 1] - rr[None, :, 1])**2
            return tt[:, None, 2] * rr[None, :, 2] * (np.exp(-4 * d2) + 0.3 * np.exp(-d2 - 0.2 * (tt[:, None, 0] - rr[None, :, 0])))
    for big in range(1 if quick else 3):
        mesh = _replay_param_mesh('UnitSquare', [0, 1], [])
        target = rng.choice([131, 149, 197, 263])       # not multiples of 64 (nor of N // 64)
        while len(mesh.leaf_elements) < target:
            e = rng.choice(list(mesh.leaf_elements))
            mesh.refine_axis(e, rng.randint(0, 1))
        elems = list(mesh.leaf_elements)[:target] if len(mesh.leaf_elements) > target else list(mesh.leaf_elements)
        n = len(elems)
        gc = [rng.uniform(0.5, 2), rng.uniform(-1, 1), rng.uniform(-1, 1)]

        def g_big(es, gc=gc):
            return np.array([gc[0] * e.h_t * e.h_x * (1 + gc[1] * e.time_interval[1] + gc[2] * e.space_interval[0]) for e in es])
        stub = SLStub()
        Phi = np.array([rng.uniform(-1, 1) for _ in range(n)])
        with silence_stdout():
            got = np.array(HM.HierarchicalErrorEstimator(SL=stub, M0=None, g=g_big).estimate(elems, Phi), dtype=float)
        kids = [k for ks in HM.DummyElement.uniform_refinement(elems) for k in ks]
        # children order by geometry (independent of the code's order): LL, LR, UL, UR
        worst_big = 0.0
        for i, e in enumerate(elems):
            ks = sorted(kids[4 * i:4 * i + 4], key=lambda k: (k.time_interval[0], k.space_interval[0]))
            r = g_big(ks) - stub.bilform_matrix(ks, elems) @ Phi
            S = stub.bilform_matrix(ks, ks)
            val = {}
            for nm, psi in (('t', np.array([1., 1., -1., -1.])), ('x', np.array([1., -1., 1., -1.])), ('c', np.array([1., -1., -1., 1.]))):
                val[nm] = float(np.dot(r, psi))**2 / float(psi @ S @ psi)
            want = (val['t'] + 0.5 * val['c'], val['x'] + 0.5 * val['c'])
            res.count(('hier-large', n, i), True)
            for col in (0, 1):
                err = abs(got[i, col] - want[col]) / max(abs(want[col]), 1e-300)
                worst_big = max(worst_big, err)
                if err > 1e-9:
                    res.violation('C20:hier-definition:large-list', dict(n=n, element=i, column=['time', 'space'][col], code=float(got[i, col]),
                                  definition=float(want[col]), relative_error=float(err), note='synthetic single-layer stand-in; N >= 128'))
                    break
            else:
                continue
            break
        res.notes['hier_large_worst'] = max(res.notes.get('hier_large_worst', 0.0), worst_big)
    for case in range(n_cases):
        gamma = rng.choice(['UnitSquare', 'UnitSquare', 'Circle', 'LShape'])
        T = rng.choice([[0, 1], [0, 1], [0, 0.5, 1]])
        target = rng.choice([4, 6, 8, 12] if quick else [4, 8, 16, 24, 40])
        if not quick and case % 10 == 9:
            target = 150
        # random history, recorded so that it can be replayed on a second mesh object
        mesh = _replay_param_mesh(gamma, T, [])
        seq = []
        guard = 0
        while len(mesh.leaf_elements) < target and guard < 400:
            guard += 1
            e = rng.choice(list(mesh.leaf_elements))
            ax = rng.randint(0, 1)
            seq.append((e.glob_idx, ax))
            mesh.refine_axis(e, ax)
        elems = list(mesh.leaf_elements)
        n = len(elems)
        use_g, use_m0 = [(True, False), (False, True), (True, True), (False, False)][case % 4]
        gc = [rng.uniform(0.5, 2), rng.uniform(-1, 1), rng.uniform(-1, 1)]

        def g_fun(es, gc=gc):
            return np.array([gc[0] * e.h_t * e.h_x * (1 + gc[1] * e.time_interval[1] + gc[2] * e.space_interval[0]) for e in es])
        m0 = M0Stub([rng.uniform(0.5, 2), rng.uniform(-1, 1), rng.uniform(-1, 1)])
        info = dict(gamma=gamma, T=T, refinements=seq, g=use_g, M0=use_m0, n=n)
        with silence_stdout():
            SL = SingleLayerOperator(mesh)
            matc = SL.bilform_matrix(elems, elems, use_mp=False)

        def rhs_of(es):
            v = np.zeros(len(es))
            if use_g:
                v += g_fun(es)
            if use_m0:
                v -= m0.linform_vector(elems=es)
            return v
        if case % 2 == 0:
            Phi = np.array([rng.uniform(-1, 1) for _ in range(n)])
            dens = 'random'
        else:
            Phi = np.linalg.solve(matc, rhs_of(elems))
            dens = 'galerkin'
        info['density'] = dens
        info['Phi'] = [float(v) for v in Phi]
        # ---- the real estimators
        do_hh2 = n <= (16 if quick else 60) or (target == 150 and case == 9)
        hier = hh2_serial = hh2_pool = None
        with silence_stdout():
            try:
                hier = HM.HierarchicalErrorEstimator(SL=SL, M0=m0 if use_m0 else None,
                                                     g=g_fun if use_g else None).estimate(elems, Phi)
            except Exception as exc:
                res.violation('C20:hier-raises:' + type(exc).__name__, dict(info, error=repr(exc)))
            if do_hh2:
                try:
                    hh2_serial = H2M.HH2ErrorEstimator(SL=SL, M0=m0 if use_m0 else None, g=g_fun if use_g else None,
                                                       use_mp=False).estimate(elems, Phi)
                    if case % 4 == 1 or (4 * n) ** 2 < 100:
                        hh2_pool = H2M.HH2ErrorEstimator(SL=SL, M0=m0 if use_m0 else None, g=g_fun if use_g else None,
                                                         use_mp=True).estimate(elems, Phi)
                except Exception as exc:
                    res.violation('C20:hh2-raises:' + type(exc).__name__, dict(info, error=repr(exc)))
                    do_hh2 = False
        res.count(('search', gamma, tuple(T), tuple(seq), use_g, use_m0, dens), nontrivial=(n >= 3 and nonuniform(elems)))
        res.bump('search_cases')
        if hh2_pool is not None and hh2_pool != hh2_serial:
            res.violation('C20:hh2-serial-vs-pool', dict(info, serial=float(hh2_serial), pool=float(hh2_pool)))
        # serial vs pool for the matrix the hierarchical estimator assembles (it always asks for the pool)
        # ---- independent computation on a really bisected replay
        with silence_stdout():
            mesh2 = _replay_param_mesh(gamma, T, seq)
            orig2, table = _really_bisect(mesh2)
            SL2 = SingleLayerOperator(mesh2)
        if [rect_of(e) for e in orig2] != [rect_of(e) for e in elems]:
            res.broken_obligation('search C20', 'replayed mesh differs from the original one')
            continue
        ok = True
        kids = []
        for e in orig2:
            qs = quadrants(rect_of(e))
            tb = table[e.glob_idx]
            if set(tb) != set(qs):
                ok = False
                break
            kids.append([tb[q] for q in qs])  # LL, LR, UL, UR: real elements
        if not ok:
            res.bump('search_skipped_not_four_children')
            continue
        psis = [[1, 1, -1, -1], [1, -1, 1, -1], [1, -1, -1, 1]]
        worst = 0.0
        for i, (e, ch) in enumerate(zip(orig2, kids) if hier is not None else []):
            rhs4 = rhs_of(ch)
            v4 = [sum(SL2.bilform(orig2[k], c) * Phi[k] for k in range(n)) for c in ch]
            S = [[SL2.bilform(ch[b], ch[a]) for b in range(4)] for a in range(4)]
            es = []
            for psi in psis:
                num = sum(s * (r - v) for s, r, v in zip(psi, rhs4, v4))
                den = sum(psi[a] * psi[b] * S[a][b] for a in range(4) for b in range(4))
                es.append(num * num / den)
            ref = (es[0] + es[2] / 2, es[1] + es[2] / 2)
            scale = max(abs(ref[0]), abs(ref[1]), 1e-300)
            for col in range(2):
                dev = abs(hier[i][col] - ref[col]) / scale
                worst = max(worst, dev)
                if dev > tol:
                    res.violation('C20:hier-vs-real-bisection:%s' % ('time' if col == 0 else 'space'),
                                  dict(info, element=i, rect=list(rect_of(e)), code=[float(v) for v in hier[i]],
                                       independent=[float(v) for v in ref]))
                    break
            if hier[i][0] < 0 or hier[i][1] < 0:
                res.violation('C20:hier-negative', dict(info, element=i, code=[float(v) for v in hier[i]]))
        res.notes['search_worst_rel_hier'] = max(res.notes.get('search_worst_rel_hier', 0.0), worst)
        if do_hh2:
            fine = [c for ch in reversed(kids) for c in (ch[3], ch[0], ch[2], ch[1])]  # a different order
            par = [n - 1 - (j // 4) for j in range(4 * n)]
            A2 = np.array([[SL2.bilform(b, a) for b in fine] for a in fine])
            y2 = np.linalg.solve(A2, rhs_of(fine))
            d2 = y2 - np.array([Phi[k] for k in par])
            ref = float(np.sqrt(d2 @ A2 @ d2))
            dev = _rel(float(hh2_serial), ref)
            res.notes['search_worst_rel_hh2'] = max(res.notes.get('search_worst_rel_hh2', 0.0), dev)
            if dev > tol and max(abs(ref), abs(float(hh2_serial))) > 1e-7 * float(np.sqrt(abs(y2 @ A2 @ y2)) + 1e-300):
                res.violation('C20:hh2-vs-real-bisection', dict(info, code=float(hh2_serial), independent=ref))
            # the extension of Phi solves the fine problem -> the estimator vanishes (relative to the energy of y)
            if case % 3 == 0:
                with silence_stdout():
                    flat = [c for chs in HM.DummyElement.uniform_refinement(elems) for c in chs]
                    Af = SL.bilform_matrix(flat, flat, use_mp=False)
                    b = Af @ np.repeat(Phi, 4)
                    try:
                        z = H2M.HH2ErrorEstimator(SL=SL, g=lambda es, b=b: b.copy(), use_mp=False).estimate(elems, Phi)
                    except Exception as exc:
                        res.violation('C20:hh2-raises:' + type(exc).__name__, dict(info, error=repr(exc)))
                        z = 0.0
                en = float(np.sqrt(abs(np.repeat(Phi, 4) @ b)))
                if not (float(z) <= 1e-6 * max(en, 1e-300)) and not np.isnan(z):
                    res.violation('C20:hh2-nonzero-on-solution', dict(info, value=float(z), energy=en))
        if case < 3:
            res.sample(dict(kind='search', gamma=gamma, n=n, hier_worst_rel=worst))

    res.notes['t_search_estimators_s'] = round(_time.time() - t_start, 1)
    # ---- Prolongate on random antichains of real (float) meshes
    n_pro = (10 if quick else 60) * (2 if boost else 1)
    for case in range(n_pro):
        gamma = rng.choice(['UnitSquare', 'Circle'])
        with silence_stdout():
            mesh = _replay_param_mesh(gamma, [0, 1], [])
            for _ in range(rng.randint(2, 30)):
                e = rng.choice(list(mesh.leaf_elements))
                if rng.random() < 0.3:
                    mesh.refine(e)
                else:
                    mesh.refine_axis(e, rng.randint(0, 1))
        coarse, below = [], {}
        stack = list(mesh.roots)
        while stack:
            e = stack.pop()
            if e.children and rng.random() < 0.6:
                stack.extend(e.children)
            else:
                coarse.append(e)
                sub = [e]
                while sub:
                    s = sub.pop()
                    below[id(s)] = (s, e)
                    sub.extend(s.children)
        rng.shuffle(coarse)
        pool = list(below.values())
        picks = rng.sample(pool, min(len(pool), rng.randint(1, 50)))
        fine = [p[0] for p in picks]
        vec = np.array([rng.uniform(-5, 5) for _ in coarse])
        idx = {id(e): i for i, e in enumerate(coarse)}
        try:
            got = MM.Prolongate(vec, coarse, fine)
            same = MM.Prolongate(vec, coarse, coarse)
        except Exception as exc:
            res.violation('C20:prolongate-raises:' + type(exc).__name__,
                          dict(gamma=gamma, case=case, error=repr(exc), coarse=[list(rect_of(c)) for c in coarse],
                               fine=[list(rect_of(f)) for f in fine]))
            continue
        res.count(('search-prolong', case, res.seed), nontrivial=any(f.parent is not None and f.parent is not a and f is not a
                                                                      for f, a in picks))
        res.bump('search_prolong')
        for j, (f, a) in enumerate(picks):
            # unique coarse element whose rectangle contains the fine one
            rf = rect_of(f)
            cont = [c for c in coarse if rect_of(c)[0] <= rf[0] and rf[1] <= rect_of(c)[1]
                    and rect_of(c)[2] <= rf[2] and rf[3] <= rect_of(c)[3]]
            if len(cont) != 1 or cont[0] is not a:
                res.broken_obligation('search C20', 'antichain construction: containing coarse element not unique')
                break
            if got[j] != vec[idx[id(a)]]:
                res.violation('C20:prolongate-value', dict(gamma=gamma, case=case, fine=list(rf), coarse=list(rect_of(a)),
                                                           got=float(got[j]), expected=float(vec[idx[id(a)]])))
                break
        if list(same) != list(vec):
            res.violation('C20:prolongate-identity', dict(gamma=gamma, case=case))
