"""C03 — Galerkin orthogonality: the estimator's residual integrates to zero per element."""
import ast
import contextlib
import io
import os
import sys
import time

import numpy as np

from ..common import LEAN, VERIF, seed_rng, write_if_changed
from ..slchecks import make_curve
from .. import numref

PROP_MODS = ['Stbem.Props.C03', 'Stbem.Props.C03Problems', 'Stbem.Props.SLRestResidual']
RULE = ('problems.py: every function problem_helper can hand out (14: u0, M0u0, u-trace, g, g-linform of the four factories and '
        'the two Dirichlet branches, the two complex-erf M0u0 included) and its dispatch table are regenerated into Lean '
        '(Gen/ProblemsQ.lean, Gen/ProblemsR.lean); the REAL functions run on exact (Gaussian) rationals with rational stand-ins '
        'for exp/sqrt/sin/erf/erfc/pi and must equal the generated terms evaluated by the driver, all 16 name pairs and '
        'inadmissible names must give the generated table / assertion; the theorems of Props/C03Problems.lean are about the '
        'generated terms. tie: the statements that assemble mat / rhs / Phi are cut out of example.py by ast and executed on a synthetic '
        'causal operator with polynomial potentials whose element integrals are known; the REAL '
        'ErrorEstimator.residual (both evaluation switches) built from that solution must have element means that '
        'vanish to rounding on random non-uniform meshes; the five signs and the row/column convention are '
        'regenerated into Lean (Gen/Conventions.lean) where their consistency is a theorem. ErrorEstimator.residual and the '
        'assembly statements of example.py are regenerated statement by statement (translate/slrest.py -> Gen/SLRest.lean); '
        'Props/SLRestResidual.lean proves that the generated residual is resVSign*V Phi + resM0Sign*M0u0 + resGSign*g (skipped '
        'elements contribute 0) and Galerkin orthogonality for the generated residual against the generated system; the REAL '
        'ErrorEstimator.residual runs on exact numbers (real SingleLayerOperator on Q numbers with stand-in special functions, '
        'exact affine pieces, both switches, with / without M0u0 and g, acausal elements, points on other pieces) and must equal '
        '`sl genres`; the ast slice of example.py runs on exact token operators and its rhs must equal `sl genslice`. search: the real problems '
        '(Dirichlet, MildSingular on every closed curve, Singular on unit square and L-shape, Smooth on the squares) '
        'on small meshes, both switches: |int_E r| <= 5e-5 int_E |r| + 1e-12 with a graded rule resolving the kinks; the data '
        'of problems.py on floats against model-independent references: g-linform = Gauss integral of g over real elements '
        '(1e-12), every M0u0 (complex-erf forms included) = composite Gauss heat-kernel convolution of u0 over the domain '
        'rectangles at random (t, x) (1e-9), u-trace = central-difference outward normal derivative of e^{-lambda t} u0 along '
        'the real parametrisation (1e-4). '
        'non-trivial = element with a non-zero residual; distinct = (problem, domain, mesh, switch, element).')
TRUSTED = [
    'Lean 4.33 kernel; axioms propext, Classical.choice, Quot.sound only',
    'translate/conventions.py (ast patterns of example.py, error_estimator.py, single_layer.py)',
    'translate/slrest.py (ErrorEstimator.residual, assembly slice of example.py, rest of single_layer.py; object model in its '
    'docstring; validated on every run by exact execution of the real residual / the real slice against the generated functions)',
    'on real data every hypothesis of the orthogonality theorem holds only to quadrature accuracy: search only (partial)',
    'translate/problemdefs.py (ast of problems.py; validated on every run by exact execution of the real functions)',
    'special functions of problems.py are parameters: erf : R -> R with erf\' = 2/sqrt(pi) exp(-x^2), odd, -> 1 at +oo; for the '
    'complex-erf closed forms cerf : C -> C with complex derivative 2/sqrt(pi) exp(-z^2), odd, cexp = Complex.exp, erfc = 1 - erf '
    '(a model satisfying all laws is constructed in Lean); that SciPy\'s erf / NumPy\'s exp are these functions is trusted',
    'not proved: heat equation / initial value for the two Smooth M0u0 (only their potential representation is proved)',
    'literal quotients such as 1 / 3 are evaluated by Python in binary64: the theorems use the ideal value, the executable '
    'term the rounded one; Lean proves the relative distance <= 2^-53',
]
ASSUMPTIONS = ['linearity of the element means; exact arithmetic in the theorems']

sys.path.insert(0, os.path.join(VERIF, 'translate'))


PROBLEMS_TR = [None]


def translate_problems(res):
    """problems.py -> Gen/ProblemsQ.lean, Gen/ProblemsR.lean (also used by C08)."""
    import problemdefs
    repo = os.environ.get('STBEM_REPO', '/repo')
    tr = problemdefs.generate(repo, os.path.join(LEAN, 'Stbem', 'Gen'), write_if_changed)
    PROBLEMS_TR[0] = tr
    res.notes['problems_translated_functions'] = len(tr['funs'])
    res.notes['problems_translated'] = [f.lean for f in tr['funs']]
    res.notes['problems_not_translated'] = []
    res.notes['problems_rounded_literals'] = [(f.lean, l[3]) for f in tr['funs'] for l in f.lits]


def translate(res):
    import conventions
    repo = os.environ.get('STBEM_REPO', '/repo')
    c = conventions.generate(repo, os.path.join(LEAN, 'Stbem', 'Gen'), write_if_changed)
    res.notes['conventions'] = c
    translate_problems(res)
    # Gen/FormulasQ, Gen/Panels, Gen/SLRest: the generated residual calls the generated evaluate / evaluate_exact
    from . import C04
    C04.translate(res)


def correspond_generated_residual(res, tier):
    """The REAL `ErrorEstimator.residual` on exact numbers (real operator on Q numbers, exact affine pieces, rational stand-in
    special functions and log rule) against the residual regenerated from the source (`sl genres`, Gen/SLRest.lean)."""
    from fractions import Fraction as F
    import src.error_estimator as EEmod
    from ..common import q2s, run_driver
    from ..qnum import Q, installed
    from ..sllib import TIME_LATTICE, Fixture, qarr, random_space_intervals, result_str
    from ..slchecks import ExactNP, data_fn, enc_data_fn, patched_module
    rng = seed_rng(res.seed, 'C03r')
    n_fix = 2 if tier == 'quick' else 8
    for fi in range(n_fix):
        curve = ['unitsquare', 'lshape', 'interval', 'rect32'][fi % 4]
        fx = Fixture(rng, curve, bool(fi % 2), log_nodes=rng.randint(1, 3))
        ivs = random_space_intervals(rng, fx, 8)
        lines = fx.context_lines()
        expect = ['ok'] * len(lines)
        with installed(fx.standins), patched_module(EEmod, np=ExactNP()):
            for _ in range(5 if tier == 'quick' else 20):
                elems = [fx.elem(*rng.choice(TIME_LATTICE), *rng.choice(ivs)) for _ in range(rng.randint(1, 4))]
                n_phi = len(elems) if rng.random() < 0.9 else len(elems) - 1      # a short Phi: IndexError on both sides
                Phi = qarr([F(rng.randint(-5, 5), rng.randint(1, 4)) for _ in range(n_phi)])
                cm = [F(rng.randint(-3, 3), rng.randint(1, 3)) for _ in range(4)] if rng.random() < 0.7 else None
                cg = [F(rng.randint(-3, 3), rng.randint(1, 3)) for _ in range(4)] if rng.random() < 0.7 else None
                for exact in (False, True):
                    residual = EEmod.ErrorEstimator.residual(None, elems, Phi, fx.SL, data_fn(cm), data_fn(cg), SL_exact_eval=exact)
                    # points on the piece of one of the elements (so that the closed-form switch is taken) or on any piece
                    k = rng.choice(elems).piece_idx if rng.random() < 0.7 else rng.randrange(len(fx.pieces))
                    a, b = fx.starts[k], fx.starts[k + 1]
                    n_pts = rng.randint(1, 3)
                    xs = [a + (b - a) * F(rng.randint(0, 16), 16) for _ in range(n_pts)]
                    ts = [rng.choice([F(0), F(1, 8), F(1, 4), F(1, 2), F(5, 8), F(1), F(7, 4), F(3)]) for _ in range(n_pts)]
                    if rng.random() < 0.4:     # just after the start of an element, seen from anywhere (sharp kernel, far point)
                        ts[0] = rng.choice(elems).time_interval[0].v + F(1, 2**rng.randint(8, 14))
                    if rng.random() < 0.1:
                        ts = ts + [F(1)]           # len(t) != len(x_hat): the assertion of the closure
                    try:
                        want = ','.join(result_str(v) for v in residual(qarr(ts), qarr(xs), fx.pieces[k]))
                    except AssertionError as exc:
                        # QuadScheme1D.integrate asserts b - a > 1e-5 (in-element point at an end): not a case of the tie
                        want = 'err assert:len' if len(ts) != len(xs) else None
                    except IndexError:
                        want = 'err raise:IndexError'
                    if want is None:
                        continue
                    lines.append('sl genres %d %s %s %d %s %s %s %s' % (exact, enc_data_fn(cm), enc_data_fn(cg), k,
                                 ','.join(q2s(v) for v in Phi) or '-', ','.join(q2s(v) for v in ts), ','.join(q2s(v) for v in xs),
                                 ' '.join(e.encode() for e in elems)))
                    expect.append(want)
        out = run_driver(lines)
        for line, want, got in zip(lines, expect, out):
            if want == 'ok':
                continue
            res.count(('genres', line), not want.startswith('err'))
            res.bump('generated_residual_requests')
            if want.startswith('err'):
                res.bump('generated_residual_' + want.split(':')[-1])
            if want != got:
                res.broken_obligation('correspondence C03: ErrorEstimator.residual differs from the residual regenerated from the '
                                      'source (Gen/SLRest.lean)', 'curve %s pw_exact %s\nline: %s\npython: %s\nlean:   %s' %
                                      (curve, fx.pw_exact, line[:600], want[:300], got[:300]))
                return


def correspond_generated_slice(res, tier, code):
    """The ast slice of example.py on exact token operators: its `rhs` against the generated `assembly_slice` (`sl genslice`)."""
    from fractions import Fraction as F
    from ..common import q2s, run_driver
    from ..qnum import Q
    from ..sllib import qarr
    from ..slchecks import ExactNP
    rng = seed_rng(res.seed, 'C03sl')
    lines, expect = [], []

    class Lin:
        solve = staticmethod(lambda mat, rhs: rhs)

    class NPx(ExactNP):
        linalg = Lin

    for _ in range(8 if tier == 'quick' else 60):
        n = rng.randint(0, 5)
        m0 = [F(rng.randint(-9, 9), rng.randint(1, 5)) for _ in range(n)] if rng.random() < 0.7 else None
        gv = [F(rng.randint(-9, 9), rng.randint(1, 5)) for _ in range(n)] if rng.random() < 0.7 else None

        class Op:
            def bilform_matrix(self, a, b, use_mp=False):
                return 'mat'

            def linform_vector(self, elems=None, use_mp=False):
                return qarr(m0)
        env = dict(SL=Op(), M0=Op() if m0 is not None else None, g_linform=(lambda elems: qarr(gv)) if gv is not None else None,
                   elems=list(range(n)), N=n, mesh=None, np=NPx(), time=time, print=lambda *a, **k: None)
        env['mesh'] = type('M', (), dict(leaf_elements=list(range(n))))()
        exec(code, env)
        lines.append('sl genslice %d %s %s' % (n, 'none' if m0 is None else (','.join(q2s(v) for v in m0) or '-'),
                                              'none' if gv is None else (','.join(q2s(v) for v in gv) or '-')))
        expect.append(','.join(q2s(v) for v in env['rhs']))
    out = run_driver(lines)
    for line, want, got in zip(lines, expect, out):
        res.count(('genslice', line), True)
        res.bump('generated_slice_requests')
        if want != got:
            res.broken_obligation('correspondence C03: the assembly statements of example.py differ from the generated assembly_slice',
                                  'line: %s\npython rhs: %s\nlean rhs:   %s' % (line, want, got))
            return


def correspond_problems(res, tier):
    """problems.py: the real functions on exact numbers against the generated terms; the dispatch table."""
    from .. import problems_tie
    tr = PROBLEMS_TR[0]
    if tr is None:
        res.broken_obligation('correspondence C03: problems.py', 'translate/problemdefs.py did not produce a translation')
        return
    rng = seed_rng(res.seed, 'C03p')
    bad = problems_tie.validate(res, rng, tr, 8 if tier == 'quick' else 60)
    for b in bad[:10]:
        res.broken_obligation('correspondence C03: generated term of problems.py disagrees with the running function', repr(b))
    res.sample(dict(problems_py=dict(functions=len(tr['funs']), disagreements=len(bad))))


def assembly_slice():
    """The statements of example.py that define mat, rhs and Phi (in source order), compiled for exec."""
    path = os.path.join(os.environ.get('STBEM_REPO', '/repo'), 'example.py')
    src = open(path).read()
    import warnings
    with warnings.catch_warnings():
        warnings.simplefilter('ignore')
        tree = ast.parse(src)
    picked = []

    def targets(st):
        if isinstance(st, ast.Assign):
            return [t.id for t in st.targets if isinstance(t, ast.Name)]
        if isinstance(st, ast.AugAssign) and isinstance(st.target, ast.Name):
            return [st.target.id]
        return []
    for node in ast.walk(tree):
        if isinstance(node, ast.For) and isinstance(node.target, ast.Name) and node.target.id == 'k':
            for st in node.body:
                if set(targets(st)) & {'mat', 'rhs', 'Phi'}:
                    picked.append(st)
                elif isinstance(st, ast.If) and any(set(targets(s)) & {'rhs'} for s in st.body):
                    picked.append(st)
    if len(picked) < 4:
        raise RuntimeError('assembly statements of example.py not found')
    mod = ast.Module(body=picked, type_ignores=[])
    return compile(ast.fix_missing_locations(mod), 'example.py:assembly', 'exec'), [ast.unparse(s) for s in picked]


def composite_gauss(breaks, n=6):
    x, w = numref.gl(n)
    pts, wts = [], []
    for a, b in zip(breaks[:-1], breaks[1:]):
        pts.append(a + (b - a) * x)
        wts.append((b - a) * w)
    return np.concatenate(pts), np.concatenate(wts)


class Synthetic:
    """Causal synthetic operator: (V 1_j)(t, x_hat) = (t - t0_j)_+ * (p_j(x_hat) + 10 * 1_{E_j}(x_hat)), polynomial M0u0, g."""
    def __init__(self, rng, mesh, elems):
        self.mesh, self.elems = mesh, elems
        self.coef = [(rng.randint(1, 5), rng.randint(-3, 3), rng.randint(0, 2)) for _ in elems]
        self.tlevels = sorted({float(t) for e in elems for t in e.time_interval})
        self.xlevels = sorted({float(x) for e in elems for x in e.space_interval})
        self.wc = [rng.randint(-3, 3) for _ in range(4)]
        self.gc = [rng.randint(-3, 3) for _ in range(4)]
        self.index = {id(e): j for j, e in enumerate(elems)}

    def v(self, j, t, xh):
        c0, c1, c2 = self.coef[j]
        t0 = float(self.elems[j].time_interval[0])
        x0, x1 = map(float, self.elems[j].space_interval)
        local = 10.0 * ((x0 <= xh) & (xh < x1))  # makes the synthetic matrix diagonally dominant, hence invertible
        return np.maximum(t - t0, 0.0) * (c0 + c1 * xh + c2 * xh * xh + local)

    def w_fun(self, t, x):
        c = self.wc
        return float(c[0] + c[1] * t + c[2] * x[0, 0] + c[3] * x[0, 0] * x[1, 0])

    def g_fun(self, t, x):
        c = self.gc
        return float(c[0] + c[1] * t * t + c[2] * x[1, 0] + c[3] * x[0, 0])

    def elem_quad(self, e):
        tb = [float(e.time_interval[0])] + [t for t in self.tlevels if e.time_interval[0] < t < e.time_interval[1]] + [float(e.time_interval[1])]
        xb = [float(e.space_interval[0])] + [x for x in self.xlevels if e.space_interval[0] < x < e.space_interval[1]] + [float(e.space_interval[1])]
        t, wt = composite_gauss(tb)
        x, wx = composite_gauss(xb)
        T, X = np.meshgrid(t, x, indexing='ij')
        return T.ravel(), X.ravel(), np.outer(wt, wx).ravel()

    def integral(self, e, fun):
        T, X, W = self.elem_quad(e)
        return float(np.dot(W, fun(T, X, e)))

    # --- operator interface used by example.py / residual ---
    def bilform_matrix(self, elems_test=None, elems_trial=None, use_mp=False):
        return np.array([[self.integral(te, lambda T, X, e, j=j: self.v(j, T, X)) for j, _ in enumerate(elems_trial)]
                         for te in elems_test])

    def _init_elems(self, elems):
        pass

    def evaluate(self, elem_trial, t, x_hat, x):
        return float(self.v(self.index[id(elem_trial)], t, x_hat))

    def evaluate_exact(self, elem_trial, t, x_hat):
        return float(self.v(self.index[id(elem_trial)], t, x_hat))

    def linform_vector(self, elems=None, use_mp=False):
        def f(T, X, e):
            P = e.gamma_space(X)
            c = self.wc
            return c[0] + c[1] * T + c[2] * P[0] + c[3] * P[0] * P[1]
        return np.array([self.integral(e, f) for e in elems])

    def g_linform(self, elems):
        def f(T, X, e):
            P = e.gamma_space(X)
            c = self.gc
            return c[0] + c[1] * T * T + c[2] * P[1] + c[3] * P[0]
        return np.array([self.integral(e, f) for e in elems])


def real_mesh(rng, cname, n_ops):
    from src.mesh import MeshParametrized
    gamma = make_curve(cname)
    with contextlib.redirect_stdout(io.StringIO()):
        mesh = MeshParametrized(gamma)
        if cname == 'LShape':
            for e in list(mesh.leaf_elements):
                if e.h_x > 1:
                    mesh.refine_space(e)
        for _ in range(n_ops):
            e = rng.choice(list(mesh.leaf_elements))
            mesh.refine_axis(e, rng.randint(0, 1))
    return gamma, mesh


def correspond(res, tier):
    from src.error_estimator import ErrorEstimator
    correspond_problems(res, tier)
    rng = seed_rng(res.seed, 'C03')
    code, text = assembly_slice()
    res.sample(dict(assembly_statements=text))
    correspond_generated_residual(res, tier)
    correspond_generated_slice(res, tier, code)
    n_mesh = 4 if tier == 'quick' else 25
    for mi in range(n_mesh):
        cname = ['UnitSquare', 'LShape', 'UnitSquare', 'PiSquare'][mi % 4]
        gamma, mesh = real_mesh(rng, cname, rng.randint(0, 7))
        elems = list(mesh.leaf_elements)
        syn = Synthetic(rng, mesh, elems)
        for with_m0, with_g in ((True, True), (False, True), (True, False)):
            env = dict(SL=syn, M0=syn if with_m0 else None, g_linform=syn.g_linform if with_g else None, elems=elems,
                       N=len(elems), np=np, time=time, print=lambda *a, **k: None)
            exec(code, env)
            Phi = env['Phi']
            for exact_eval in (False, True):
                residual = ErrorEstimator.residual(None, elems, Phi, syn, syn.w_fun if with_m0 else None,
                                                   syn.g_fun if with_g else None, SL_exact_eval=exact_eval)
                for i, e in enumerate(elems):
                    T, X, W = syn.elem_quad(e)
                    r = residual(T, X, e.gamma_space)
                    mean, l1 = float(np.dot(W, r)), float(np.dot(W, np.abs(r)))
                    res.count(('syn', mi, with_m0, with_g, exact_eval, i), l1 > 1e-12)
                    if abs(mean) > 1e-9 * (l1 + 1e-3):
                        res.broken_obligation('tie C03: residual of the synthetic exact solution has non-zero element mean',
                                              'curve %s elements %d M0 %s g %s exact_eval %s element %d: mean %.3e, int|r| %.3e' %
                                              (cname, len(elems), with_m0, with_g, exact_eval, i, mean, l1))
                        res.violation('C03:conventions-inconsistent', dict(curve=cname, n_elems=len(elems), with_M0=with_m0,
                                      with_g=with_g, SL_exact_eval=exact_eval, element=i, mean=mean, int_abs=l1,
                                      note='synthetic exact operator; assembly statements taken from example.py'))
                        return


# ---------------------------------------------------------------------------------------------------------
def graded_both(n=8, levels=10, q=0.25):
    """Rule on [0,1] graded geometrically towards both end points."""
    u, w = numref.graded(n, levels, q)
    x = np.concatenate([0.5 * u, 1 - 0.5 * u])
    return x, np.concatenate([0.5 * w, 0.5 * w])



# ---------------------------------------------------------------------------------------------------------
DOMAIN_RECTS = {'UnitSquare': [(0.0, 1.0, 0.0, 1.0)], 'PiSquare': [(0.0, np.pi, 0.0, np.pi)],
                'LShape': [(-1.0, 0.0, 0.0, 1.0), (0.0, 1.0, 0.0, 1.0), (0.0, 1.0, -1.0, 0.0)]}


def search_problems(res, tier):
    """The data of problems.py on floats against references that use neither the model nor the repo's quadrature:
    (1) g-linform = tensor Gauss-Legendre integral of g over real elements (polynomial data: exact to rounding);
    (2) M0u0 (all four closed forms, the complex-erf ones included) = heat-kernel convolution of u0 over the rectangles of
        the domain, composite tensor Gauss-Legendre, at random (t, x) in the plane and on the boundary curve;
    (3) u-trace = outward normal derivative (central differences along the real parametrisation) of e^{-lambda t} u0, with
        lambda = -Laplace(u0)/u0 measured by finite differences at an interior point (u0 is an eigenfunction)."""
    from problems import problem_helper
    rng = seed_rng(res.seed, 'C03pd')
    n = 6 if tier == 'quick' else 40
    xg, wg = numref.gl(6)
    # (1)
    for problem in ('Dirichlet', 'MildSingular'):
        for domain in ('UnitSquare', 'Circle', 'LShape'):
            data = problem_helper(problem, domain)
            gamma, mesh = real_mesh(rng, domain, rng.randint(2, 6))
            elems = list(mesh.leaf_elements)
            vals = data['g-linform'](elems)
            for e, v in zip(elems, vals):
                (ta, tb), (xa, xb) = map(float, e.time_interval), map(float, e.space_interval)
                ref = 0.0
                for tq, wt in zip(ta + (tb - ta) * xg, (tb - ta) * wg):
                    pts = e.gamma_space(xa + (xb - xa) * xg)
                    ref += wt * sum((xb - xa) * wx * float(data['g'](tq, pts[:, [j]])) for j, wx in enumerate(wg))
                res.count(('g-linform', problem, domain, ta, tb, xa, xb), True)
                if abs(float(v) - ref) > 1e-12 * max(1.0, abs(ref)):
                    res.violation('C03:g-linform-not-integral-of-g:%s' % problem,
                                  dict(problem=problem, domain=domain, elem=dict(t=[ta, tb], x=[xa, xb]), g_linform=float(v),
                                       integral_of_g=ref))
    # (2), (3)
    xq, wq = numref.gl(24)
    worst = 0.0
    for problem, domain in (('Singular', 'UnitSquare'), ('Singular', 'LShape'), ('Smooth', 'UnitSquare'), ('Smooth', 'PiSquare')):
        data = problem_helper(problem, domain)
        gamma = make_curve(domain)
        L = float(gamma.gamma_length)
        side = 1.0 if domain != 'PiSquare' else np.pi
        for it in range(n):
            t = rng.uniform(0.02, 1.0) * side**2
            if it % 2:
                x = np.asarray(gamma.eval(np.array([rng.uniform(0, L)])), dtype=float).reshape(2, 1)
            else:
                x = np.array([[rng.uniform(-1.5, 2.0) * side], [rng.uniform(-1.5, 2.0) * side]])
            ref = 0.0
            for (x0, x1, y0, y1) in DOMAIN_RECTS[domain]:
                # composite rule: 4 x 4 panels of 24 x 24 points
                for i in range(4):
                    for j in range(4):
                        X = x0 + (x1 - x0) * (i + xq) / 4
                        Y = y0 + (y1 - y0) * (j + xq) / 4
                        XX, YY = np.meshgrid(X, Y, indexing='ij')
                        W = np.outer(wq, wq) * (x1 - x0) * (y1 - y0) / 16
                        G = np.exp(-((x[0, 0] - XX)**2 + (x[1, 0] - YY)**2) / (4 * t)) / (4 * np.pi * t)
                        U = np.asarray(data['u0'](np.array([XX.ravel(), YY.ravel()])), dtype=float) * np.ones(XX.size)
                        ref += float(np.sum(W.ravel() * G.ravel() * U))
            cf = float(np.squeeze(data['M0u0'](t, x)))
            err = abs(cf - ref)
            worst = max(worst, err)
            res.count(('M0u0', problem, domain, t, float(x[0, 0]), float(x[1, 0])), True)
            if err > 1e-9 * max(1.0, abs(ref)):
                res.violation('C03:M0u0-not-potential-of-u0:%s:%s' % (problem, domain),
                              dict(problem=problem, domain=domain, t=t, x=[float(x[0, 0]), float(x[1, 0])], closed_form=cf,
                                   heat_kernel_convolution=ref))
        if 'u-trace' not in data:
            continue
        u0 = lambda p: float(np.squeeze(data['u0'](np.asarray(p, dtype=float).reshape(2, 1))))  # noqa: E731
        p0, h = np.array([0.37 * side, 0.29 * side]), 1e-3 * side
        lap = (u0(p0 + [h, 0]) + u0(p0 - [h, 0]) + u0(p0 + [0, h]) + u0(p0 - [0, h]) - 4 * u0(p0)) / h**2
        lam = -lap / u0(p0)
        brk = [float(b) for b in gamma.pw_start]
        for it in range(2 * n):
            t = rng.uniform(0.0, 0.3) * side**2
            k = rng.randrange(len(brk) - 1)
            xh = rng.uniform(brk[k] + 1e-3 * side, brk[k + 1] - 1e-3 * side)
            d = 1e-6 * side
            p = np.asarray(gamma.eval(np.array([xh])), dtype=float).ravel()
            tau = (np.asarray(gamma.eval(np.array([xh + d])), dtype=float).ravel() -
                   np.asarray(gamma.eval(np.array([xh - d])), dtype=float).ravel()) / (2 * d)
            nrm = np.array([tau[1], -tau[0]])   # outward for a counter-clockwise curve
            hh = 1e-5 * side
            ref = np.exp(-lam * t) * (u0(p + hh * nrm) - u0(p - hh * nrm)) / (2 * hh)
            val = float(np.squeeze(data['u-trace'](t, xh)))
            res.count(('u-trace', domain, t, xh), True)
            if abs(val - ref) > 1e-4 * max(1.0, abs(lap)):
                res.violation('C03:u-trace-not-normal-derivative:%s' % domain,
                              dict(problem=problem, domain=domain, t=t, x_hat=xh, side=k, u_trace=val, normal_derivative=ref,
                                   decay_rate=lam))
    res.notes['problems_worst_M0u0_vs_convolution'] = worst


def search(res, tier, boost=False):
    from problems import problem_helper
    search_problems(res, tier)
    from src.error_estimator import ErrorEstimator
    from src.initial_mesh import LShapeBoundaryRefined, PiSquareBoundaryRefined, UnitSquareBoundaryRefined
    from src.initial_potential import InitialOperator
    from src.mesh import MeshParametrized
    from src.single_layer import SingleLayerOperator
    combos = [('Dirichlet', 'UnitSquare', 0), ('MildSingular', 'Circle', 0), ('Smooth', 'UnitSquare', 0),
              ('Singular', 'UnitSquare', 0)]
    if tier == 'thorough' or boost:
        combos += [('Dirichlet', 'LShape', 0), ('MildSingular', 'PiSquare', 0), ('Singular', 'LShape', 0),
                   ('Smooth', 'PiSquare', 0), ('Dirichlet', 'Circle', 1),
                   ('Singular', 'UnitSquare', 1), ('MildSingular', 'UnitSquare', 1)]
    tg, wtg = graded_both(8, 8, 0.25)
    xg, wxg = graded_both(8, 3, 0.2)   # evaluate() requires in-element points > 1e-5 away from the end points
    worst = 0.0
    rng = seed_rng(res.seed, 'C03s')
    # locally refined meshes: elements whose time interval is nested in / overlaps others (kinks inside elements)
    combos = [(p, d, u, None) for (p, d, u) in combos]
    local = [('Dirichlet', 'UnitSquare'), ('MildSingular', 'UnitSquare'), ('Dirichlet', 'Circle')]
    if tier == 'thorough' or boost:
        local += [('Singular', 'UnitSquare'), ('MildSingular', 'LShape'), ('Dirichlet', 'PiSquare')]
    for (p, d) in local:
        combos.append((p, d, 0, [rng.choice(['t', 't', 's']) for _ in range(rng.randint(2, 4))]))
    # the same on a once uniformly refined mesh: more than 10 elements (the matrix is assembled by the large-matrix path,
    # N*M >= 100) with leaves of different time levels that start at the same time
    combos.append(('Dirichlet', 'UnitSquare', 1, ['t', 't', 's', 't']))
    # three time slabs with one side refined 0 / 1 / 2 times in space: elements of different slabs whose parameter intervals
    # are strictly nested without a common end point ([0,1] and [1/4,1/2]) or overlap-free neighbours of a level gap of two
    combos.append((rng.choice(['Dirichlet', 'MildSingular']), rng.choice(['UnitSquare', 'LShape'] if tier != 'quick' else ['UnitSquare']), 0, 'nested'))
    # a problem with non-zero initial data on a mesh with a thin slab that starts late (h_t = 2^-11 at t = 1/16, h_x = 1/8: aspect
    # 32): the heat kernel of the initial data reaches sqrt(4 t) = 0.5 although the slab is thin
    combos.append(('Singular', 'UnitSquare', 0, 'late-thin'))
    if tier == 'thorough' or boost:
        combos.append(('MildSingular', 'Circle', 1, ['t', 's', 't']))
    # the driver (example.py) runs all problems against ONE cache directory per value of the straight-panel switch
    import shutil
    import tempfile
    tmp = tempfile.mkdtemp(prefix='c03s_', dir='/tmp')
    cache = {False: os.path.join(tmp, 'data'), True: os.path.join(tmp, 'data_exact')}
    for d in cache.values():
        os.makedirs(d)
    for problem, domain, unif, local_ops in combos:
        gamma = make_curve(domain)
        with contextlib.redirect_stdout(io.StringIO()):
            mesh = MeshParametrized(gamma) if local_ops not in ('nested', 'late-thin') else MeshParametrized(
                gamma, initial_time_mesh=[0., 0.5, 1., 1.5] if local_ops == 'nested' else [0., 1 / 16, 1 / 16 + 2.0**-11])
            if local_ops == 'late-thin':
                mesh.uniform_refine_space()
                mesh.uniform_refine_space()
                for e in [e for e in mesh.leaf_elements if float(e.time_interval[0]) > 0]:
                    mesh.refine_space(e)
            if local_ops == 'nested':
                side = rng.randrange(len(gamma.pw_gamma))
                lo = float(gamma.pw_start[side])
                for slab, depth in ((1, 1), (2, 2)):
                    for dd in range(depth):
                        tgt = [e for e in mesh.leaf_elements if float(e.time_interval[0]) == 0.5 * slab and e.level_space == dd
                               and lo <= float(e.space_interval[0]) < float(gamma.pw_start[side + 1])]
                        tgt.sort(key=lambda e: float(e.space_interval[0]))
                        if tgt:
                            mesh.refine_space(tgt[(1 if dd == 1 else 0) % len(tgt)] if dd else tgt[0])
            if domain == 'LShape':
                for e in list(mesh.leaf_elements):
                    if e.h_x > 1:
                        mesh.refine_space(e)
            for _ in range(unif):
                mesh.uniform_refine()
            for ax in ([] if local_ops in ('nested', 'late-thin') else (local_ops or [])):
                cand = [e for e in mesh.leaf_elements if float(e.h_x)**2 / float(e.h_t) <= (8 if ax == 't' else 64)]
                e = rng.choice(cand or list(mesh.leaf_elements))
                mesh.refine_axis(e, 0 if ax == 't' else 1)
        data = problem_helper(problem, domain)
        init = {'UnitSquare': UnitSquareBoundaryRefined, 'PiSquare': PiSquareBoundaryRefined, 'LShape': LShapeBoundaryRefined}.get(domain)
        elems = list(mesh.leaf_elements)
        tlevels = sorted({float(t) for e in elems for t in e.time_interval})
        xlevels = sorted({float(x) for e in elems for x in e.space_interval})
        # (late-thin: panels of length 1/8 - the graded evaluation points come closer than 1e-5 to the panel ends, which the
        # quadrature path's evaluate() excludes by assertion; the closed-form evaluation has no such precondition)
        for pw in ((True, ) if local_ops == 'late-thin' else (False, True) if domain != 'Circle' else (False, )):
            with contextlib.redirect_stdout(io.StringIO()):
                SL = SingleLayerOperator(mesh, pw_exact=pw, cache_dir=cache[pw])
                mat = SL.bilform_matrix(elems, elems)
                rhs = np.zeros(len(elems))
                M0u0 = g = None
                if 'u0' in data:
                    M0 = InitialOperator(bdr_mesh=mesh, u0=data['u0'], initial_mesh=init, cache_dir=cache[pw],
                                         problem=problem)
                    rhs = -M0.linform_vector(elems=elems)
                    M0u0 = data['M0u0']
                if 'g' in data:
                    rhs = rhs + data['g-linform'](elems)
                    g = data['g']
                if 'u-trace' in data and 'g' not in data and 'u0' not in data:
                    continue
                Phi = np.linalg.solve(mat, rhs)
                residual = ErrorEstimator.residual(None, elems, Phi, SL, M0u0, g, SL_exact_eval=pw)
            sample_idx = set(range(len(elems))) if len(elems) <= 10 or tier == 'thorough' or local_ops == 'nested' else set(rng.sample(range(len(elems)), 5))
            if local_ops == 'late-thin' and tier == 'quick':
                late = [i for i, e in enumerate(elems) if float(e.time_interval[0]) > 0]
                sample_idx = set(rng.sample(late, 4)) | set(rng.sample([i for i in range(len(elems)) if i not in late], 1))
            for i, e in enumerate(elems):
                if i not in sample_idx:
                    continue      # quick tier: the element means of a sample of the elements of the larger meshes
                ta, tb = map(float, e.time_interval)
                xa, xb = map(float, e.space_interval)
                # composite rule with breaks at every mesh level inside the element (the residual has kinks there)
                tbk = [ta] + [t for t in tlevels if ta < t < tb] + [tb]
                xbk = [xa] + [x for x in xlevels if xa < x < xb] + [xb]
                Tn = np.concatenate([a + (b - a) * tg for a, b in zip(tbk[:-1], tbk[1:])])
                Wt = np.concatenate([(b - a) * wtg for a, b in zip(tbk[:-1], tbk[1:])])
                Xn = np.concatenate([a + (b - a) * xg for a, b in zip(xbk[:-1], xbk[1:])])
                Wx = np.concatenate([(b - a) * wxg for a, b in zip(xbk[:-1], xbk[1:])])
                T, X = np.meshgrid(Tn, Xn, indexing='ij')
                W = np.outer(Wt, Wx).ravel()
                r = residual(T.ravel(), X.ravel(), e.gamma_space)
                mean, l1 = float(np.dot(W, r)), float(np.dot(W, np.abs(r)))
                ratio = abs(mean) / (l1 + 1e-300)
                worst = max(worst, ratio if l1 > 1e-9 else 0.0)
                res.count(('real', problem, domain, unif, str(local_ops), pw, i), l1 > 1e-12)
                if abs(mean) > 5e-5 * l1 + 1e-12:
                    res.violation('C03:residual-mean-nonzero:%s:%s' % (problem, domain),
                                  dict(problem=problem, domain=domain, uniform_refinements=unif, local_refinements=local_ops,
                                       pw_exact=pw, element=i, elem=dict(t=[ta, tb], x=[xa, xb]), mean=mean, int_abs=l1,
                                       history='problems solved so far against one cache directory per pw_exact (as '
                                       'example.py does): %s' % [c[:3] for c in combos[:combos.index((problem, domain, unif, local_ops)) + 1]]))
    # the `--refinement uniform --grading` flow of example.py: SL (and the estimator's residual) are created ONCE on the first
    # mesh; the mesh is re-created by hand as a graded tensor mesh in every iteration and its elements are handed to the
    # long-lived operator.  Orthogonality must hold in the second iteration as in the first.
    from ..slchecks import regrid_iterations
    for problem, domain in ([('Dirichlet', 'UnitSquare')] if tier == 'quick' and not boost else [('Dirichlet', 'UnitSquare'), ('MildSingular', 'UnitSquare')]):
        data = problem_helper(problem, domain)
        for k, mesh_k, elems, old, fresh in regrid_iterations(domain, n_iter=2):
            with contextlib.redirect_stdout(io.StringIO()):
                SL = old['SL']
                mat = SL.bilform_matrix(elems, elems)
                rhs = data['g-linform'](elems)
                Phi = np.linalg.solve(mat, rhs)
                residual = ErrorEstimator.residual(None, elems, Phi, SL, None, data['g'], SL_exact_eval=False)
            tl = sorted({float(t) for e in elems for t in e.time_interval})
            xl = sorted({float(x) for e in elems for x in e.space_interval})
            for i in (rng.sample(range(len(elems)), min(5, len(elems))) if k else range(len(elems))):
                e = elems[i]
                ta, tb = map(float, e.time_interval)
                xa, xb = map(float, e.space_interval)
                tbk = [ta] + [t for t in tl if ta < t < tb] + [tb]
                xbk = [xa] + [x for x in xl if xa < x < xb] + [xb]
                Tn = np.concatenate([a + (b - a) * tg for a, b in zip(tbk[:-1], tbk[1:])])
                Wt = np.concatenate([(b - a) * wtg for a, b in zip(tbk[:-1], tbk[1:])])
                Xn = np.concatenate([a + (b - a) * xg for a, b in zip(xbk[:-1], xbk[1:])])
                Wx = np.concatenate([(b - a) * wxg for a, b in zip(xbk[:-1], xbk[1:])])
                T, X = np.meshgrid(Tn, Xn, indexing='ij')
                W = np.outer(Wt, Wx).ravel()
                r = residual(T.ravel(), X.ravel(), e.gamma_space)
                mean, l1 = float(np.dot(W, r)), float(np.dot(W, np.abs(r)))
                res.count(('regrid-real', problem, k, i), True)
                if abs(mean) > 5e-5 * l1 + 1e-12:
                    res.violation('C03:residual-mean-nonzero:%s:%s:long-lived-operator' % (problem, domain),
                                  dict(problem=problem, domain=domain, iteration=k, element=i, elem=dict(t=[ta, tb], x=[xa, xb]), mean=mean, int_abs=l1,
                                       note='operator created on the mesh of iteration 0; elements of the re-created graded tensor mesh'))
                    break
    shutil.rmtree(tmp, ignore_errors=True)
    res.notes['worst_mean_over_l1'] = worst
