"""C01 — single-layer Galerkin entries equal the 4-fold heat-kernel integral."""
import contextlib
import io
import math

from ..common import seed_rng
from ..formulas_tie import validate
from ..slchecks import (RealOps, StubElem, addr_interval, aspect, corr_bilform, describe, dummy_children, make_curve, ok_aspect, random_real_mesh,
                        seam_and_corner_pairs)
from .C04 import translate  # noqa: F401  (same generated formulas)

PROP_MODS = ['Stbem.Props.C01', 'Stbem.Props.PanelsTie']
RULE = ('correspondence (exact): (i) the real bilform -- ordering/variable swap, the private panel recursion, every '
        'derived rule, the four-term time kernel, the closed-form path with its case split -- run on Q numbers with '
        'rational stand-ins, exact affine pieces and a rational log rule, against the Lean model: same rational '
        'number, over every relative position class of space and time intervals incl. parent/child pairs; (ii) every '
        'translated formula function against the generated Lean term. search (floats): entries of both paths on '
        'random meshes of all five curves (aspect <= 32) incl. (leaf, child/quarter) pairs against the independent '
        'graded reference, tolerance 1e-7*sqrt(D_test*D_trial). non-trivial = non-zero entry; distinct = distinct request.')
TRUSTED = [
    'Lean 4.33 kernel; axioms propext, Classical.choice, Quot.sound only',
    'translate/formulas.py, validated on every run by exact execution of the real functions with stand-ins',
    'hand-written model lean/Stbem/Model/SingleLayer.lean tied by exact correspondence',
    'control flow of __integrate / bilform / evaluate / MP_SL_matrix_col regenerated from the source on every run '
    '(translate/panels.py -> lean/Stbem/Gen/Panels.lean) and proved equal to the hand-written model for all inputs '
    '(Props/PanelsTie.lean); the translator is validated on every run by exact execution of the real methods',
    'assumed laws of the special functions (Ei\' = e^x/x, erf odd, erfc = 1 - erf, exp multiplicative)',
    'NOT covered by any theorem: that the fixed order-12 log rules resolve the heat kernel to 1e-7 (approximation '
    'theory + binary64 rounding) -- search only; this is why the claim is partial',
]
ASSUMPTIONS = ['exact arithmetic in all theorems; independent numeric reference (harness/numref.py) validated against '
               'the closed forms to 1e-13']


def correspond(res, tier):
    corr_bilform(res, tier, 'C01')
    import sys, os
    from ..common import VERIF
    sys.path.insert(0, os.path.join(VERIF, 'translate'))
    import formulas
    bad = validate(res, seed_rng(res.seed, 'C01f'), [t[2] for t in formulas.TARGETS], 12 if tier == 'quick' else 80)
    for b in bad[:3]:
        res.broken_obligation('translator validation: generated Lean term and Python function differ', repr(b))


def search(res, tier, boost=False):
    rng = seed_rng(res.seed, 'C01s')
    curves = ['UnitSquare', 'LShape', 'Circle', 'PiSquare', 'UnitInterval']
    n_mesh = (3 if tier == 'quick' else 15) * (2 if boost else 1)
    n_pairs = 14 if tier == 'quick' else 60
    worst = 0.0
    for mi in range(n_mesh):
        cname = curves[mi % len(curves)]
        gamma, mesh = random_real_mesh(rng, cname, rng.randint(5, 25))
        ops = RealOps(gamma, mesh)
        elems = [e for e in mesh.leaf_elements if ok_aspect(e)]
        if len(elems) < 2:
            continue
        pairs = [(rng.choice(elems), rng.choice(elems)) for _ in range(n_pairs)]
        pairs += [(e, e) for e in rng.sample(elems, min(3, len(elems)))]
        # neighbours and (leaf, child/quarter) pairs
        for e in rng.sample(elems, min(3, len(elems))):
            kids = dummy_children(e)
            for k in kids['quarters'][:2] + kids['time'][:1] + kids['space'][1:]:
                if ok_aspect(k):
                    pairs += [(e, k), (k, e)]
        # configurations the panel recursion treats specially (seam with all size ratios, corners, nested)
        pairs += [(a, b) for a, b, _ in seam_and_corner_pairs(rng, gamma, 24 if tier == 'quick' else 72)
                  if ok_aspect(a) and ok_aspect(b)]
        # every ordered pair of SIDES of a polygon (parallel / anti-parallel / perpendicular, collinear or not, adjacent or
        # opposite): whole sides in touching time slabs, both operator configurations
        if len(gamma.pw_gamma) > 1 and mi < len(curves):
            K = len(gamma.pw_gamma)
            for pi_ in range(K):
                for pj_ in range(K):
                    if pi_ != pj_ and (tier != 'quick' or (pi_ + 2 * pj_ + res.seed) % 3 == 0 or abs(pi_ - pj_) == 4):
                        a_ = StubElem((0.5, 1.0), addr_interval(gamma, (pi_, 0, 0)), gamma.pw_gamma[pi_])
                        b_ = StubElem((0.0, 0.5), addr_interval(gamma, (pj_, 0, 0)), gamma.pw_gamma[pj_])
                        if ok_aspect(a_) and ok_aspect(b_):
                            pairs.append((a_, b_))
        # corpus (kept from earlier rounds, replayed on every run): a panel strictly inside a longer one with unequal
        # remainders, in touching time slabs - the only use of the Duffy rule on a rectangle with unequal sides
        pc = rng.randrange(len(gamma.pw_gamma))
        base = 2 if len(gamma.pw_gamma) == 1 else 0
        for (lj, mj) in ((2, 1), (3, 1), (3, 4)):
            big = StubElem((0.5, 1.0), addr_interval(gamma, (pc, base, 0)), gamma.pw_gamma[pc])
            small = StubElem((0.0, 0.5), addr_interval(gamma, (pc, base + lj, mj)), gamma.pw_gamma[pc])
            if ok_aspect(big) and ok_aspect(small):
                pairs += [(big, small)]
            big2 = StubElem((0.0, 0.5), addr_interval(gamma, (pc, base, 0)), gamma.pw_gamma[pc])
            small2 = StubElem((0.5, 1.0), addr_interval(gamma, (pc, base + lj, mj)), gamma.pw_gamma[pc])
            if ok_aspect(big2) and ok_aspect(small2):
                pairs += [(small2, big2)]
        for te, tr in pairs:
            if te.time_interval[1] <= tr.time_interval[0]:
                continue
            ref = ops.ref(te, tr)
            sc = ops.scale(te, tr)
            for pw in (False, True):
                if pw and cname == 'Circle':
                    continue      # (an operator configured with pw_exact=True must be right for pairs on different sides, too)
                v = ops.SL[pw].bilform(tr, te)
                err = abs(v - ref) / sc
                worst = max(worst, err)
                res.count(('entry', cname, mi, pw, repr(te), repr(tr)), True)
                if err > 1e-7:
                    res.violation('C01:entry-inaccurate:%s' % ('exact-path' if pw else 'quadrature-path'),
                                  dict(curve=cname, pw_exact=pw, test=describe(te), trial=describe(tr), computed=float(v),
                                       reference=ref, scaled_error=err, aspect=[aspect(te), aspect(tr)]))
        # the same entries as delivered by the assembled matrix, serial and worker-pool path (mat[i, j] = <V 1_trial_j, 1_test_i>)
        if len(elems) >= 10 and (tier != 'quick' or mi == 0):
            import contextlib
            import io
            lst = rng.sample(elems, min(len(elems), 12))
            for use_mp in (False, True):
                with contextlib.redirect_stdout(io.StringIO()):
                    mat = ops.SL[False].bilform_matrix(lst, lst, use_mp=use_mp)
                for _ in range(8 if tier == 'quick' else 30):
                    i, j = rng.randrange(len(lst)), rng.randrange(len(lst))
                    te, tr = lst[i], lst[j]
                    acausal = te.time_interval[1] <= tr.time_interval[0]
                    ref = 0.0 if acausal else ops.ref(te, tr)
                    sc = ops.scale(te, tr)
                    err = abs(mat[i, j] - ref) / sc
                    res.count(('matrix-entry', cname, mi, use_mp, repr(te), repr(tr)), not acausal)
                    if err > 1e-7:
                        res.violation('C01:entry-inaccurate:matrix-%s' % ('pool-path' if use_mp else 'serial-path'),
                                      dict(curve=cname, use_mp=use_mp, test=describe(te), trial=describe(tr), i=i, j=j,
                                           computed=float(mat[i, j]), reference=ref, scaled_error=err))
    # (ancestor, descendant) pairs sharing an end point, 1..6 space levels apart, with overlapping time intervals - both are
    # elements of one refinement tree (the estimators pair an element with its children; deeper pairs arise when coarse
    # and fine meshes of one hierarchy are combined).  Straight sides only; the reference is the closed-form path of
    # the code (validated against the independent numeric reference above), the subject is the quadrature path.  On the
    # shipped code the two agree to 2.2e-9 * scale up to 6 levels (1.6e-8 at 7, 1.6e-7 at 8: beyond the quantifier).
    times = [(0.0, 1.0), (0.0, 0.5), (0.5, 1.0), (0.25, 0.5), (0.5, 0.75), (0.0, 0.25), (0.75, 1.0),
             (0.25, 0.75), (0.5, 1.5), (0.125, 0.625)]   # the last three: staggered against the others (elements of two time grids)
    for cname in ('UnitSquare', 'LShape') if tier == 'quick' and not boost else ('UnitSquare', 'LShape', 'PiSquare', 'UnitInterval'):
        gamma = make_curve(cname)
        import contextlib
        import io
        from src.mesh import MeshParametrized
        with contextlib.redirect_stdout(io.StringIO()):
            ops = RealOps(gamma, MeshParametrized(gamma))
        for it in range((18 if tier == 'quick' else 90) * (2 if boost else 1)):
            pc = rng.randrange(len(gamma.pw_gamma))
            la, k = rng.randint(0, 3), 1 + it % 6
            ma = rng.randrange(2**la)
            # end points by the mesh's own bisection arithmetic (bit-identical shared end points)
            a = addr_interval(gamma, (pc, la, ma))
            b = addr_interval(gamma, (pc, la + k, ma * 2**k if (it // 6) % 2 == 0 else (ma + 1) * 2**k - 1))
            ta, tb = rng.choice(times), rng.choice(times)
            if max(ta[0], tb[0]) >= min(ta[1], tb[1]):
                continue
            e1, e2 = StubElem(ta, a, gamma.pw_gamma[pc]), StubElem(tb, b, gamma.pw_gamma[pc])
            if not (ok_aspect(e1) and ok_aspect(e2)):
                continue
            for te, tr in ((e1, e2), (e2, e1)):
                if te.time_interval[1] <= tr.time_interval[0]:
                    continue
                vq, vx = ops.SL[False].bilform(tr, te), ops.SL[True].bilform(tr, te)
                sc = ops.scale(te, tr)
                err = abs(vq - vx) / sc
                worst = max(worst, err)
                res.count(('ancestor-shared-end', cname, pc, la, k, repr(te), repr(tr)), True)
                if err > 1e-7:
                    res.violation('C01:entry-inaccurate:quadrature-path:ancestor-shared-end',
                                  dict(curve=cname, test=describe(te), trial=describe(tr), levels_apart=k, computed=float(vq),
                                       closed_form=float(vx), scaled_error=err))
    # far pairs inside the aspect bound: small panels (h_x = 2^-3 ... 2^-5, h_t = h_x^2 / 32 ... h_x^2 / 8) on one side, several panel
    # lengths apart, the test element tens to hundreds of slabs later - entries of 1e-8 ... 1e-4 of the diagonal scale that
    # a "negligible" shortcut must not drop; both paths against the independent reference
    try:
        for cname in ('UnitSquare',) if tier == 'quick' and not boost else ('UnitSquare', 'LShape', 'UnitInterval'):
            gamma = make_curve(cname)
            with contextlib.redirect_stdout(io.StringIO()):
                ops = RealOps(gamma, MeshParametrized(gamma))
            base = 2 if len(gamma.pw_gamma) == 1 else 0
            for it in range(6 if tier == 'quick' else 30):
                pc = rng.randrange(len(gamma.pw_gamma))
                l = base + rng.randint(3, 5)
                n = 2**(l - base)
                m1 = rng.randrange(n)
                far = [m for m in range(n) if abs(m - m1) >= 4]
                if not far:
                    continue
                m2 = rng.choice(far)
                xt, xr = addr_interval(gamma, (pc, l, m1)), addr_interval(gamma, (pc, l, m2))
                hx = float(xt[1] - xt[0])
                ht = 2.0**round(math.log2(hx * hx / rng.choice([32, 16, 8])))
                gap = abs(float(xt[0] - xr[0])) - hx
                K = max(2, int(gap * gap / (4 * rng.uniform(8, 18)) / ht))      # lag with exp(-gap^2 / (4 lag)) = e^-8 ... e^-18
                te, tr = StubElem((K * ht, (K + 1) * ht), xt, gamma.pw_gamma[pc]), StubElem((0.0, ht * rng.choice([1, 2])), xr, gamma.pw_gamma[pc])
                if not (ok_aspect(te) and ok_aspect(tr)):
                    continue
                ref, sc = ops.ref(te, tr), ops.scale(te, tr)
                for pw in (False, True):
                    v = ops.SL[pw].bilform(tr, te)
                    err = abs(v - ref) / sc
                    worst = max(worst, err)
                    res.count(('far-pair', cname, pc, l, m1, m2, K, pw), ref > 1e-9 * sc)
                    if err > 1e-7:
                        res.violation('C01:entry-inaccurate:%s:far-pair' % ('exact-path' if pw else 'quadrature-path'),
                                      dict(curve=cname, pw_exact=pw, test=describe(te), trial=describe(tr), slabs_apart=K, computed=float(v),
                                           reference=ref, reference_over_scale=ref / sc, scaled_error=err, aspect=[aspect(te), aspect(tr)]))
    except AssertionError as exc:
        res.notes['far_pairs_skipped'] = repr(exc)
    # one long-lived closed-form operator over ALL ordered same-side pairs of a locally refined side (elements of two space
    # levels at every position, equal or touching time slabs): whatever the operator keeps between calls must not change an
    # entry.  Each entry is compared with a freshly created operator; when the two differ the independent graded reference
    # decides which of them is wrong (only then - the reference costs ~0.1 s per entry).
    try:
        from src.single_layer import SingleLayerOperator
        from src.mesh import MeshParametrized
        for cname in ('UnitSquare',) if tier == 'quick' and not boost else ('UnitSquare', 'LShape', 'PiSquare', 'UnitInterval'):
            gamma = make_curve(cname)
            with contextlib.redirect_stdout(io.StringIO()):
                mesh0 = MeshParametrized(gamma)
                ops = RealOps(gamma, mesh0)
            pc = rng.randrange(len(gamma.pw_gamma))
            base = 2 if len(gamma.pw_gamma) == 1 else 0
            levels = (base + 1, base + 2) if tier == 'quick' else (base + 1, base + 2, base + 3)
            slabs = [(0.0, 0.5), (0.5, 1.0)] if rng.random() < 0.5 else [(0.0, 0.25), (0.25, 0.5)]
            els = [StubElem(t, addr_interval(gamma, (pc, l, m)), gamma.pw_gamma[pc])
                   for t in slabs for l in levels for m in range(2**(l - base))]
            els = [e for e in els if ok_aspect(e)]
            order = [(te, tr) for te in els for tr in els if te.time_interval[1] > tr.time_interval[0]]
            rng.shuffle(order)
            for te, tr in order:
                with contextlib.redirect_stdout(io.StringIO()):
                    fresh = SingleLayerOperator(mesh0, pw_exact=True)
                v_old, v_new = ops.SL[True].bilform(tr, te), fresh.bilform(tr, te)
                sc = math.sqrt(abs(fresh.bilform(te, te) * fresh.bilform(tr, tr)))
                res.count(('long-lived-exact', cname, pc, repr(te), repr(tr)), True)
                if abs(v_old - v_new) > 1e-9 * sc:
                    ref = ops.ref(te, tr)
                    sc = ops.scale(te, tr)
                    for tag, v in (('long-lived', v_old), ('fresh', v_new)):
                        if abs(v - ref) / sc > 1e-7:
                            res.violation('C01:entry-inaccurate:exact-path:%s-operator' % tag,
                                          dict(curve=cname, piece=pc, test=describe(te), trial=describe(tr), computed=float(v),
                                               other_operator=float(v_new if tag == 'long-lived' else v_old), reference=ref,
                                               scaled_error=abs(v - ref) / sc,
                                               history='one SingleLayerOperator(pw_exact=True) asked for all ordered same-side '
                                                       'pairs of two space levels in random order'))
    except AssertionError as exc:
        res.notes['long_lived_exact_sweep_skipped'] = repr(exc)
    res.notes['worst_scaled_error'] = worst
