"""C11 — Galerkin entries are additive under splitting of either element."""
import os
import contextlib
import io
from fractions import Fraction as F

from ..common import run_driver, seed_rng
from ..qnum import installed
from ..sllib import TIME_LATTICE, Fixture, random_space_intervals, result_str
from ..slchecks import (RealOps, corr_panels, describe, dummy_children, ok_aspect, random_real_mesh, seam_and_corner_pairs,
                        with_generated)
from ..slchecks import StubElem, addr_interval, make_curve  # noqa: E402
from .C04 import translate  # noqa: F401

PROP_MODS = ['Stbem.Props.C11', 'Stbem.Props.PanelsTie']
RULE = ('correspondence (exact): parent entry and the entries of its time halves / space halves / quarters computed '
        'by the real bilform on Q numbers must each equal the model value; with the closed-form path the pieces must '
        'sum to the parent exactly (the Psi-combinations telescope), with the quadrature path the model predicts the '
        'exact rational gap. search (floats): all 3x3 split kinds on leaf pairs of random meshes of all curves, '
        'tolerance 1e-7*sqrt(D_test*D_trial). non-trivial = causal pair with a real split; distinct = (pair, split kinds).')
TRUSTED = [
    'Lean 4.33 kernel; axioms propext, Classical.choice, Quot.sound only',
    'translate/formulas.py + exact correspondence as in C01',
    'control flow of __integrate / bilform / evaluate / MP_SL_matrix_col regenerated from the source on every run '
    '(translate/panels.py -> lean/Stbem/Gen/Panels.lean) and proved equal to the hand-written model for all inputs '
    '(Props/PanelsTie.lean); the translator is validated on every run by exact execution of the real methods',
    'additivity for the true kernel on the quadrature path holds only up to quadrature error: search only (partial)',
]
ASSUMPTIONS = ['exact arithmetic in the theorems']


def halves(fx, e_t, e_x, kind):
    (t0, t1), (x0, x1) = e_t, e_x
    tm, xm = (t0 + t1) / 2, (x0 + x1) / 2
    if kind == 'none':
        return [((t0, t1), (x0, x1))]
    if kind == 'time':
        return [((t0, tm), (x0, x1)), ((tm, t1), (x0, x1))]
    if kind == 'space':
        return [((t0, t1), (x0, xm)), ((t0, t1), (xm, x1))]
    return [((t0, tm), (x0, xm)), ((t0, tm), (xm, x1)), ((tm, t1), (x0, xm)), ((tm, t1), (xm, x1))]


def correspond(res, tier):
    rng = seed_rng(res.seed, 'C11')
    n = 6 if tier == 'quick' else 40
    for curve in ('unitsquare', 'lshape'):
        for pw in (False, True):
            fx = Fixture(rng, curve, pw, laws=True)
            lines = fx.context_lines()
            expect = ['ok'] * len(lines)
            groups = []
            ivs = random_space_intervals(rng, fx, 8)
            with installed(fx.standins):
                for _ in range(n):
                    xa, xb = rng.choice(ivs), rng.choice(ivs)
                    if rng.random() < 0.3:   # one-level finer neighbour of another slab: its space children are
                        xb = (xa[0], (xa[0] + xa[1]) / 2)   # strictly inside xa
                    if pw and fx.piece_index(xa[0]) != fx.piece_index(xb[0]):
                        xb = xa
                    ta, tb = rng.choice(TIME_LATTICE), rng.choice(TIME_LATTICE)
                    ks, kt = rng.choice(['none', 'time', 'space', 'quarters']), rng.choice(['none', 'time', 'space', 'quarters'])
                    start = len(lines)
                    vals = []
                    for (tt, tx) in [((ta), (xa))]:
                        pass
                    for part_t in halves(fx, ta, xa, ks):
                        for part_r in halves(fx, tb, xb, kt):
                            te = fx.elem(part_t[0][0], part_t[0][1], part_t[1][0], part_t[1][1])
                            tr = fx.elem(part_r[0][0], part_r[0][1], part_r[1][0], part_r[1][1])
                            v = fx.SL.bilform(tr, te)
                            vals.append(v)
                            lines.append('sl bil %d %s %s' % (pw, tr.encode(), te.encode()))
                            expect.append(result_str(v))
                    te, tr = fx.elem(ta[0], ta[1], xa[0], xa[1]), fx.elem(tb[0], tb[1], xb[0], xb[1])
                    parent = fx.SL.bilform(tr, te)
                    lines.append('sl bil %d %s %s' % (pw, tr.encode(), te.encode()))
                    expect.append(result_str(parent))
                    groups.append((start, len(lines), pw, ks, kt, result_str(sum(vals[1:], vals[0])), result_str(parent)))
            with_generated(lines, expect)   # `sl genbil`: the bilform regenerated from the source (Gen/Panels.lean)
            out = run_driver(lines)
            for line, want, got in zip(lines, expect, out):
                if want != got and not (want == 'ok'):
                    res.broken_obligation('correspondence C11: model and code differ', 'line: %s\npython %s\nmodel %s' % (line, want[:200], got[:200]))
                    return
            for start, end, pw_, ks, kt, s, parent in groups:
                res.count(('split', curve, pw_, ks, kt, start), ks != 'none' or kt != 'none')
                if pw_ and s != parent:
                    # the closed-form path is exactly additive for arbitrary stand-in special functions
                    res.broken_obligation('C11: closed-form path not exactly additive in exact arithmetic',
                                          'split %s/%s pieces sum to %s, parent %s' % (ks, kt, s[:100], parent[:100]))
    res.sample(dict(curve='unitsquare', split_kinds=['none', 'time', 'space', 'quarters']))
    corr_panels(res, tier, 'C11p', curves=('unitsquare', 'lshape'))


_PROBE = r"""
import contextlib, io, sys, math
from src.mesh import MeshParametrized
from src.parametrization import UnitSquare, Circle
from src.single_layer import SingleLayerOperator
from src.hierarchical_error_estimator import DummyElement
order = sys.argv[1]
out = []
for curve in (UnitSquare(), Circle()):
    with contextlib.redirect_stdout(io.StringIO()):
        mesh = MeshParametrized(curve)
        mesh.uniform_refine()
        if order == 'preview-first':
            preview = SingleLayerOperator(mesh, quad_order=2)        # a cheap low-order operator, e.g. for a first look
            preview.bilform(list(mesh.leaf_elements)[0], list(mesh.leaf_elements)[0])
        SL = SingleLayerOperator(mesh)                               # the operator whose entries are used
        if order == 'preview-after':
            preview = SingleLayerOperator(mesh, quad_order=2)
    els = list(mesh.leaf_elements)
    for te, tr in ((els[0], els[0]), (els[-1], els[0]), (els[-1], els[1]), (els[len(els) // 2], els[0])):
        if te.time_interval[1] <= tr.time_interval[0]:
            continue
        parent = SL.bilform(tr, te)
        kids_t = DummyElement.uniform_refinement([te])[0]
        kids_r = DummyElement.uniform_refinement([tr])[0]
        s = sum(SL.bilform(b, a) for a in kids_t for b in kids_r)
        sc = math.sqrt(abs(SL.bilform(te, te) * SL.bilform(tr, tr)))
        out.append('%s %r %r %s %s %s' % (type(curve).__name__, (tuple(map(float, te.time_interval)), tuple(map(float, te.space_interval))),
                                          (tuple(map(float, tr.time_interval)), tuple(map(float, tr.space_interval))),
                                          float(parent).hex(), float(s).hex(), float(sc).hex()))
print('\n'.join(out))
"""


def construction_order_probe(res):
    """Fresh interpreter per run: the default operator alone, or with a low-order operator (quad_order=2) constructed before /
    after it in the same process.  Additivity over the 4 x 4 quarters must hold for the default operator in each run."""
    import subprocess
    import sys
    from ..common import REPO
    for order in ('alone', 'preview-first', 'preview-after'):
        env = dict(os.environ, PYTHONPATH=REPO)
        try:
            pr = subprocess.run([sys.executable, '-c', _PROBE, order], capture_output=True, text=True, timeout=600, env=env, cwd='/')
        except subprocess.TimeoutExpired:
            res.notes['construction_order_probe'] = 'timeout'
            return
        if pr.returncode != 0:
            res.violation('C11:construction-order:%s:raises' % order, dict(order=order, stderr=pr.stderr[-1500:]))
            continue
        for line in pr.stdout.strip().splitlines():
            f = line.rsplit(' ', 3)
            parent, s, sc = (float.fromhex(v) for v in f[1:])
            err = abs(s - parent) / sc
            res.count(('construction-order', order, f[0]), True)
            if err > 1e-7:
                res.violation('C11:not-additive:construction-order:%s' % order,
                              dict(order=order, pair=f[0], parent=parent, sum_of_quarters=s, scaled_defect=err,
                                   history='fresh interpreter; operators constructed in the order %r; entries of the default operator' % order))
                break


def few_pieces_probe(res, rng, tier):
    """Closed curves handed a user space grid with one or two pieces per slab (the constructor must bring every slab to at
    least three panels, otherwise two panels touch at BOTH ends): additivity over the quarters on all leaf pairs."""
    import math
    from src.mesh import MeshParametrized
    import src.parametrization as P
    from src.single_layer import SingleLayerOperator
    from src.hierarchical_error_estimator import DummyElement
    cases = [('Circle', [0, math.pi, 2 * math.pi]), ('UnitSquare', [0, 2, 4]), ('Circle', [0, 2 * math.pi]), ('UnitSquare', [0, 1, 4])]
    for cname, grid in cases[:(2 if tier == 'quick' else 4)]:
        try:
            with contextlib.redirect_stdout(io.StringIO()):
                mesh = MeshParametrized(getattr(P, cname)(), initial_space_mesh=list(grid))
                SL = SingleLayerOperator(mesh)
        except AssertionError:
            continue
        els = list(mesh.leaf_elements)
        pairs = [(a, b) for a in els for b in els]
        rng.shuffle(pairs)
        for te, tr in pairs[:(12 if tier == 'quick' else 60)]:
            parent = SL.bilform(tr, te)
            kt, kr = DummyElement.uniform_refinement([te])[0], DummyElement.uniform_refinement([tr])[0]
            s = sum(SL.bilform(b, a) for a in kt for b in kr)
            sc = math.sqrt(abs(SL.bilform(te, te) * SL.bilform(tr, tr)))
            res.count(('few-pieces', cname, tuple(grid), repr(te), repr(tr)), True)
            if abs(s - parent) > 1e-7 * sc:
                res.violation('C11:not-additive:few-pieces-per-slab',
                              dict(curve=cname, initial_space_mesh=[float(g) for g in grid], leaves_per_slab=len(els), test=describe(te),
                                   trial=describe(tr), parent=float(parent), sum_of_quarters=float(s), scaled_defect=abs(s - parent) / sc))
                break


def flat_parent_probe(res, rng, tier):
    """Parents that are flat in time (aspect h_x^2/h_t = 32 ... 64) split in SPACE or into quarters, so that the pieces have aspect
    <= 32 (the quantifier bounds the aspect after splitting): same-side pairs in the same, the next and the next-but-one slab
    - a small time gap against h_x^2, where the kernel has a sharp ridge along the diagonal."""
    import math
    from src.mesh import MeshParametrized
    from ..slchecks import StubElem, addr_interval, make_curve
    for cname in ('UnitSquare',) if tier == 'quick' else ('UnitSquare', 'LShape', 'UnitInterval'):
        gamma = make_curve(cname)
        with contextlib.redirect_stdout(io.StringIO()):
            ops = RealOps(gamma, MeshParametrized(gamma))
        base = 2 if len(gamma.pw_gamma) == 1 else 0
        for it in range(6 if tier == 'quick' else 30):
            pc = rng.randrange(len(gamma.pw_gamma))
            l = base + rng.randint(0, 2)
            n = 2**(l - base)
            m1 = rng.randrange(n)
            m2 = min(n - 1, max(0, m1 + rng.choice([0, 0, 1, -1])))
            xt, xr = addr_interval(gamma, (pc, l, m1)), addr_interval(gamma, (pc, l, m2))
            hx = float(xt[1] - xt[0])
            asp = (32, 64)[it % 2]
            if asp == 64:
                xr = xt      # (aspect-64 parents: identical panels only - neighbouring panels reach 2.3e-8 on the shipped code: too close)
                m2 = m1
            ht = 2.0**round(math.log2(hx * hx / asp))
            splits = [('space', 'none'), ('none', 'space'), ('space', 'space')]
            if asp == 32:
                splits += [('quarters', 'quarters'), ('quarters', 'space')]      # (pieces of aspect 16; quarters of aspect-64 parents
            for k, pw in [(k, pw) for k in (0, 1, 2) for pw in (False, True)]:    #  reach 1.1e-8 on the shipped code: too close)
                te, tr = StubElem((k * ht, (k + 1) * ht), xt, gamma.pw_gamma[pc]), StubElem((0.0, ht), xr, gamma.pw_gamma[pc])
                kt, kr = dummy_children(te), dummy_children(tr)
                sc = ops.scale(te, tr)
                SL = ops.SL[pw]
                parent = SL.bilform(tr, te)
                for ks, kk in splits:
                    s = sum(SL.bilform(b, a) for a in kt[ks] for b in kr[kk])
                    err = abs(s - parent) / sc
                    res.count(('flat-parent', cname, pc, l, m1, m2, k, pw, ks, kk), True)
                    if err > res.notes.get('worst_flat_parent_defect', 0.0):
                        res.notes['worst_flat_parent_defect'] = float('%.3g' % err)
                        res.notes['worst_flat_parent_config'] = dict(aspect=asp, slabs_apart=k, pw_exact=pw, split=[ks, kk], level=l - base, same_panel=m1 == m2)
                    if err > 1e-7:
                        res.violation('C11:not-additive:%s:flat-parent' % ('exact-path' if pw else 'quadrature-path'),
                                      dict(curve=cname, pw_exact=pw, test=describe(te), trial=describe(tr), split_test=ks, split_trial=kk,
                                           slabs_apart=k, parent=float(parent), sum_of_pieces=float(s), scaled_defect=err,
                                           aspect_parent=hx * hx / ht))
                        break


def search(res, tier, boost=False):
    rng = seed_rng(res.seed, 'C11s')
    construction_order_probe(res)
    few_pieces_probe(res, rng, tier)
    try:
        flat_parent_probe(res, seed_rng(res.seed, 'C11flat'), tier)
    except AssertionError as exc:
        res.notes['flat_parent_probe_skipped'] = repr(exc)
    curves = ['UnitSquare', 'Circle', 'LShape', 'PiSquare']
    n_mesh = (3 if tier == 'quick' else 12) * (2 if boost else 1)
    n_pairs = 8 if tier == 'quick' else 20
    worst = 0.0
    for mi in range(n_mesh):
        cname = curves[mi % len(curves)]
        gamma, mesh = random_real_mesh(rng, cname, rng.randint(4, 16), max_aspect=16)
        ops = RealOps(gamma, mesh)
        elems = [e for e in mesh.leaf_elements if ok_aspect(e, 16)]
        if not elems:
            continue
        special = [(a, b) for a, b, _ in seam_and_corner_pairs(rng, gamma, max(n_pairs, 12)) if ok_aspect(a, 8) and ok_aspect(b, 8)]
        for it in range(n_pairs + len(special)):
            if it < n_pairs:
                te, tr = rng.choice(elems), rng.choice(elems)
                if rng.random() < 0.3:
                    tr = te
            else:
                te, tr = special[it - n_pairs]
            if te.time_interval[1] <= tr.time_interval[0]:
                continue
            sc = ops.scale(te, tr)
            for pw in (False, True):
                if pw and cname == 'Circle':
                    continue
                SL = ops.SL[pw]
                parent = SL.bilform(tr, te)
                kt, kr = dummy_children(te), dummy_children(tr)
                for ks in ('none', 'time', 'space', 'quarters'):
                    for kk in ('none', 'time', 'space', 'quarters'):
                        if ks == 'none' and kk == 'none':
                            continue
                        if rng.random() > (0.35 if tier == 'quick' else 1.0):
                            continue
                        s = sum(SL.bilform(b, a) for a in kt[ks] for b in kr[kk])
                        err = abs(s - parent) / sc
                        worst = max(worst, err)
                        res.count(('split', cname, mi, pw, repr(te), repr(tr), ks, kk), True)
                        if err > 1e-7:
                            res.violation('C11:not-additive:%s' % ('exact-path' if pw else 'quadrature-path'),
                                          dict(curve=cname, pw_exact=pw, test=describe(te), trial=describe(tr), split_test=ks,
                                               split_trial=kk, parent=float(parent), pieces=float(s), scaled_error=err))
    # TREE pairs: an element and a much smaller one (1..6 space levels finer) touching it from outside, or one or two
    # small elements away, on the same side / arc, with overlapping
    # time intervals - pairs of a coarse and a fine level of one refinement hierarchy (ancestor of a leaf against a
    # neighbouring leaf).  On the shipped code the defect is below 1e-8 * scale for these.
    times = [(0.0, 1.0), (0.0, 0.5), (0.5, 1.0), (0.25, 0.5), (0.5, 0.75), (0.25, 0.75), (0.5, 1.5)]
    for cname in ('UnitSquare', 'Circle') if tier == 'quick' and not boost else ('UnitSquare', 'Circle', 'LShape', 'PiSquare'):
        gamma = make_curve(cname)
        with contextlib.redirect_stdout(io.StringIO()):
            from src.mesh import MeshParametrized
            ops = RealOps(gamma, MeshParametrized(gamma))
        L = float(gamma.gamma_length)
        K = len(gamma.pw_gamma)
        for it in range((10 if tier == 'quick' else 60) * (2 if boost else 1)):
            pc = rng.randrange(K)
            la = rng.randint(2 if K == 1 else 0, 3 if K == 1 else 2)
            k = 1 + it % 6
            ma = rng.randrange(2**la)
            gapn = rng.choice([0, 0, 1, 2])
            right = rng.random() < 0.5
            mb = (ma + 1) * 2**k + gapn if right else ma * 2**k - 1 - gapn
            if not (0 <= mb < 2**(la + k)):
                continue      # would leave the piece (corner / seam): those pairs are generated by seam_and_corner_pairs
            # end points by the mesh's own bisection arithmetic (bit-identical shared end points, also on the pi-square / circle)
            a = addr_interval(gamma, (pc, la, ma))
            b = addr_interval(gamma, (pc, la + k, mb))
            pb = pc
            ta, tb = rng.choice(times), rng.choice(times)
            if max(ta[0], tb[0]) >= min(ta[1], tb[1]):
                continue
            e1 = StubElem(ta, a, gamma.pw_gamma[pc])
            e2 = StubElem(tb, b, gamma.pw_gamma[pb])
            if not (ok_aspect(e1, 16) and ok_aspect(e2, 16)):
                continue
            for te, tr in ((e1, e2), (e2, e1)):
                sc = ops.scale(te, tr)
                for pw in (False, True):
                    if pw and (cname == 'Circle' or te.gamma_space is not tr.gamma_space):
                        continue
                    SL = ops.SL[pw]
                    parent = SL.bilform(tr, te)
                    kte, ktr = dummy_children(te), dummy_children(tr)
                    for ks, kk in (('space', 'none'), ('none', 'space'), ('quarters', 'none'), ('time', 'space')):
                        sm = sum(SL.bilform(b_, a_) for a_ in kte[ks] for b_ in ktr[kk])
                        err = abs(sm - parent) / sc
                        worst = max(worst, err)
                        res.notes['worst_tree_pair'] = max(res.notes.get('worst_tree_pair', 0.0), err)
                        res.count(('split-tree', cname, pc, la, k, right, pw, ks, kk, repr(te)), True)
                        if err > 1e-7:
                            res.violation('C11:not-additive:%s:tree-pair' % ('exact-path' if pw else 'quadrature-path'),
                                          dict(curve=cname, pw_exact=pw, test=describe(te), trial=describe(tr), split_test=ks,
                                               split_trial=kk, parent=float(parent), pieces=float(sm), scaled_error=err,
                                               levels_apart=k))
                            break
    # DEEP elements (time level 16..26, h_t down to 1.5e-8; space level so that h_x^2 / h_t stays O(1)): parent and
    # children differ by less than 1e-6 in their coordinates; parent, children and neighbours are all evaluated by one
    # operator object
    gamma0 = make_curve('UnitSquare')
    with contextlib.redirect_stdout(io.StringIO()):
        from src.mesh import MeshParametrized
        ops = RealOps(gamma0, MeshParametrized(gamma0))
    n_deep = (6 if tier == 'quick' else 40) * (2 if boost else 1)
    for it in range(n_deep):
        lt = rng.randint(16, 26)
        lx = max(1, (lt + rng.randint(-2, 2)) // 2)
        ht, hx = 2.0**-lt, 2.0**-lx
        kt = rng.choice([0, 1, 2, rng.randrange(2**min(lt, 20))])
        piece = rng.randrange(4)
        kx = rng.randrange(2**lx - 1)
        g = gamma0.pw_gamma[piece]
        x0 = float(gamma0.pw_start[piece]) + kx * hx
        te = StubElem((kt * ht, (kt + 1) * ht), (x0, x0 + hx), g)
        cands = [te, StubElem(te.time_interval, (x0 + hx, x0 + 2 * hx), g)]
        if kt >= 1:
            cands.append(StubElem(((kt - 1) * ht, kt * ht), (x0, x0 + hx), g))
        tr = cands[it % len(cands)]
        sc = ops.scale(te, tr)
        for pw in (False, True):
            SL = ops.SL[pw]
            parent = SL.bilform(tr, te)
            kte, ktr = dummy_children(te), dummy_children(tr)
            for ks, kk in (('time', 'none'), ('none', 'time'), ('space', 'none'), ('quarters', 'quarters'), ('time', 'space')):
                sm = sum(SL.bilform(b, a) for a in kte[ks] for b in ktr[kk])
                err = abs(sm - parent) / sc
                worst = max(worst, err)
                res.count(('split-deep', lt, lx, kt, piece, kx, it % 3, pw, ks, kk), True)
                if err > 1e-7:
                    res.violation('C11:not-additive:%s:deep' % ('exact-path' if pw else 'quadrature-path'),
                                  dict(curve='UnitSquare', pw_exact=pw, test=describe(te), trial=describe(tr), split_test=ks,
                                       split_trial=kk, parent=float(parent), pieces=float(sm), scaled_error=err,
                                       time_level=lt, space_level=lx))
                    break
    res.notes['worst_scaled_error'] = worst
