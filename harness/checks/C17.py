"""C17 — assembly paths, worker schedules and the disk cache are transparent.

correspond: the REAL `SingleLayerOperator.bilform_matrix` / `InitialOperator.linform_vector` with TOKEN leaves
  (an exactly representable number that identifies the pair / element) on real meshes,
  (a) every path (inline, serial, pool with 1, 2, 3, 7, 16 workers) against pair-wise evaluation (bitwise) and
      against the Lean model `computeMatrix` / `computeVector` under several schedules;
  (b) histories of calls / failing saves / killed processes / truncations against real files in a fresh
      directory, against the Lean model `run` (returned values and file states after every event); one third of
      the histories runs several operator configurations (quad_order, pw_exact) per curve against the one
      directory: every call must return its own operator's matrix (oracle) and use its own file (model);
  (c) the configuration text `str((quad_order, pw_exact))` against the model's `cfgText`.
search: property oracle in plain Python with the REAL leaves (floats, bitwise), file names of different
  element lists / curves / configurations, operators that differ in pw_exact / quad_order against one directory
  (the repaired behaviour of finding F7 is the required one: no shared entry, each result = its own pair-wise
  evaluation; violation key `C17:cache-key-ignores-config`).
"""
import gc
import hashlib
import io
import multiprocessing
import os
import shutil
import struct
import tempfile
import threading
import time

import numpy as np

from ..common import q2s, run_driver, seed_rng, silence_stdout

PROP_MODS = ['Stbem.Props.C17', 'Stbem.Props.SLRestTie']
RULE = ('correspondence: real meshes on UnitSquare / Circle / LShape / PiSquare / UnitInterval (uniform + random '
        'local refinement), rectangular test/trial sub-lists with N*M on both sides of 100, token leaves; one case = '
        'one call of the real routine on one path; distinct = distinct (curve, mesh, sub-lists, path, workers, chunk, '
        'leaf kind) resp. distinct (history, event index); non-trivial = N*M >= 100 or a pool / cache event. '
        'search: real leaves, bitwise, pair-wise oracle; one evaluation = one matrix / vector compared.')
TRUSTED = [
    'Lean 4.33 kernel; axioms propext, Classical.choice, Quot.sound only',
    'correspondence harness harness/checks/C17.py + Lean driver parser (Driver/AsmCmd.lean)',
    'ALL of SingleLayerOperator.bilform_matrix and MP_SL_matrix_col (defaults, threshold, hashed text and file name, np.load / '
    'np.save in try, serial loop, pool with the chunk size of the code) regenerated from the source on every run '
    '(translate/slrest.py -> Gen/SLRest.lean) and proved equal to computeMatrix / callStep slSpec for all inputs '
    '(Props/SLRestTie.lean); every `asm mat` / `asm hist` request is answered by the generated method too (`asm gmat`, `asm ghist`)',
    'CPython multiprocessing (fork start method, Pool.imap / Pool.map yield results in task order; workers see the '
    'parent globals as of pool creation), numpy.save / numpy.load (load raises on anything but a complete file), '
    'hashlib.md5 — modelled (Schedule, forkView, FileState, injective hash), not verified',
]
ASSUMPTIONS = [
    'the leaf is a deterministic function of the pair (same value in parent and forked workers) and 0 on acausal '
    'pairs (C04)',
    'md5 is collision-free on the rendered texts; the element repr `Elem(t=(..), x=(..))` is prefix-free and the curve '
    'name contains no `[` (checked on every mesh used here)',
    'a damaged file is one numpy.load rejects (missing, truncated, not an array file); a bit flip inside the data '
    'block of a complete file is outside the model',
    'key discipline: all operators sharing a cache directory under one curve name AND one configuration text '
    'str((quad_order, pw_exact)) have the same leaf, i.e. bilform is determined by curve, quad_order and pw_exact '
    '(operators that differ in pw_exact / quad_order get different files since the repair of finding F7; Lean: '
    'cache_transparent_across_configs; the unrepaired name: key_not_injective_on_config_unfixed_witness)',
    'quad_order is a non-negative int and pw_exact a bool (cfgText models str of such a tuple)',
]



def translate(res):
    # Gen/FormulasQ, Gen/Panels, Gen/SLRest (the generated bilform_matrix answers `asm gmat` / `asm ghist`)
    from . import C04
    C04.translate(res)


WORKERS = (1, 2, 3, 7, 16)
TOK_BASE = 4194304  # 2**22


# --------------------------------------------------------------------------------------------------
# process pools: a stand-in for the name `mp` inside a repo module
class _PoolProxy:
    def __init__(self, pool, shim):
        self._pool, self._shim = pool, shim

    def imap(self, f, it, chunksize=1):
        self._shim.chunks.append(chunksize)
        return self._pool.imap(f, it, chunksize)

    def map(self, f, it, chunksize=None):
        self._shim.chunks.append(chunksize)
        return self._pool.map(f, it, chunksize)

    def __enter__(self):
        return self

    def __exit__(self, *a):
        self._pool.terminate()

    def __getattr__(self, name):
        return getattr(self._pool, name)


class MPShim:
    """`mp.cpu_count()` fixed to `cpus`; every pool the code creates (and never closes) is recorded."""
    def __init__(self, cpus):
        self.cpus, self.pools, self.chunks, self.sizes = cpus, [], [], []

    def cpu_count(self):
        return self.cpus

    def Pool(self, processes=None, *a, **k):
        p = multiprocessing.get_context('fork').Pool(processes, *a, **k)
        self.pools.append(p)
        self.sizes.append(processes)
        return _PoolProxy(p, self)

    def close(self):
        """Pool.terminate() can dead-lock when the iterator of a pool was abandoned half-way (an exception in the
        consuming loop); it is therefore run in a helper thread, and the workers are killed if it does not return."""
        for p in self.pools:
            t = threading.Thread(target=p.terminate, daemon=True)
            t.start()
            t.join(10)
            if t.is_alive():
                for w in list(getattr(p, '_pool', [])):
                    try:
                        w.kill()
                    except Exception:
                        pass
                t.join(2)
        self.pools = []


class patched_mp:
    def __init__(self, module, cpus):
        self.module, self.shim = module, MPShim(cpus)

    def __enter__(self):
        self.saved = self.module.mp
        self.module.mp = self.shim
        return self.shim

    def __exit__(self, *a):
        self.module.mp = self.saved
        self.shim.close()
        gc.collect()


# --------------------------------------------------------------------------------------------------
# numpy stand-in for the name `np` inside a repo module: controls how `np.save` ends
class NPShim:
    def __init__(self, mode):
        self.mode = mode  # 'n' raise before writing, 'p' partial file then raise, 'kill-*' exit the process

    def __getattr__(self, name):
        return getattr(np, name)

    def save(self, fn, arr):
        if self.mode == 'n':
            raise OSError('simulated: directory not writable')
        if self.mode == 'kill-n':
            os._exit(0)
        buf = io.BytesIO()
        np.save(buf, arr)
        raw = buf.getvalue()
        if self.mode == 'kill-w':
            with open(fn, 'wb') as fh:
                fh.write(raw)
            os._exit(0)
        with open(fn, 'wb') as fh:
            fh.write(raw[:len(raw) // 2 + 3])
        if self.mode == 'kill-p':
            os._exit(0)
        raise OSError('simulated: no space left on device')


class patched_np:
    def __init__(self, module, mode):
        self.module, self.mode = module, mode

    def __enter__(self):
        self.saved = self.module.np
        if self.mode != 'w':
            self.module.np = NPShim(self.mode)

    def __exit__(self, *a):
        self.module.np = self.saved


def in_child(fn):
    """Runs fn() in a forked child that is expected to die inside; returns when it is gone."""
    pid = os.fork()
    if pid == 0:
        try:
            with silence_stdout():
                fn()
        finally:
            os._exit(0)
    os.waitpid(pid, 0)


# --------------------------------------------------------------------------------------------------
# token leaves
def token_bilform(self, elem_trial, elem_test):
    if self._tok_causal and elem_test.time_interval[1] <= elem_trial.time_interval[0]:
        return 0
    if self._tok_jitter:
        time.sleep(0.0004 * ((elem_trial._tok_id * 7 + 3) % 5))
    return float((self._tok_k + 1) * TOK_BASE + elem_trial._tok_id * 2048 + elem_test._tok_id + 1)


def token_linform(self, elem_trial):
    return float((self._tok_k + 1) * TOK_BASE + elem_trial._tok_id + 1), []


def token_weighted_l2(self, elem, residual):
    return float(residual + elem._tok_id + 1), float(2 * residual + elem._tok_id + 1)


class token_leaves:
    """Replaces the leaves of the real classes by tokens (class attributes: forked workers inherit them)."""
    def __enter__(self):
        from src.error_estimator import ErrorEstimator
        from src.initial_potential import InitialOperator
        from src.single_layer import SingleLayerOperator
        self.saved = (SingleLayerOperator.bilform, InitialOperator.linform, ErrorEstimator.weighted_l2)
        SingleLayerOperator.bilform = token_bilform
        InitialOperator.linform = token_linform
        ErrorEstimator.weighted_l2 = token_weighted_l2
        return self

    def __exit__(self, *a):
        from src.error_estimator import ErrorEstimator
        from src.initial_potential import InitialOperator
        from src.single_layer import SingleLayerOperator
        SingleLayerOperator.bilform, InitialOperator.linform, ErrorEstimator.weighted_l2 = self.saved


# --------------------------------------------------------------------------------------------------
# meshes
CURVES = ('UnitSquare', 'Circle', 'LShape', 'PiSquare', 'UnitInterval')


def make_mesh(name, refine, rng=None, local=0):
    from src import parametrization as P
    from src.mesh import MeshParametrized
    gamma = getattr(P, name)()
    mesh = MeshParametrized(gamma)
    for _ in range(refine):
        mesh.uniform_refine()
    for _ in range(local):
        leaves = list(mesh.leaf_elements)
        e = leaves[rng.randrange(len(leaves))]
        (mesh.refine_time if rng.random() < 0.6 else mesh.refine_space)(e)
    elems = list(mesh.leaf_elements)
    for i, e in enumerate(elems):
        e._tok_id = i
    assert len(elems) < 2048
    return mesh, elems


def sublists(rng, elems, N, M):
    """Rectangular sub-lists: contiguous, strided or shuffled selections (no repetition)."""
    def pick(n):
        n = min(n, len(elems))
        mode = rng.randrange(3)
        if mode == 0:
            s = rng.randrange(len(elems) - n + 1)
            return elems[s:s + n]
        if mode == 1:
            return [elems[i] for i in sorted(rng.sample(range(len(elems)), n))]
        return rng.sample(elems, n)
    return pick(N), pick(M)


def enc_elems(es):
    return ','.join('%d:%s:%s' % (e._tok_id, q2s(float(e.time_interval[0])), q2s(float(e.time_interval[1])))
                    for e in es) or '-'


def guarded(res, key, data, f):
    """Runs a call of the real routine; an exception is a violation (no path may raise on valid inputs)."""
    try:
        return f()
    except Exception as exc:
        res.violation(key, dict(data, error=repr(exc)[:300]))
        return None


def bits_equal(a, b):
    if a is None or b is None:
        return a is b
    a, b = np.asarray(a), np.asarray(b)
    return a.shape == b.shape and a.dtype == b.dtype and a.tobytes() == b.tobytes()


def show_mat(mat, N, M):
    if mat is None:
        return 'raised'
    mat = np.asarray(mat)
    if mat.shape != (N, M):
        return 'shape %s' % (mat.shape, )
    return 'ok %dx%d ' % (N, M) + ';'.join(','.join(str(int(v)) for v in row) for row in mat)


def show_vec(vec):
    if vec is None:
        return 'raised'
    vec = np.asarray(vec)
    return 'ok %d ' % len(vec) + ','.join(str(int(v)) for v in vec)


def pairwise(op, tests, trials):
    """The oracle: every pair on its own, rows = test, columns = trial."""
    return np.array([[float(op.bilform(tr, te)) for tr in trials] for te in tests],
                    dtype=np.float64).reshape(len(tests), len(trials))


def check_repr_hypotheses(res, gamma, elems):
    """The hypotheses of key_injective on the real renderings (reported as a broken assumption, not a violation)."""
    reprs = sorted({repr(e) for e in elems})
    bad = [(a, b) for a, b in zip(reprs, reprs[1:]) if b.startswith(a)]
    if bad or any(r[:1] in (']', '') for r in reprs) or '[' in str(gamma):
        res.broken_obligation('assumption C17: element repr prefix-free / curve name without "["',
                              'curve %s, offending %r' % (gamma, bad[:2]))


# --------------------------------------------------------------------------------------------------
SIZES_QUICK = [(9, 11), (10, 10), (11, 9), (4, 25), (1, 99), (100, 1), (3, 34), (7, 15), (16, 16), (2, 130),
               (33, 3), (1, 1), (5, 0), (0, 7), (12, 40)]
SIZES_MORE = [(25, 4), (1, 100), (99, 1), (49, 2), (50, 2), (64, 64), (3, 300), (20, 5), (19, 5), (120, 90),
              (2, 49), (2, 50), (10, 9), (200, 1), (1, 512)]


def m0_operator(mesh, k, cache_dir=None, problem=None):
    """InitialOperator with the token leaf; the constructor of the Circle needs quadpy (licence) for a member the
    assembly never uses, so it is bypassed there."""
    from src.initial_potential import InitialOperator
    try:
        with silence_stdout():
            M0 = InitialOperator(mesh, None, initial_mesh=None, cache_dir=cache_dir, problem=problem)
    except Exception:
        M0 = InitialOperator.__new__(InitialOperator)
        M0.u0, M0.bdr_mesh, M0.initial_mesh, M0.cache_dir = None, mesh, None, cache_dir
        M0.problem = str(mesh.gamma_space) if problem is None else problem
    M0._tok_k = k
    return M0


def sl_operator(mesh, k, causal=True, jitter=False, cache_dir=None, **kw):
    from src.single_layer import SingleLayerOperator
    op = SingleLayerOperator(mesh, cache_dir=cache_dir, **kw)
    op._tok_k, op._tok_causal, op._tok_jitter = k, causal, jitter
    op._cfg = (kw.get('quad_order', 12), kw.get('pw_exact', False))  # what the harness handed to the constructor
    return op


def enc_var(op):
    """`<k>/<quad_order>/<pw_exact>` of the line protocol."""
    return '%d/%d/%d' % (op._tok_k, op._cfg[0], int(op._cfg[1]))


def correspond_paths(res, tier, rng):
    """(a) paths with token leaves: real code vs pair-wise oracle vs Lean model."""
    import src.initial_potential as ip
    import src.single_layer as sl
    from src.initial_potential import InitialOperator
    lines, expect, meta = [], [], []
    thorough = tier != 'quick'
    mesh_specs = [('UnitSquare', 2, 0), ('Circle', 1, 6), ('LShape', 1, 9), ('UnitInterval', 3, 4)]
    if thorough:
        mesh_specs += [('PiSquare', 2, 12), ('Circle', 3, 0), ('UnitSquare', 3, 25), ('LShape', 2, 30)]
    sizes = SIZES_QUICK + (SIZES_MORE if thorough else [])
    n_pool = 0
    for ci, (curve, refine, local) in enumerate(mesh_specs):
        mesh, elems = make_mesh(curve, refine, rng, local)
        check_repr_hypotheses(res, mesh.gamma_space, elems)
        for si, (N, M) in enumerate(sizes):
            if N > len(elems) or M > len(elems):
                continue
            if not thorough and (si + ci) % 2 and (N, M) not in ((9, 11), (10, 10)):
                continue
            tests, trials = sublists(rng, elems, N, M)
            N, M = len(tests), len(trials)
            for causal in (True, False):
                if not causal and (si % 3 or N * M < 100):
                    continue
                k = rng.randrange(4)
                op = sl_operator(mesh, k, causal)
                want = pairwise(op, tests, trials)
                enc_t, enc_r = enc_elems(tests), enc_elems(trials)
                # serial / inline
                info = dict(curve=curve, refine=refine, local=local, N=N, M=M, tests=enc_t, trials=enc_r)
                with silence_stdout():
                    got = guarded(res, 'C17:path-raises:serial', info,
                                  lambda: op.bilform_matrix(tests, trials, use_mp=False))
                path = 'inline' if N * M < 100 else 'serial'
                res.count((curve, refine, local, enc_t, enc_r, path, causal), N * M >= 100)
                res.bump('path_' + path)
                if got is not None and not bits_equal(got, want):
                    res.violation('C17:path-differs:%s' % path,
                                  dict(curve=curve, refine=refine, local=local, N=N, M=M, tests=enc_t, trials=enc_r,
                                       got=show_mat(got, N, M)[:400], want=show_mat(want, N, M)[:400]))
                lines.append('asm mat %s%d 0 1 1 f %s %s' % ('c' if causal else 'n', k, enc_t, enc_r))
                expect.append(show_mat(got, N, M))
                meta.append('serial/inline %s N=%d M=%d' % (curve, N, M))
                # pool
                ws = WORKERS if (thorough or (si + ci) % 5 == 0) else (WORKERS[(si + ci) % 5], )
                for w in ws:
                    jitter = (n_pool % 7 == 3) and N * M >= 100 and N * M <= 400
                    op = sl_operator(mesh, k, causal, jitter)
                    with patched_mp(sl, w) as shim, silence_stdout():
                        got = guarded(res, 'C17:path-raises:pool', dict(info, workers=w),
                                      lambda: op.bilform_matrix(tests, trials, use_mp=True))
                        used_pool = bool(shim.sizes)
                        chunk = shim.chunks[0] if shim.chunks else 0
                        if used_pool and shim.sizes != [w]:
                            res.broken_obligation('correspondence C17: pool size', 'cpu_count=%d pools=%r' % (w, shim.sizes))
                    n_pool += used_pool
                    path = 'pool' if used_pool else 'inline'
                    if used_pool != (N * M >= 100):
                        res.broken_obligation('correspondence C17: threshold',
                                              'N=%d M=%d use_mp=True used_pool=%s' % (N, M, used_pool))
                    res.count((curve, refine, local, enc_t, enc_r, path, w, chunk, causal, jitter), used_pool)
                    res.bump('path_' + path)
                    if used_pool:
                        res.bump('pool_workers_%d' % w)
                        res.bump('pool_chunk_%d' % chunk)
                    # the oracle for the non-causal token: the worker skips acausal pairs
                    want_p = want
                    if used_pool and not causal:
                        want_p = want.copy()
                        for i, te in enumerate(tests):
                            for j, tr in enumerate(trials):
                                if te.time_interval[1] <= tr.time_interval[0]:
                                    want_p[i, j] = 0.0
                        res.bump('noncausal_token_pool_cases')
                    if got is None:
                        continue
                    if causal and not bits_equal(got, want):
                        res.violation('C17:path-differs:%s' % path,
                                      dict(curve=curve, refine=refine, local=local, N=N, M=M, workers=w, chunk=chunk, use_mp=True,
                                           tests=enc_t, trials=enc_r, got=show_mat(got, N, M)[:400],
                                           want=show_mat(want, N, M)[:400]))
                    if used_pool:
                        if chunk != M // (16 * w) + 1:
                            res.broken_obligation('correspondence C17: chunk size', 'M=%d cpu=%d chunk=%r' % (M, w, chunk))
                        for order in ('f', 'r', 'x%d' % (1 + rng.randrange(5))):
                            lines.append('asm mat %s%d 1 %d %d %s %s %s' % ('c' if causal else 'n', k, w, chunk, order,
                                                                            enc_t, enc_r))
                            expect.append(show_mat(got, N, M) if causal else show_mat(want_p, N, M))
                            meta.append('pool %s N=%d M=%d w=%d chunk=%d order=%s causal=%s' %
                                        (curve, N, M, w, chunk, order, causal))
                            if not causal and not bits_equal(got, want_p):
                                res.broken_obligation('correspondence C17: acausal skip of the worker',
                                                      'non-causal token leaf: pool result differs from oracle-with-skip; '
                                                      'N=%d M=%d w=%d' % (N, M, w))
            if ci == 0 and si < 2:
                res.sample(dict(curve=curve, N=N, M=M, tests=enc_t[:80], trials=enc_r[:80]))

        # load vector (no threshold in the code): serial and pool
        for n in ([0, 1, 5, 17, len(elems)] if not thorough else [0, 1, 2, 5, 8, 9, 17, 40, len(elems)]):
            if n > len(elems):
                continue
            es, _ = sublists(rng, elems, n, 0)
            k = rng.randrange(4)
            M0 = m0_operator(mesh, k)
            want = np.array([M0.linform(e)[0] for e in es], dtype=np.float64)
            with silence_stdout():
                got = guarded(res, 'C17:vector-raises:serial', dict(curve=curve, elems=enc_elems(es)),
                              lambda: M0.linform_vector(es, use_mp=False))
            res.count((curve, 'vec', enc_elems(es), 'serial'), n > 0)
            res.bump('vec_serial')
            if got is not None and not bits_equal(np.asarray(got, dtype=np.float64).reshape(len(es)), want):
                res.violation('C17:vector-differs:serial', dict(curve=curve, elems=enc_elems(es), got=show_vec(got)[:300],
                                                                want=show_vec(want)[:300]))
            lines.append('asm vec %d 0 1 1 f %s' % (k, enc_elems(es)))
            expect.append(show_vec(got))
            meta.append('vec serial %s n=%d' % (curve, n))
            for w in (WORKERS if thorough else (WORKERS[(n + ci) % 5], )):
                with patched_mp(ip, w) as shim, silence_stdout():
                    got = guarded(res, 'C17:vector-raises:pool', dict(curve=curve, elems=enc_elems(es), workers=w),
                                  lambda: M0.linform_vector(es, use_mp=True))
                    chunk = shim.chunks[0] if shim.chunks else 0
                res.count((curve, 'vec', enc_elems(es), 'pool', w, chunk), True)
                res.bump('vec_pool')
                res.bump('pool_workers_%d' % w)
                if got is None:
                    continue
                if not bits_equal(np.asarray(got, dtype=np.float64).reshape(len(es)), want):
                    res.violation('C17:vector-differs:pool', dict(curve=curve, elems=enc_elems(es), workers=w,
                                                                  got=show_vec(got)[:300], want=show_vec(want)[:300]))
                if chunk != len(es) // (w * 8) + 1:
                    res.broken_obligation('correspondence C17: chunk size (vector)', 'N=%d cpu=%d chunk=%r' % (len(es), w, chunk))
                lines.append('asm vec %d 1 %d %d r %s' % (k, w, chunk, enc_elems(es)))
                expect.append(show_vec(got))
                meta.append('vec pool %s n=%d w=%d' % (curve, n, w))
    return lines, expect, meta


# --------------------------------------------------------------------------------------------------
# (b) cache histories
def file_state(fn):
    if not os.path.exists(fn):
        return 'A'
    try:
        np.load(fn)
        return 'V'
    except Exception:
        return 'C'


def sl_file(cache_dir, gamma, tests, trials, cfg=(12, False)):
    """The file name of the repaired code: the hashed text ends with str((quad_order, pw_exact))."""
    md5 = hashlib.md5((str(gamma) + str(tests) + str(trials) + str(tuple(cfg))).encode()).hexdigest()
    return '%s/SL_%s_%dx%d_%s.npy' % (cache_dir, gamma, len(tests), len(trials), md5)


# histories: which operators share the directory
#   'one'     one operator per curve
#   'configs' four operators per curve that differ in (quad_order, pw_exact); the token leaf is determined by the
#             configuration (as the real leaf is), so every call has to return its own operator's matrix
#   'tokens'  two token leaves under ONE configuration per curve: outside the key discipline, model and code must
#             agree on who is handed whose file (no oracle)
HIST_CONFIGS = [(0, {}), (1, dict(pw_exact=True)), (2, dict(quad_order=5)), (3, dict(quad_order=7, pw_exact=True))]
HIST_MODES = ('one', 'configs', 'tokens')


def vec_file(cache_dir, gamma, problem, elems):
    md5 = hashlib.md5((str(gamma) + str(elems)).encode()).hexdigest()
    return '%s/M0_%s_%d_%s.npy' % (cache_dir, problem, len(elems), md5)


def damage(fn, kind, rng):
    """kind: empty | header | half | short | garble | rm; returns the kind applied (None if no file)."""
    if not os.path.exists(fn):
        if kind == 'garble':
            with open(fn, 'wb') as fh:
                fh.write(bytes(rng.randrange(256) for _ in range(57)))
            return kind
        return None
    raw = open(fn, 'rb').read()
    if kind == 'rm':
        os.unlink(fn)
        return kind
    if kind == 'garble':
        new = bytes(rng.randrange(256) for _ in range(max(len(raw) // 3, 11)))
    else:
        hdr = 10 + struct.unpack('<H', raw[8:10])[0] if len(raw) >= 10 and raw[:6] == b'\x93NUMPY' else len(raw) // 4
        cut = {'empty': 0, 'header': min(hdr, len(raw)), 'half': len(raw) // 2, 'short': max(len(raw) - 1, 0)}[kind]
        new = raw[:cut]
    with open(fn, 'wb') as fh:
        fh.write(new)
    return kind


DAMAGE = ('empty', 'header', 'half', 'short', 'garble', 'rm')


def run_sl_history(res, rng, tmp, hist_id, mode, n_events, oracle=True):
    """One random history on the real `bilform_matrix` with token leaves; returns (model line, expected output)."""
    disciplined = mode != 'tokens'
    import src.single_layer as sl
    cache_dir = tempfile.mkdtemp(prefix='h%d_' % hist_id, dir=tmp)
    curves = [('UnitSquare', 2, 0), ('Circle', 2, 0)]
    ctx = []
    for ci, (curve, refine, local) in enumerate(curves):
        mesh, elems = make_mesh(curve, refine, rng, local)
        pairs = [sublists(rng, elems, 10, 10), sublists(rng, elems, 9, 11), sublists(rng, elems, 7, 16),
                 (elems[:12], elems[:12]), (elems[:12], elems[1:13])]
        if mode == 'configs':  # few inputs, many operators: most calls find the directory populated by other configurations
            pairs = [pairs[0], pairs[3], pairs[1]][:2 + ci]
        variants = {'one': HIST_CONFIGS[:1], 'configs': HIST_CONFIGS, 'tokens': [(0, {}), (1, {})]}[mode]
        if mode == 'one' and hist_id % 2:
            variants = [HIST_CONFIGS[1 + hist_id % 3]]
        with silence_stdout():
            ops = {k: sl_operator(mesh, k, True, cache_dir=cache_dir, **kw) for k, kw in variants}
        ctx.append((ci, curve, mesh, pairs, ops))
    events, outs = [], []
    for ev in range(n_events):
        ci, curve, mesh, pairs, ops = ctx[rng.randrange(len(ctx))]
        tests, trials = pairs[rng.randrange(len(pairs))]
        N, M = len(tests), len(trials)
        k = rng.choice(sorted(ops))
        op = ops[k]
        fn = sl_file(cache_dir, mesh.gamma_space, tests, trials, op._cfg)
        enc_t, enc_r = enc_elems(tests), enc_elems(trials)
        r = rng.random()
        if r < 0.55:
            use_mp = rng.random() < 0.3
            w = rng.choice(WORKERS[:4])
            sv = rng.choice('wwwnp')
            hit = N * M >= 100 and file_state(fn) == 'V'
            try:
                with patched_mp(sl, w) as shim, patched_np(sl, sv), silence_stdout():
                    got = op.bilform_matrix(tests, trials, use_mp=use_mp)
                    chunk = shim.chunks[0] if shim.chunks else 1
            except Exception as exc:  # the property: a damaged file never surfaces
                res.violation('C17:cache-call-raises', dict(history=hist_id, event=ev, curve=curve, file=os.path.basename(fn),
                                                            state_before=file_state(fn), error=repr(exc)[:300]))
                got, chunk = None, 1
            events.append('call@%d@%s@%d@%d@%d@%s@%s@%s@%s' % (ci, enc_var(op), use_mp, w, chunk, rng.choice('fr'), sv, enc_t, enc_r))
            outs.append('ret:%s:%s' % (show_mat(got, N, M), file_state(fn)))
            res.count(('hist', hist_id, ev), True)
            res.bump('hist_call_hit' if hit else 'hist_call_miss')
            if mode == 'configs':
                res.bump('hist_call_multi_config')
            if oracle and disciplined:
                want = pairwise(op, tests, trials)
                if got is not None and not bits_equal(got, want):
                    # whose matrix is it?  another operator's (one that differs in quad_order / pw_exact only) = the
                    # file name does not separate the configurations
                    other = [o._cfg for o in ops.values() if o is not op and bits_equal(got, pairwise(o, tests, trials))]
                    if other:  # one replay record per run for this call site; the further cases are counted
                        res.bump('hist_calls_handed_another_configurations_matrix')
                    if not other or res.notes['hist_calls_handed_another_configurations_matrix'] == 1:
                        res.violation('C17:cache-key-ignores-config' if other else 'C17:cache-changes-result',
                                  dict(history=hist_id, event=ev, curve=curve, N=N, M=M, file=os.path.basename(fn),
                                       operator=dict(quad_order=op._cfg[0], pw_exact=op._cfg[1]),
                                       got_is_matrix_of=[dict(quad_order=c[0], pw_exact=c[1]) for c in other],
                                       directory=sorted(os.listdir(cache_dir)), events_so_far=events[-8:],
                                       got=show_mat(got, N, M)[:300], want=show_mat(want, N, M)[:300]))
        elif r < 0.65:
            sv = rng.choice('wnp')
            with patched_mp(sl, 1), patched_np(sl, 'kill-' + sv):
                in_child(lambda: op.bilform_matrix(tests, trials, use_mp=False))
            events.append('crash@%d@%s@0@1@1@f@%s@%s@%s' % (ci, enc_var(op), sv, enc_t, enc_r))
            outs.append(file_state(fn))
            res.count(('hist', hist_id, ev), True)
            res.bump('hist_crash_' + sv)
        else:
            kind = rng.choice(DAMAGE)
            applied = damage(fn, kind, rng)
            events.append('%s@%d@%s@%s@%s' % ({'rm': 'rm', 'garble': 'garble'}.get(kind, 'trunc'), ci, enc_var(op), enc_t, enc_r))
            outs.append(file_state(fn))
            res.count(('hist', hist_id, ev), applied is not None)
            res.bump('hist_damage_%s%s' % (kind, '' if applied else '_nofile'))
    if mode == 'configs':
        # every file in the directory is the file of one (curve, lists, configuration) of this history
        names = {os.path.basename(sl_file(cache_dir, mesh.gamma_space, t, r_, o._cfg))
                 for _, _, mesh, pairs, ops in ctx for t, r_ in pairs for o in ops.values()}
        stray = sorted(set(os.listdir(cache_dir)) - names)
        if stray:
            res.broken_obligation('correspondence C17: file names', 'history %d: files %r are not named after (curve, lists, '
                                  'str((quad_order, pw_exact)))' % (hist_id, stray[:3]))
    return 'asm hist ' + ' '.join(events), ' | '.join(outs)


def run_vec_history(res, rng, tmp, hist_id, n_events):
    import src.initial_potential as ip
    from src.initial_potential import InitialOperator
    cache_dir = tempfile.mkdtemp(prefix='v%d_' % hist_id, dir=tmp)
    ctx = []
    for ci, curve in enumerate(('UnitSquare', 'LShape')):
        mesh, elems = make_mesh(curve, 1, rng, 5)
        lists = [sublists(rng, elems, n, 0)[0] for n in (1, 4, 9, 9)] + [elems, elems[:-1], elems[1:], list(reversed(elems))]
        # two problems (different data u0 = different token) on the same curve and mesh share the directory, as the
        # runs of example.py for Smooth and Singular on the unit square do
        for k in (ci, ci + 2):
            M0 = m0_operator(mesh, k, cache_dir, problem='c%dp%d' % (ci, k))
            ctx.append((ci, k, curve, mesh, lists, M0))
    events, outs = [], []
    for ev in range(n_events):
        ci, k, curve, mesh, lists, M0 = ctx[rng.randrange(len(ctx))]
        es = lists[rng.randrange(len(lists))]
        fn = vec_file(cache_dir, mesh.gamma_space, M0.problem, es)
        r = rng.random()
        if r < 0.6:
            use_mp = rng.random() < 0.3
            w = rng.choice(WORKERS[:4])
            sv = rng.choice('wwwnp')
            try:
                with patched_mp(ip, w) as shim, patched_np(ip, sv), silence_stdout():
                    got = M0.linform_vector(es, use_mp=use_mp)
                    chunk = shim.chunks[0] if shim.chunks else 1
            except Exception as exc:
                res.violation('C17:cache-call-raises:vector', dict(history=hist_id, event=ev, curve=curve,
                                                                   state_before=file_state(fn), error=repr(exc)[:300]))
                got, chunk = None, 1
            events.append('call@%d@%d@%d@%d@%d@%s@%s@%s@-' % (ci, k, use_mp, w, chunk, rng.choice('fr'), sv, enc_elems(es)))
            outs.append('ret:%s:%s' % (show_vec(got), file_state(fn)))
            want = np.array([M0.linform(e)[0] for e in es], dtype=np.float64)
            res.count(('vhist', hist_id, ev), True)
            if got is not None and not bits_equal(np.asarray(got, dtype=np.float64).reshape(len(es)), want):
                res.violation('C17:cache-changes-result:vector',
                              dict(history=hist_id, event=ev, curve=curve, problem=M0.problem, events_so_far=events[-12:],
                                   got=show_vec(got)[:300], want=show_vec(want)[:300]))
        else:
            kind = rng.choice(DAMAGE)
            applied = damage(fn, kind, rng)
            events.append('%s@%d@%d@%s@-' % ({'rm': 'rm', 'garble': 'garble'}.get(kind, 'trunc'), ci, k, enc_elems(es)))
            outs.append(file_state(fn))
            res.count(('vhist', hist_id, ev), applied is not None)
            res.bump('vhist_damage_%s%s' % (kind, '' if applied else '_nofile'))
    return 'asm vhist ' + ' '.join(events), ' | '.join(outs)


def scripted_truncations(res, rng, tmp):
    """fresh -> warm -> every damage class -> recompute -> warm, on matrix and vector; bitwise against the oracle.
    The stored files are found by listing the directory (independent of the name formula)."""
    import src.initial_potential as ip
    import src.single_layer as sl
    cache_dir = tempfile.mkdtemp(prefix='trunc_', dir=tmp)
    mesh, elems = make_mesh('UnitSquare', 2, rng, 0)
    tests, trials = elems[:11], elems[2:14]
    op = sl_operator(mesh, 2, True, cache_dir=cache_dir)
    M0 = m0_operator(mesh, 1, cache_dir)
    routines = {
        'matrix': [lambda use_mp: op.bilform_matrix(tests, trials, use_mp=use_mp), pairwise(op, tests, trials), sl, 'SL_',
                   sl_file(cache_dir, mesh.gamma_space, tests, trials)],
        'vector': [lambda use_mp: M0.linform_vector(elems, use_mp=use_mp),
                   np.array([M0.linform(e)[0] for e in elems], dtype=np.float64), ip, 'M0_',
                   vec_file(cache_dir, mesh.gamma_space, M0.problem, elems)],
    }

    def stored(prefix):
        fs = [os.path.join(cache_dir, f) for f in sorted(os.listdir(cache_dir)) if f.startswith(prefix)]
        return fs[0] if len(fs) == 1 else None

    def call(what, label, use_mp):
        f, want, mod, prefix, _ = routines[what]
        fname = stored(prefix)
        before = file_state(fname) if fname else 'A'
        try:
            with patched_mp(mod, 3), silence_stdout():
                got = f(use_mp)
        except Exception as exc:
            res.violation('C17:damaged-cache-raises:%s:%s' % (what, label), dict(state_before=before, error=repr(exc)[:300]))
            return
        res.count(('trunc', what, label, use_mp), True)
        res.bump('trunc_%s_%s' % (what, before))
        if not bits_equal(np.asarray(got, dtype=np.float64).reshape(want.shape), want):
            res.violation('C17:damaged-cache-changes-result:%s:%s' % (what, label), dict(state_before=before))
        fname = stored(prefix)
        if fname is None or file_state(fname) != 'V':
            res.violation('C17:cache-not-rewritten:%s:%s' % (what, label),
                          dict(state_before=before, directory=sorted(os.listdir(cache_dir))))

    for what in routines:
        call(what, 'fresh', False)
        fname = stored(routines[what][3])
        if fname != routines[what][4]:
            res.broken_obligation('correspondence C17: file names', 'directory has %r, expected %r' %
                                  (os.listdir(cache_dir), os.path.basename(routines[what][4])))
        call(what, 'warm', True)
        for kind in DAMAGE:
            fname = stored(routines[what][3])
            if fname is None:
                break
            damage(fname, kind, rng)
            if kind != 'rm' and file_state(fname) != 'C':
                res.violation('C17:damaged-file-loads:%s:%s' % (what, kind), dict(file=os.path.basename(fname)))
            call(what, kind, kind in ('half', 'garble'))
            call(what, kind + '-then-warm', False)


def correspond(res, tier):
    rng = seed_rng(res.seed, 'C17')
    tmp = tempfile.mkdtemp(prefix='c17_', dir='/tmp')
    try:
        with token_leaves():
            lines, expect, meta = correspond_paths(res, tier, rng)
            scripted_truncations(res, rng, tmp)
            n_hist = 6 if tier == 'quick' else 60
            for h in range(n_hist):
                mode = HIST_MODES[h % 3]
                line, out = run_sl_history(res, rng, tmp, h, mode, (18 if mode == 'configs' else 14) if tier == 'quick' else 30)
                lines.append(line)
                expect.append(out)
                meta.append('history %d (%s)' % (h, {'one': 'one operator per curve',
                                                     'configs': 'four configurations (quad_order, pw_exact) per curve',
                                                     'tokens': 'two token leaves under one configuration per curve'}[mode]))
            for h in range(3 if tier == 'quick' else 30):
                line, out = run_vec_history(res, rng, tmp, h, 14 if tier == 'quick' else 30)
                lines.append(line)
                expect.append(out)
                meta.append('vector history %d' % h)
    finally:
        shutil.rmtree(tmp, ignore_errors=True)
        for p in multiprocessing.active_children():
            p.terminate()

    # (c) the configuration text that enters the hashed text
    qs = list(range(0, 34)) + [99, 100, 101, 1000, 65536, 10 ** 12 + 7] + [rng.randrange(10 ** 9) for _ in range(6 if tier == 'quick' else 60)]
    for q in qs:
        for pw in (False, True):
            lines.append('asm cfg %d %d' % (q, pw))
            expect.append(str((q, pw)))
            meta.append('str((quad_order, pw_exact)) for (%d, %s)' % (q, pw))
            res.count(('cfg', q, pw), True)

    # the same requests to the method REGENERATED from src/single_layer.py (Gen/SLRest.lean: bilform_matrix, MP_SL_matrix_col)
    for i in range(len(lines)):
        for a, b in (('asm mat ', 'asm gmat '), ('asm hist ', 'asm ghist ')):
            if lines[i].startswith(a):
                lines.append(b + lines[i][len(a):])
                expect.append(expect[i])
                meta.append('GENERATED bilform_matrix: ' + meta[i])
                res.bump('generated_twin_requests')
    out = run_driver(lines)
    if len(out) != len(lines):
        res.broken_obligation('correspondence C17', 'driver returned %d lines for %d' % (len(out), len(lines)))
        return
    res.bump('model_lines', len(lines))
    for line, want, got, m in zip(lines, expect, out, meta):
        if want != got:
            # locate the first differing event of a history
            ws, gs = want.split(' | '), got.split(' | ')
            idx = next((i for i, (a, b) in enumerate(zip(ws, gs)) if a != b), min(len(ws), len(gs)))
            res.broken_obligation('correspondence C17: model and real code differ',
                                  'case: %s\nline: %s\nfirst difference at item %d\npython: %s\nmodel:  %s' %
                                  (m, line[:300], idx, (ws[idx] if idx < len(ws) else '-')[:500],
                                   (gs[idx] if idx < len(gs) else '-')[:500]))
            break


# --------------------------------------------------------------------------------------------------
def search(res, tier, boost=False):
    """Property oracle on the real code with the REAL leaves (floats): every path and the cache against
    pair-wise evaluation, bitwise.  Plus: file names, and operators of different configurations against one directory."""
    import src.error_estimator as ee
    import src.initial_potential as ip
    import src.single_layer as sl
    from src.error_estimator import ErrorEstimator
    from src.initial_mesh import UnitSquareBoundaryRefined
    from src.initial_potential import InitialOperator
    from src.single_layer import SingleLayerOperator
    rng = seed_rng(res.seed, 'C17s')
    thorough = tier != 'quick' or boost
    tmp = tempfile.mkdtemp(prefix='c17s_', dir='/tmp')
    try:
        specs = [('UnitSquare', 1, 3, {}), ('Circle', 1, 2, {}), ('UnitSquare', 2, 0, dict(pw_exact=True))]
        if thorough:
            specs += [('LShape', 1, 6, {}), ('PiSquare', 1, 4, dict(pw_exact=True)), ('UnitSquare', 2, 9, dict(quad_order=7)),
                      ('Circle', 2, 0, {})]
        for si, (curve, refine, local, kw) in enumerate(specs):
            cache_dir = tempfile.mkdtemp(prefix='s%d_' % si, dir=tmp)
            mesh, elems = make_mesh(curve, refine, rng, local)
            op0 = SingleLayerOperator(mesh, **kw)
            opc = SingleLayerOperator(mesh, cache_dir=cache_dir, **kw)
            shapes = [(len(elems), len(elems)), (9, 11), (10, 10), (7, 15)] + ([(4, 25), (13, 8), (3, 33)] if thorough else [])
            for (N, M) in shapes:
                if N > len(elems) or M > len(elems):
                    continue
                tests, trials = (elems, elems) if N == len(elems) == M else sublists(rng, elems, N, M)
                want = pairwise(op0, tests, trials)
                label = '%s/%d/%d/%s/%dx%d' % (curve, refine, local, sorted(kw.items()), N, M)

                def cmp(path, thunk, **extra):
                    res.count((label, path), N * M >= 100)
                    res.bump('search_' + path.split(':')[0])
                    got = guarded(res, 'C17:real-leaf-raises:%s' % path.split(':')[0], dict(case=label, path=path, **extra), thunk)
                    if got is not None and not bits_equal(got, want):
                        d = np.asarray(got)
                        res.violation('C17:real-leaf:%s' % path.split(':')[0],
                                      dict(case=label, path=path, tests=enc_elems(tests)[:300], trials=enc_elems(trials)[:300],
                                           shape=list(d.shape), differing=int((d != want).sum()) if d.shape == want.shape else -1,
                                           **extra))
                with silence_stdout():
                    cmp('serial-or-inline', lambda: op0.bilform_matrix(tests, trials, use_mp=False))
                    for w in (WORKERS if thorough else (WORKERS[(si + N) % 5], )):
                        with patched_mp(sl, w):
                            cmp('pool:%d' % w, lambda: op0.bilform_matrix(tests, trials, use_mp=True), workers=w)
                    # cache: fresh, warm, damaged
                    before_files = set(os.listdir(cache_dir))
                    cmp('cache-fresh', lambda: opc.bilform_matrix(tests, trials, use_mp=False))
                    created = sorted(set(os.listdir(cache_dir)) - before_files)
                    fn = os.path.join(cache_dir, created[0]) if len(created) == 1 else None
                    if N * M >= 100:
                        if fn is None or file_state(fn) != 'V':
                            res.violation('C17:cache-not-written', dict(case=label, created=created))
                            continue
                        if fn != sl_file(cache_dir, mesh.gamma_space, tests, trials,
                                         (kw.get('quad_order', 12), kw.get('pw_exact', False))):
                            res.broken_obligation('correspondence C17: file names', 'created %r' % created)
                        cmp('cache-warm', lambda: opc.bilform_matrix(tests, trials, use_mp=True))
                        for kind in DAMAGE if (thorough or N == M) else DAMAGE[:2]:
                            damage(fn, kind, rng)
                            with patched_mp(sl, 2):
                                cmp('cache-after-' + kind, lambda: opc.bilform_matrix(tests, trials, use_mp=(kind == 'half')))
                    elif created:
                        res.violation('C17:small-call-touches-cache', dict(case=label, created=created))

        # file names: different (curve, lists, configuration) never share a name
        mesh_a, el_a = make_mesh('UnitSquare', 2, rng, 0)
        mesh_b, el_b = make_mesh('PiSquare', 2, rng, 0)
        mesh_c, el_c = make_mesh('Circle', 2, rng, 0)
        seen = {}
        for gamma, els in ((mesh_a.gamma_space, el_a), (mesh_b.gamma_space, el_b), (mesh_c.gamma_space, el_c)):
            cands = [(els[:10], els[:10]), (els[:10], els[1:11]), (els[1:11], els[:10]), (els[:11], els[:10]),
                     (els[:10], els[:11]), (els[:20], els[:5]), (els[:5], els[:20]), (els[:10], list(reversed(els[:10]))),
                     (els[:12], els[:12]), (els[:10] + els[11:13], els[:12])]
            for ti, (tests, trials) in enumerate(cands):
                for cfg in ((12, False), (12, True), (5, False), (1, False), (2, False), (12, 0), (125, False))[:7 if ti < 2 else 2]:
                    fn = os.path.basename(sl_file('d', gamma, tests, trials, cfg))
                    key = (str(gamma), repr(tests), repr(trials), str(cfg))
                    res.count(('name', ) + key, True)
                    if fn in seen and seen[fn] != key:
                        res.violation('C17:file-name-shared', dict(file=fn, a=[s[:200] for s in seen[fn]], b=[s[:200] for s in key]))
                    seen[fn] = key
        # ... and the real code uses exactly these names (one file per distinct input)
        cache_dir = tempfile.mkdtemp(prefix='names_', dir=tmp)
        with token_leaves():
            ops = [sl_operator(m, 0, True, cache_dir=cache_dir) for m in (mesh_a, mesh_b, mesh_c)]
            n_inputs = 0
            for op, els in zip(ops, (el_a, el_b, el_c)):
                for tests, trials in ((els[:10], els[:10]), (els[:10], els[1:11]), (els[1:11], els[:10]), (els[:12], els[:12])):
                    with silence_stdout():
                        got = op.bilform_matrix(tests, trials)
                        again = op.bilform_matrix(tests, trials)
                    n_inputs += 1
                    res.count(('names-real', n_inputs), True)
                    if not (bits_equal(got, pairwise(op, tests, trials)) and bits_equal(got, again)):
                        res.violation('C17:file-name-shared:wrong-matrix', dict(input=n_inputs))
            if len(os.listdir(cache_dir)) != n_inputs:
                res.violation('C17:file-name-shared:count', dict(files=sorted(os.listdir(cache_dir)), inputs=n_inputs))

        # deeply graded mesh (20 space levels towards a corner away from parameter 0): element lists that differ only
        # in elements whose end points agree to many digits must still get different cache entries
        from src.mesh import MeshParametrized
        from src.parametrization import UnitSquare
        with silence_stdout():
            mesh_d = MeshParametrized(UnitSquare())
            for _ in range(20 if not thorough else 26):
                leaf = [e for e in mesh_d.leaf_elements if e.space_interval[0] == 1.0][0]
                mesh_d.refine_space(leaf)
        for i, e in enumerate(mesh_d.leaf_elements):
            e._tok_id = i
        deep = sorted(mesh_d.leaf_elements, key=lambda e: (e.space_interval[1] - e.space_interval[0], e.space_interval[0]))
        fixed = deep[-9:]
        cache_dir = tempfile.mkdtemp(prefix='deep_', dir=tmp)
        with token_leaves():
            opd = sl_operator(mesh_d, 0, True, cache_dir=cache_dir)
            trials = deep[-10:]
            n_inputs = 0
            for e in deep[:14]:
                tests = fixed + [e]
                with silence_stdout():
                    got = opd.bilform_matrix(tests, trials)
                n_inputs += 1
                res.count(('names-deep', n_inputs), True)
                if not bits_equal(got, pairwise(opd, tests, trials)):
                    res.violation('C17:file-name-shared:wrong-matrix:deep-mesh',
                                  dict(last_test_element=repr(e), note='cache hit on the matrix of a different element list'))
                    break
            if len(os.listdir(cache_dir)) != n_inputs and n_inputs == 14:
                res.violation('C17:file-name-shared:count:deep-mesh', dict(files=len(os.listdir(cache_dir)), inputs=n_inputs))

        # load vector with the real leaf (UnitSquare only: the interior mesh generator is per domain)
        cache_dir = tempfile.mkdtemp(prefix='m0_', dir=tmp)
        mesh, elems = make_mesh('UnitSquare', 1, rng, 0)
        es = elems if thorough else elems[:6]
        u0 = lambda y: np.sin(y[0]) * y[1] + 1  # noqa: E731
        M0 = InitialOperator(mesh, u0, initial_mesh=UnitSquareBoundaryRefined, cache_dir=cache_dir)
        with silence_stdout():
            want = np.array([M0.linform(e)[0] for e in es], dtype=np.float64)

            def cmpv(path, thunk):
                res.count(('m0', path), True)
                res.bump('search_vec_' + path.split(':')[0])
                got = guarded(res, 'C17:real-leaf-raises:vector:%s' % path.split(':')[0], dict(path=path, n=len(es)), thunk)
                if got is not None and not bits_equal(np.asarray(got, dtype=np.float64).reshape(len(es)), want):
                    res.violation('C17:real-leaf:vector:%s' % path.split(':')[0], dict(path=path, n=len(es)))
            cmpv('cache-fresh', lambda: M0.linform_vector(es, use_mp=False))
            created = sorted(os.listdir(cache_dir))
            fn = os.path.join(cache_dir, created[0]) if len(created) == 1 else vec_file(cache_dir, mesh.gamma_space, M0.problem, es)
            if len(created) != 1 or file_state(fn) != 'V':
                res.violation('C17:cache-not-written:vector', dict(created=created))
            elif fn != vec_file(cache_dir, mesh.gamma_space, M0.problem, es):
                res.broken_obligation('correspondence C17: file names', 'created %r' % created)
            for w in (WORKERS if thorough else (2, )):
                damage(fn, 'rm', rng)
                with patched_mp(ip, w):
                    cmpv('pool:%d' % w, lambda: M0.linform_vector(es, use_mp=True))
            cmpv('cache-warm', lambda: M0.linform_vector(es, use_mp=True))
            for kind in DAMAGE:
                damage(fn, kind, rng)
                cmpv('cache-after-' + kind, lambda: M0.linform_vector(es, use_mp=False))

            # a second problem (other data u0, other `problem` name) on the same curve, mesh and element list against the
            # same directory (example.py: Smooth and Singular on the unit square both use 'data'): no shared entry
            u0b = lambda y: np.cos(y[0] + 2 * y[1])  # noqa: E731
            M0b = InitialOperator(mesh, u0b, initial_mesh=UnitSquareBoundaryRefined, cache_dir=cache_dir, problem='OtherData')
            es2 = es[:4]
            first = M0.linform_vector(es2, use_mp=False)
            second = guarded(res, 'C17:real-leaf-raises:vector:two-problems', dict(n=len(es2)),
                             lambda: M0b.linform_vector(es2, use_mp=False))
            want_b = np.array([M0b.linform(e)[0] for e in es2], dtype=np.float64)
            res.count(('m0', 'two-problems'), True)
            if second is not None and not bits_equal(np.asarray(second, dtype=np.float64).reshape(len(es2)), want_b):
                res.violation('C17:cache-changes-result:vector:two-problems-one-directory',
                              dict(curve='UnitSquare', n=len(es2), files=sorted(os.listdir(cache_dir)),
                                   history=['InitialOperator(problem=default, u0=sin(y0) y1 + 1).linform_vector(es)',
                                            "InitialOperator(problem='OtherData', u0=cos(y0 + 2 y1)).linform_vector(es)"],
                                   second_equals_first=bool(bits_equal(np.asarray(second, dtype=np.float64),
                                                                       np.asarray(first, dtype=np.float64))),
                                   got=[float(v) for v in second], want=[float(v) for v in want_b]))

        # estimator caches (token leaf `weighted_l2`): serial = pool = hit; damaged file ignored
        cache_dir = tempfile.mkdtemp(prefix='est_', dir=tmp)
        mesh, elems = make_mesh('UnitSquare', 1, rng, 2)
        with token_leaves(), silence_stdout():
            est = ErrorEstimator(mesh, N_poly=3, cache_dir=cache_dir)
            est0 = ErrorEstimator(mesh, N_poly=3)
            want = np.array([est0.weighted_l2(e, 1000.0) for e in elems])
            for label, use_mp, w in (('fresh', False, 1), ('warm', True, 2), ('empty', True, 3), ('short', False, 1)):
                files = [os.path.join(cache_dir, f) for f in os.listdir(cache_dir)]
                if label in DAMAGE and files:
                    damage(files[0], label, rng)
                try:
                    with patched_mp(ee, w):
                        got = est.estimate_weighted_l2(elems, 1000.0, use_mp=use_mp)
                    res.count(('est', label), True)
                    if not bits_equal(got, want):
                        res.violation('C17:estimator-cache:%s' % label, dict(n=len(elems)))
                except Exception as exc:
                    res.violation('C17:estimator-cache-raises:%s' % label, dict(error=repr(exc)[:300]))
            # the name ignores the residual: recorded as a note (same class as F7; not part of the property text)
            with patched_mp(ee, 1):
                stale = est.estimate_weighted_l2(elems, 5.0, use_mp=False)
            if bits_equal(stale, want):
                res.bump('note_estimator_cache_name_ignores_residual')

        # operators that differ in pw_exact / quad_order against ONE directory (repaired finding F7): no shared entry,
        # every result (fresh and warm) bitwise equal to the operator's own pair-wise evaluation
        mesh, elems = make_mesh('UnitSquare', 2, rng, 0)
        pairs = [('UnitSquare', mesh, elems, elems, dict(pw_exact=False), dict(pw_exact=True)),
                 ('UnitSquare', mesh, elems[:12], elems[:12], dict(quad_order=12), dict(quad_order=5)),
                 ('UnitSquare', mesh, elems[3:14], elems[:12], dict(quad_order=5, pw_exact=True), dict()),
                 ('UnitSquare', mesh, elems[:10], elems[2:12], dict(quad_order=7), dict(quad_order=5))]
        if thorough:
            mesh_c, elems_c = make_mesh('Circle', 2, rng, 3)
            mesh_l, elems_l = make_mesh('LShape', 1, rng, 8)
            pairs += [('Circle', mesh_c, elems_c[:14], elems_c[:14], dict(pw_exact=True), dict(pw_exact=False)),
                      ('Circle', mesh_c, elems_c[:12], elems_c[1:13], dict(quad_order=9), dict(quad_order=12)),
                      ('LShape', mesh_l, elems_l[:16], elems_l[:16], dict(pw_exact=False), dict(pw_exact=True)),
                      ('LShape', mesh_l, elems_l[:11], elems_l[:13], dict(quad_order=12, pw_exact=True), dict(quad_order=3, pw_exact=True)),
                      ('UnitSquare', mesh, elems[:20], elems[:20], dict(quad_order=12), dict(quad_order=11))]
        # two DIFFERENT user curves of one class with the same break points (a square of side 5 and a 3-4-5 rhombus of
        # side 5), meshed to the same parametric element lists, against ONE cache directory: "different curves never
        # share a cache entry" - each call must return its own pair-wise evaluation, warm or cold
        from src.mesh import MeshParametrized
        from src.parametrization import PiecewisePolygon
        polys = [('square-5', [(0., 0.), (5., 0.), (5., 5.), (0., 5.), (0., 0.)]),
                 ('rhombus-3-4-5', [(0., 0.), (5., 0.), (8., 4.), (3., 4.), (0., 0.)])]
        cache_dir = tempfile.mkdtemp(prefix='two_curves_', dir=tmp)
        got = []
        with silence_stdout():
            for pname, vs in polys:
                gam = PiecewisePolygon([np.array(v).reshape(2, 1) if False else np.array(v) for v in vs])
                msh = MeshParametrized(gam)
                msh.uniform_refine()
                op = SingleLayerOperator(msh, cache_dir=cache_dir)
                els = list(msh.leaf_elements)
                info = dict(curves=[p_[0] for p_ in polys], this=pname, N=len(els), note='user polygons with identical break points')
                cold = guarded(res, 'C17:real-leaf-raises:two-curves', info, lambda: op.bilform_matrix(els, els))
                warm = guarded(res, 'C17:real-leaf-raises:two-curves', info, lambda: op.bilform_matrix(els, els))
                got.append((pname, op, els, cold, warm, sorted(os.listdir(cache_dir)), info))
        res.count(('two-curves', ), True)
        for pname, op, els, cold, warm, files, info in got:
            if cold is None or warm is None:
                continue
            with silence_stdout():
                want = pairwise(op, els, els)
            bad = [nm for nm, g_ in (('cold', cold), ('warm', warm)) if not bits_equal(g_, want)]
            if bad:
                res.violation('C17:curves-share-cache-entry', dict(info, wrong=bad, files_in_directory=files,
                              max_abs_diff=float(np.abs(np.asarray(cold) - want).max())))
                break
        # one cache directory, the same set of elements in different orders (and a later run): every answer is the caller's own
        # per-pair / per-element evaluation in the caller's order
        from ..slchecks import cache_order_probe
        mesh_o, elems_o = make_mesh('UnitSquare', 1, rng, 3)
        els_o = elems_o[:14]
        with silence_stdout():
            ref_op = SingleLayerOperator(mesh_o)
            ref_m0 = InitialOperator(bdr_mesh=mesh_o, u0=lambda xy: 1 + 0 * xy[0], initial_mesh=UnitSquareBoundaryRefined)
        for nm, ph, got, lst in cache_order_probe(lambda d: SingleLayerOperator(mesh_o, cache_dir=d), lambda op, l: op.bilform_matrix(l, l), els_o, rng, tmp):
            res.count(('cache-order', 'matrix', nm, ph), True)
            with silence_stdout():
                want = pairwise(ref_op, lst, lst)
            if not bits_equal(got, want):
                res.violation('C17:cache-changes-result:matrix:element-order', dict(order=nm, phase=ph, N=len(lst), max_abs_diff=float(np.abs(got - want).max()),
                              note='one cache directory, the same elements requested in another order'))
                break
        for nm, ph, got, lst in cache_order_probe(lambda d: InitialOperator(bdr_mesh=mesh_o, u0=lambda xy: 1 + 0 * xy[0], initial_mesh=UnitSquareBoundaryRefined, cache_dir=d),
                                                  lambda op, l: np.asarray(op.linform_vector(elems=l)).reshape(-1), els_o, rng, tmp):
            res.count(('cache-order', 'vector', nm, ph), True)
            with silence_stdout():
                want = np.array([ref_m0.linform(e)[0] for e in lst])
            if not np.array_equal(got, want):
                res.violation('C17:cache-changes-result:vector:element-order', dict(order=nm, phase=ph, N=len(lst), got=[float(v) for v in got[:6]], want=[float(v) for v in want[:6]]))
                break
        # long-lived operators, re-created meshes (example.py --refinement uniform --grading): the matrix and the load vector the
        # OLD operators deliver for the elements of the NEW mesh object equal per-pair / per-element evaluation by operators
        # created on that mesh (anything the operators remember per element index would show from the second iteration on)
        from ..slchecks import regrid_iterations
        for k, mesh_k, els, old, fresh in regrid_iterations('UnitSquare', n_iter=2 if not thorough else 3, with_m0=lambda xy: 1 + 0 * xy[0]):
            if k == 0:
                with silence_stdout():
                    old['SL'].bilform_matrix(els, els)
                    old['M0'].linform_vector(elems=els)
                continue
            sub = els[:20]
            info = dict(flow='graded uniform re-meshing', iteration=k, N=len(sub), mesh='new MeshParametrized object, operators from iteration 0')
            with silence_stdout():
                want = pairwise(fresh['SL'], sub, sub)
                got_m = guarded(res, 'C17:real-leaf-raises:regrid', info, lambda: old['SL'].bilform_matrix(sub, sub))
                want_v = np.array([fresh['M0'].linform(e)[0] for e in sub])
                got_v = guarded(res, 'C17:vector-raises:regrid', info, lambda: np.asarray(old['M0'].linform_vector(elems=sub), dtype=float).reshape(-1))
            res.count(('regrid', k), True)
            if got_m is not None and not bits_equal(got_m, want):
                res.violation('C17:long-lived-operator-differs:matrix', dict(info, max_abs_diff=float(np.abs(np.asarray(got_m) - want).max())))
            if got_v is not None and not np.array_equal(got_v, want_v):
                res.violation('C17:long-lived-operator-differs:vector', dict(info, got=[float(v) for v in got_v[:8]], want=[float(v) for v in want_v[:8]]))
        for pi, (curve, mesh_p, tests, trials, kw1, kw2) in enumerate(pairs):
            cache_dir = tempfile.mkdtemp(prefix='f7_%d_' % pi, dir=tmp)
            with silence_stdout():
                first = SingleLayerOperator(mesh_p, cache_dir=cache_dir, **kw1)
                second = SingleLayerOperator(mesh_p, cache_dir=cache_dir, **kw2)
                want_a, want_b = pairwise(first, tests, trials), pairwise(second, tests, trials)
                info = dict(curve=curve, N=len(tests), M=len(trials), tests=enc_elems(tests)[:200], trials=enc_elems(trials)[:200],
                            first=kw1 or dict(quad_order=12, pw_exact=False), second=kw2 or dict(quad_order=12, pw_exact=False))
                a = guarded(res, 'C17:real-leaf-raises:two-configs', info, lambda: first.bilform_matrix(tests, trials))
                files_a = sorted(os.listdir(cache_dir))
                b = guarded(res, 'C17:real-leaf-raises:two-configs', info, lambda: second.bilform_matrix(tests, trials))
                files_b = sorted(os.listdir(cache_dir))
                a2 = guarded(res, 'C17:real-leaf-raises:two-configs', info, lambda: first.bilform_matrix(tests, trials, use_mp=True))
                b2 = guarded(res, 'C17:real-leaf-raises:two-configs', info, lambda: second.bilform_matrix(tests, trials, use_mp=True))
            res.count(('two-configs', pi), True)
            res.bump('search_two_configs_one_directory')
            if a is None or b is None or a2 is None or b2 is None:
                continue
            shared = len(files_b) < 2 or files_b == files_a
            wrong = [name for name, got, want in (('first', a, want_a), ('second', b, want_b), ('first-warm', a2, want_a),
                                                  ('second-warm', b2, want_b)) if not bits_equal(got, want)]
            if wrong:
                res.bump('search_two_configs_wrong_result')
            if wrong and res.notes['search_two_configs_wrong_result'] == 1:  # one replay record; further pairs are counted
                res.violation('C17:cache-key-ignores-config',
                              dict(info, files_after_first=files_a, files_after_second=files_b, shared_file=shared, wrong_results=wrong,
                                   second_is_first_matrix=bool(bits_equal(a, b)), differing_entries=int((b != want_b).sum()),
                                   max_abs_diff=float(np.abs(np.asarray(b) - want_b).max()),
                                   note='two operators that differ only in the configuration against one cache directory: a call is '
                                        'handed a matrix that is not its own pair-wise evaluation'))
            elif wrong:
                pass
            elif shared:
                # one file for both although the configurations differ; the values happen to agree bitwise
                res.bump('note_two_configs_share_a_file_with_equal_values')
            elif os.path.join(cache_dir, files_a[0]) != sl_file(
                    cache_dir, mesh_p.gamma_space, tests, trials, (kw1.get('quad_order', 12), kw1.get('pw_exact', False))):
                res.broken_obligation('correspondence C17: file names', 'two configurations: created %r' % files_b)
    finally:
        shutil.rmtree(tmp, ignore_errors=True)
        for p in multiprocessing.active_children():
            p.terminate()
        gc.collect()
