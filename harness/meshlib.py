"""Driving the real `src.mesh.Mesh` by element index and dumping its observable state canonically."""
import contextlib
import io
from fractions import Fraction as F

import numpy as np

from .common import q2s, silence_stdout


def elem_by_id(mesh, gid):
    """Finds the element (leaf or not) with the given glob_idx by walking the refinement forest."""
    stack = list(mesh.roots)
    while stack:
        e = stack.pop()
        if e.glob_idx == gid:
            return e
        stack.extend(e.children)
    return None


def all_elements(mesh):
    out, stack = [], list(mesh.roots)
    while stack:
        e = stack.pop()
        out.append(e)
        stack.extend(e.children)
    return out


def piece_index(mesh, elem):
    gs = getattr(mesh, 'gamma_space', None)
    if gs is None or elem.gamma_space is None:
        return 0
    for i, g in enumerate(gs.pw_gamma):
        if g is elem.gamma_space:
            return i
    return -1


def show_cell(mesh, e):
    return ':'.join([str(e.glob_idx), q2s(e.time_interval[0]), q2s(e.time_interval[1]), q2s(e.space_interval[0]),
                     q2s(e.space_interval[1]), str(e.levels[0]), str(e.levels[1]),
                     str(e.parent.glob_idx) if e.parent else '-', str(piece_index(mesh, e))])


def dump_leaves(mesh):
    return 'L ' + ' '.join(show_cell(mesh, e) for e in mesh.leaf_elements) + '|E %d' % mesh.N_elements


def dump_mesh(mesh):
    ls = ' '.join(show_cell(mesh, e) for e in mesh.leaf_elements)
    vs = ' '.join('%s:%s' % (q2s(v.t), q2s(v.x)) for v in mesh.vertices)
    ns, bs = [], []
    for e in mesh.leaf_elements:
        per_edge = []
        flags = ''
        for edge in e.edges:
            per_edge.append(','.join(str(n.glob_idx) for n in edge.neighbour_elements()))
            flags += ('1' if (edge.on_boundary and not edge.glued) else '0') + ('1' if edge.glued else '0')
        ns.append('%d:%s' % (e.glob_idx, '/'.join(per_edge)))
        bs.append('%d:%s' % (e.glob_idx, flags))
    return 'L %s|V %s|N %s|B %s|E %d' % (ls, vs, ' '.join(ns), ' '.join(bs), mesh.N_elements)


def enc(xs):
    xs = list(xs)
    return ','.join(q2s(x) for x in xs) if xs else '-'


GRADE_BUDGET = 40000


class GradeBudget(Exception):
    pass


class PyMesh:
    """The real mesh, driven through the same textual operations as the Lean driver."""
    def __init__(self, mesh):
        self.mesh = mesh

    @staticmethod
    def create(glue, X, T, flag_type=bool):
        from src.mesh import Mesh
        # flag_type: how the caller writes the closed/open flag (a Python bool, or numpy.bool_ as the result of np.all(...))
        return PyMesh(Mesh(glue_space=flag_type(bool(glue)), initial_space_mesh=list(X), initial_time_mesh=list(T)))

    def apply(self, op):
        """op = tuple; returns the canonical result line ('ok n ...' or 'err')."""
        m = self.mesh
        try:
            with silence_stdout():
                kind = op[0]
                if kind in ('rt', 'rs', 'rb'):
                    e = elem_by_id(m, op[1])
                    if e is None:
                        return 'err'
                    if kind == 'rt':
                        m.refine_time(e)
                    elif kind == 'rs':
                        m.refine_space(e)
                    else:
                        kids = m.refine(e)
                        return 'ok %d %s' % (len(m.leaf_elements), ','.join(str(k.glob_idx) for k in kids))
                elif kind == 'unif':
                    m.uniform_refine()
                elif kind == 'unifs':
                    m.uniform_refine_space()
                elif kind == 'diso':
                    m.dorfler_refine_isotropic(op[1], op[2])
                elif kind == 'daniso':
                    m.dorfler_refine_anisotropic(op[1], op[2])
                elif kind == 'grade':
                    # a grading call that performs more than GRADE_BUDGET bisections is running away (the window is reached
                    # after a few hundred on the meshes used here): stop it before it eats memory and time -> 'err-budget'
                    real_refine_axis = m.refine_axis
                    spent = [0]

                    def budgeted(elem, ax):
                        spent[0] += 1
                        if spent[0] > GRADE_BUDGET:
                            raise GradeBudget()
                        return real_refine_axis(elem, ax)
                    own = 'refine_axis' not in m.__dict__
                    if own:
                        m.refine_axis = budgeted
                    try:
                        # the property speaks of the DEFAULT parameters: rely on the defaults wherever the request has them
                        if op[2] == 4 and op[1] == 2:
                            m.refine_grading()
                        elif op[2] == 4:
                            m.refine_grading(sigma=op[1])
                        else:
                            m.refine_grading(sigma=op[1], K=op[2])
                    finally:
                        if own:
                            del m.refine_axis
                else:
                    raise ValueError(op)
            return 'ok %d' % len(m.leaf_elements)
        except AssertionError:
            return 'err'
        except GradeBudget:
            return 'err-budget'
        except (AttributeError, IndexError, KeyError, TypeError) as exc:
            return 'err'


def canon(line):
    """Model error tags are informative only; compare 'err' as such."""
    return 'err' if line.startswith('err') else line


# ------------------------------------------------------------------------------------------------
# independent geometric oracle on the real mesh (exact arithmetic when coordinates are Fractions)
def oracle_mesh(mesh, X, T, glue, check_nbrs=True):
    """Returns a list of violated clauses (strings) of C02/C10 on the real mesh object."""
    bad = []
    leaves = list(mesh.leaf_elements)
    xmin, xmax, tmin, tmax = X[0], X[-1], T[0], T[-1]
    # tiling: area + pairwise disjoint interiors + inside the cylinder
    area = sum((e.time_interval[1] - e.time_interval[0]) * (e.space_interval[1] - e.space_interval[0]) for e in leaves)
    if area != (tmax - tmin) * (xmax - xmin):
        bad.append('tiling: leaf areas sum to %s, cylinder has %s' % (area, (tmax - tmin) * (xmax - xmin)))
    rects = [(e.time_interval[0], e.time_interval[1], e.space_interval[0], e.space_interval[1]) for e in leaves]
    for r in rects:
        if not (tmin <= r[0] < r[1] <= tmax and xmin <= r[2] < r[3] <= xmax):
            bad.append('tiling: leaf %s outside the cylinder' % (r, ))
    n = len(leaves)
    # sweep for overlaps (n is small enough for O(n^2) on the meshes used here)
    if n <= 1500:
        for i in range(n):
            a = rects[i]
            for j in range(i + 1, n):
                b = rects[j]
                if max(a[0], b[0]) < min(a[1], b[1]) and max(a[2], b[2]) < min(a[3], b[3]):
                    bad.append('tiling: leaves %s and %s overlap' % (a, b))
                    break
    # dyadic descendant of the root its levels and parent chain say
    for e in leaves:
        r = e
        steps_t = steps_x = 0
        while r.parent is not None:
            p = r.parent
            if p.levels[0] + 1 == r.levels[0] and p.levels[1] == r.levels[1]:
                steps_t += 1
                mid = (p.time_interval[0] + p.time_interval[1]) / 2
                ok = r.space_interval == p.space_interval and r.time_interval in ((p.time_interval[0], mid), (mid, p.time_interval[1]))
            elif p.levels[1] + 1 == r.levels[1] and p.levels[0] == r.levels[0]:
                steps_x += 1
                mid = (p.space_interval[0] + p.space_interval[1]) / 2
                ok = r.time_interval == p.time_interval and r.space_interval in ((p.space_interval[0], mid), (mid, p.space_interval[1]))
            else:
                ok = False
            if not ok:
                bad.append('levels: element %d is not a half of its parent %d' % (r.glob_idx, p.glob_idx))
                break
            if r not in p.children:
                bad.append('levels: element %d not among the children of its parent' % r.glob_idx)
            r = p
        if r.levels != (0, 0) or r not in mesh.roots:
            bad.append('levels: chain of element %d does not end in a root' % e.glob_idx)
        if (steps_t, steps_x) != tuple(e.levels):
            bad.append('levels: element %d has levels %s but chain %s' % (e.glob_idx, e.levels, (steps_t, steps_x)))
        ht = (r.time_interval[1] - r.time_interval[0]) / 2**e.levels[0]
        hx = (r.space_interval[1] - r.space_interval[0]) / 2**e.levels[1]
        if e.time_interval[1] - e.time_interval[0] != ht or e.space_interval[1] - e.space_interval[0] != hx:
            bad.append('levels: element %d size does not match its levels' % e.glob_idx)
    # bookkeeping: leaf collection = childless elements, unique indices, unique vertex coordinates
    allel = all_elements(mesh)
    childless = {id(e) for e in allel if not e.children}
    if childless != {id(e) for e in leaves}:
        bad.append('bookkeeping: leaf collection differs from the set of childless elements')
    ids = [e.glob_idx for e in allel]
    if len(set(ids)) != len(ids) or len(ids) != mesh.N_elements:
        bad.append('bookkeeping: element indices not unique / N_elements wrong')
    coords = [(v.t, v.x) for v in mesh.vertices]
    if len(set(coords)) != len(coords):
        bad.append('bookkeeping: two vertices share coordinates')
    if [v.idx for v in mesh.vertices] != list(range(len(mesh.vertices))):
        bad.append('bookkeeping: vertex indices are not their positions')
    if not check_nbrs:
        return bad
    # neighbours: geometric relation vs reported lists; 1-irregularity; flags
    def geo(e, side):
        t0, t1 = e.time_interval
        x0, x1 = e.space_interval
        out = []
        for o in leaves:
            a0, a1 = o.time_interval
            b0, b1 = o.space_interval
            if side in (0, 2):
                touch = (a1 == t0) if side == 0 else (a0 == t1)
                if touch and max(x0, b0) < min(x1, b1):
                    out.append(o)
            else:
                if side == 1:
                    touch = b0 == x1 or (glue and x1 == xmax and b0 == xmin)
                else:
                    touch = b1 == x0 or (glue and x0 == xmin and b1 == xmax)
                if touch and max(t0, a0) < min(t1, a1):
                    out.append(o)
        return out
    for e in leaves:
        for side, edge in enumerate(e.edges):
            try:
                rep = edge.neighbour_elements()
            except AssertionError:
                bad.append('neighbours: lookup asserts on element %d side %d' % (e.glob_idx, side))
                continue
            g = geo(e, side)
            if {id(o) for o in rep} != {id(o) for o in g} or len(rep) != len(g):
                bad.append('neighbours: element %d side %d reports %s, geometric %s' %
                           (e.glob_idx, side, [o.glob_idx for o in rep], [o.glob_idx for o in g]))
            if len(g) > 2:
                bad.append('neighbours: element %d side %d has %d geometric neighbours' % (e.glob_idx, side, len(g)))
            for o in g:
                if abs(o.levels[0] - e.levels[0]) > 1 or abs(o.levels[1] - e.levels[1]) > 1:
                    bad.append('1-irregular: elements %d and %d differ by more than one level' % (e.glob_idx, o.glob_idx))
                # symmetry
                back = [s for s in range(4) if e in geo(o, s)]
                if not back:
                    bad.append('neighbours: relation not symmetric between %d and %d' % (e.glob_idx, o.glob_idx))
            is_bdr = (side == 0 and e.time_interval[0] == tmin) or (side == 2 and e.time_interval[1] == tmax) or \
                     (not glue and ((side == 1 and e.space_interval[1] == xmax) or (side == 3 and e.space_interval[0] == xmin)))
            is_seam = glue and ((side == 1 and e.space_interval[1] == xmax) or (side == 3 and e.space_interval[0] == xmin))
            if bool(edge.on_boundary and not edge.glued) != bool(is_bdr):
                bad.append('flags: element %d side %d boundary flag wrong' % (e.glob_idx, side))
            if bool(edge.glued) != bool(is_seam):
                bad.append('flags: element %d side %d glued flag wrong' % (e.glob_idx, side))
            if is_bdr and rep:
                bad.append('neighbours: boundary side of %d reports neighbours' % e.glob_idx)
            if not is_bdr and not rep:
                bad.append('neighbours: interior/seam side %d of %d reports no neighbour' % (side, e.glob_idx))
    return bad


def gmsh_oracle(mesh):
    """`Mesh.gmsh()` is the geometry callers export: its nodes must be the mesh vertices with their exact coordinates
    (the text round-trips), its elements the leaves with their four corners, and the exported rectangles must tile the
    cylinder like the leaves do.  Returns a list of problems (empty = fine)."""
    from fractions import Fraction as Fr
    bad = []
    try:
        with silence_stdout():
            txt = mesh.gmsh()
    except Exception as exc:  # noqa: BLE001
        return ['gmsh: raises %r' % (exc, )]
    lines = txt.split('\n')
    try:
        i = lines.index('$Nodes')
        n = int(lines[i + 1])
        nodes = {}
        for ln in lines[i + 2:i + 2 + n]:
            f = ln.split()
            # coordinates are written with str(): exact for Fractions ('p/q'), round-trip decimal for binary64 values
            nodes[int(f[0])] = tuple(Fr(tok) if '/' in tok else Fr(float(tok)) for tok in f[1:3])
        j = lines.index('$Elements')
        m = int(lines[j + 1])
        elems = [[int(v) for v in ln.split()[5:9]] for ln in lines[j + 2:j + 2 + m]]
    except Exception as exc:  # noqa: BLE001
        return ['gmsh: output cannot be parsed (%r)' % (exc, )]
    if n != len(mesh.vertices) or len(nodes) != n:
        bad.append('gmsh: %d nodes exported, the mesh has %d vertices' % (len(nodes), len(mesh.vertices)))
    for v in mesh.vertices:
        got = nodes.get(v.idx + 1)
        if got is None or got != (Fr(v.t), Fr(v.x)):
            bad.append('gmsh: node %d exported as %r, the vertex is (%r, %r)' % (v.idx + 1, got and tuple(map(float, got)), v.t, v.x))
            break
    leaves = list(mesh.leaf_elements)
    if m != len(leaves) or len(elems) != m:
        bad.append('gmsh: %d elements exported, the mesh has %d leaves' % (len(elems), len(leaves)))
    area = Fr(0)
    for k, (e, ids) in enumerate(zip(leaves, elems)):
        if ids != [w.idx + 1 for w in e.vertices]:
            bad.append('gmsh: element %d has nodes %r, the leaf has %r' % (k + 1, ids, [w.idx + 1 for w in e.vertices]))
            break
        try:
            c = [nodes[i_] for i_ in ids]
            area += (c[2][0] - c[0][0]) * (c[2][1] - c[0][1])
            if not (c[0][0] < c[2][0] and c[0][1] < c[2][1]):
                bad.append('gmsh: exported element %d is degenerate: corners %r' % (k + 1, [tuple(map(float, q)) for q in c]))
                break
        except KeyError:
            bad.append('gmsh: element %d refers to a missing node' % (k + 1))
            break
    want = sum((Fr(e.time_interval[1]) - Fr(e.time_interval[0])) * (Fr(e.space_interval[1]) - Fr(e.space_interval[0])) for e in leaves)
    if not bad and area != want:
        bad.append('gmsh: exported rectangles cover area %s, the leaves %s' % (float(area), float(want)))
    return bad
