"""Independent numeric references for the single-layer operator (used only by the failing-input search).

Exact time part (the four-term primitive F with F'' = G, F(0+) = 0) and, in space, iterated geometrically graded
Gauss-Legendre quadrature built here from numpy.polynomial.legendre.leggauss -- none of the repo's tabulated rules,
panel recursion or Duffy classes is used.  Singular sets are located geometrically: two parameter sub-intervals
produce a singularity only where the curve points coincide (equal parameters, or 0 ~ L on a closed curve)."""
import numpy as np
from scipy.special import expi

_GL = {}


def gl(n):
    if n not in _GL:
        x, w = np.polynomial.legendre.leggauss(n)
        _GL[n] = (0.5 * (x + 1), 0.5 * w)
    return _GL[n]


def graded(n=14, levels=22, q=0.25):
    """Composite rule on [0,1] graded geometrically towards 0: nodes, weights."""
    key = ('g', n, levels, q)
    if key not in _GL:
        x, w = gl(n)
        xs, ws = [], []
        hi = 1.0
        for _ in range(levels):
            lo = hi * q
            xs.append(lo + (hi - lo) * x)
            ws.append((hi - lo) * w)
            hi = lo
        xs.append(hi * x)
        ws.append(hi * w)
        _GL[key] = (np.concatenate(xs), np.concatenate(ws))
    return _GL[key]


def Fprim(z, rho):
    """F(z; rho) = (1/4pi) [ z e^{-rho/z} + (rho+z) Ei(-rho/z) ], rho = |x|^2/4, for z > 0 (0 otherwise)."""
    if z <= 0:
        return np.zeros_like(rho)
    u = rho / z
    return (z * np.exp(-u) + (rho + z) * expi(-u)) / (4 * np.pi)


def dtk(a, b, c, d):
    """r2 -> int_a^b int_c^d G(t-s, r) ds dt (vectorised in the squared distance r2)."""
    def K(r2):
        rho = np.maximum(r2 / 4.0, 1e-300)
        return Fprim(b - d, rho) - Fprim(b - c, rho) + Fprim(a - c, rho) - Fprim(a - d, rho)
    return K


def tik(t, a, b):
    """r2 -> int_a^min(t,b) G(t-s, r) ds."""
    def K(r2):
        r2 = np.maximum(r2, 1e-300)
        out = np.zeros_like(r2, dtype=float)
        if t > a:
            out = out - expi(-r2 / (4 * (t - a))) / (4 * np.pi)
        if t > b:
            out = out + expi(-r2 / (4 * (t - b))) / (4 * np.pi)
        return out
    return K


def _dist2(gx, gy, x, y):
    p, q = gx(x), gy(y)
    return (p[0] - q[0])**2 + (p[1] - q[1])**2


def _smooth(K, gx, gy, a, b, c, d, n=16, sub=3):
    tot = 0.0
    x, w = gl(n)
    for i in range(sub):
        for j in range(sub):
            a0, b0 = a + (b - a) * i / sub, a + (b - a) * (i + 1) / sub
            c0, d0 = c + (d - c) * j / sub, c + (d - c) * (j + 1) / sub
            X = (a0 + (b0 - a0) * x)[:, None] + 0 * x[None, :]
            Y = (c0 + (d0 - c0) * x)[None, :] + 0 * x[:, None]
            V = K(_dist2(gx, gy, X.ravel(), Y.ravel())).reshape(n, n)
            tot += (b0 - a0) * (d0 - c0) * float(w @ V @ w)
    return tot


def _corner(K, gx, gy, a, b, c, d, xs, ys):
    """Singularity at the corner (xs, ys) of [a,b]x[c,d]: polar-like Duffy split into two triangles around it,
    graded in the radial variable."""
    u, wu = graded()
    v, wv = gl(16)
    sx = 1.0 if xs == a else -1.0
    sy = 1.0 if ys == c else -1.0
    hx, hy = b - a, d - c
    U, V = np.meshgrid(u, v, indexing='ij')
    W = np.outer(wu, wv)
    tot = 0.0
    # triangle 1: (x', y') = (U, U V); triangle 2: (U V, U); jacobian U
    for X1, Y1 in ((U, U * V), (U * V, U)):
        X = xs + sx * hx * X1
        Y = ys + sy * hy * Y1
        vals = K(_dist2(gx, gy, X.ravel(), Y.ravel())).reshape(U.shape)
        tot += hx * hy * float(np.sum(W * U * vals))
    return tot


def _diagonal(K, g, a, b):
    """[a,b]^2 on one piece with the singular diagonal: two triangles, Duffy (x, x - x v) graded in v -> 0."""
    u, wu = graded()
    v, wv = graded()
    h = b - a
    U, V = np.meshgrid(u, v, indexing='ij')
    W = np.outer(wu, wv)
    # x = a + h U, y = x - h U V  (lower triangle), symmetric kernel -> factor 2 not assumed: do both triangles
    X = a + h * U
    Y = X - h * U * V
    v1 = K(_dist2(g, g, X.ravel(), Y.ravel())).reshape(U.shape)
    v2 = K(_dist2(g, g, Y.ravel(), X.ravel())).reshape(U.shape)
    # the U-direction needs grading too when the kernel is narrow; use composite sub-division
    return h * h * float(np.sum(W * U * (v1 + v2)))


def space_integral(K, gx, gy, a, b, c, d, length=None, closed=False, same_piece=False):
    """int_a^b int_c^d K(|gx(x) - gy(y)|^2) dy dx for straight/curved pieces gx, gy (vectorised callables)."""
    pts = sorted({a, b, c, d})
    xs = [p for p in pts if a <= p <= b]
    ys = [p for p in pts if c <= p <= d]
    tot = 0.0
    for x0, x1 in zip(xs[:-1], xs[1:]):
        for y0, y1 in zip(ys[:-1], ys[1:]):
            if (x0, x1) == (y0, y1):
                if same_piece:
                    tot += _subdiv_diag(K, gx, x0, x1)
                else:
                    tot += _smooth(K, gx, gy, x0, x1, y0, y1)
                continue
            sing = None
            if x1 == y0:
                sing = (x1, y0)
            elif x0 == y1:
                sing = (x0, y1)
            elif closed and x0 == 0 and y1 == length:
                sing = (x0, y1)
            elif closed and y0 == 0 and x1 == length:
                sing = (x1, y0)
            if sing is not None:
                tot += _corner(K, gx, gy, x0, x1, y0, y1, sing[0], sing[1])
            else:
                tot += _smooth(K, gx, gy, x0, x1, y0, y1)
    return tot


def _subdiv_diag(K, g, a, b, parts=4):
    """Diagonal square split into parts x parts blocks: diagonal blocks by Duffy, neighbours by corner rule,
    the rest smooth (resolves kernels that are narrow compared with the element)."""
    tot = 0.0
    e = [a + (b - a) * i / parts for i in range(parts + 1)]
    for i in range(parts):
        for j in range(parts):
            if i == j:
                tot += _diagonal(K, g, e[i], e[i + 1])
            elif j == i + 1:
                tot += _corner(K, g, g, e[i], e[i + 1], e[j], e[j + 1], e[i + 1], e[j])
            elif i == j + 1:
                tot += _corner(K, g, g, e[i], e[i + 1], e[j], e[j + 1], e[i], e[j + 1])
            else:
                tot += _smooth(K, g, g, e[i], e[i + 1], e[j], e[j + 1], n=12, sub=2)
    return tot


def entry_reference(elem_test, elem_trial, length, closed):
    """Reference value of <V 1_trial, 1_test> for real mesh elements (floats)."""
    a, b = map(float, elem_test.time_interval)
    c, d = map(float, elem_trial.time_interval)
    if b <= c:
        return 0.0
    K = dtk(a, b, c, d)
    gx, gy = elem_test.gamma_space, elem_trial.gamma_space
    x0, x1 = map(float, elem_test.space_interval)
    y0, y1 = map(float, elem_trial.space_interval)
    return space_integral(K, lambda x: gx(np.asarray(x)), lambda y: gy(np.asarray(y)), x0, x1, y0, y1, length=length,
                          closed=closed, same_piece=gx is gy)


def line_integral(K, g, a, b, xpt, sing=None):
    """int_a^b K(|xpt - g(y)|^2) dy with optional singular parameter `sing` in [a,b] (graded from both sides)."""
    def part(lo, hi, toward):
        if hi - lo <= 0:
            return 0.0
        u, w = graded()
        if toward == 'lo':
            y = lo + (hi - lo) * u
        else:
            y = hi - (hi - lo) * u
        p = g(y)
        r2 = (xpt[0] - p[0])**2 + (xpt[1] - p[1])**2
        return (hi - lo) * float(np.sum(w * K(r2)))
    if sing is None:
        # graded towards both ends (near-singular points outside the element)
        m = 0.5 * (a + b)
        return part(a, m, 'lo') + part(m, b, 'hi')
    return part(a, sing, 'hi') + part(sing, b, 'lo')
