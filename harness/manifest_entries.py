"""Source of truth for MANIFEST.json (run ../tools_manifest.py after editing)."""
SOURCE_COMMITS = []  # no hook commits; fix: commits are listed in known_findings.json
NOTES = ('Technique family: machine-checked proof in Lean 4. See DESIGN.md. Every check regenerates the generated '
         'Lean sources from /repo, rebuilds the theorems, audits axioms, runs model-vs-code correspondence and a '
         'failing-input search on the real code. No hook commits exist (nothing in /repo is instrumented). Genuine '
         'defects repaired by unguarded fix: commits in /repo (listed with the failing input in known_findings.json): '
         '530162f, dd96fb5, a7b9e52, f840eca, 99f909c, fa487bb, 34f0fd3 (cache key carries the configuration), c43535a '
         '(gauss_x_quadrature_scheme, even degrees); recorded known findings: C05 gauss_log 15/31 tables, C09 seam pair on '
         'one piece, C04 evaluate_exact loses positivity far from the element at short times, C19 grading runs away on '
         'strongly unequal initial time slabs, C13 loss of definiteness beyond aspect 3e8.')
NOT_APPLICABLE = []
_PENDING = ['C01', 'C02', 'C03', 'C04', 'C05', 'C06', 'C07', 'C08', 'C09', 'C10', 'C11', 'C12', 'C14', 'C16', 'C17',
            'C18', 'C19', 'C20']
CHECKS = [
    dict(id='C15', design_ref='DESIGN.md section 6 / C15',
         technique='Lean 4 theorems (moment factorisation, exactness, mirrors) + src/quadrature.py regenerated from source each '
                   'run (translate/quadgen.py) and proved equal to the hand model + exact Fraction correspondence of both',
         text='Proof, for every rule and every integrand, of the algebraic identities that make the derived schemes '
              'of src/quadrature.py exact: mirrors are involutions preserving weights, affine pull-back, tensor '
              'factorisation, Duffy pull-back and moment factorisation, exactness degrees n / n-1 / n-2 and measure '
              'preservation under Exact1. Every class, method and function of src/quadrature.py (except the quadpy wrapper) is '
              'regenerated from the source text on every run (Gen/QuadGen.lean: constructors with their np.repeat/tile/kron/'
              'hstack/vstack calls, mirrors with their memo, integrate with the a == b shortcut and the size assertions at the '
              'binary64 thresholds, the *_quadrature_scheme key maps) and Props/QuadTie.lean proves each generated function '
              'equal to the hand-written model for all inputs, so the theorems are restated for the generated functions. Both '
              'are tied to the code by running the real classes on Fraction arrays and comparing every point and weight.',
         note='exact arithmetic; binary64 rounding of np.dot not modelled; exactness on general boxes via the '
              'pull-back identities; harness and driver parser trusted; the NumPy prelude of the generated file (element order '
              'of repeat/tile/kron/hstack/vstack, scalar broadcasting) is trusted and tested against NumPy each run; arrays are '
              'assumed not to be mutated in place by callers (the translator rejects in-place updates inside the module)'),
    dict(id='C02', design_ref='DESIGN.md section 6 / C02',
         technique='Lean 4 invariant proof by induction over all operation histories + lock-step state-dump correspondence',
         text='Proof that the executable A-layer model of src/mesh.py keeps the invariant Inv (half-open tiling of the '
              'cylinder, 1-irregularity across edges incl. the seam, unique indices below the counter) from every '
              'strictly increasing tensor grid through every operation (refine_axis with its recursive closure never '
              'trips an assertion and terminates with fuel level+1; refine, uniform, Doerfler, grading); the model is '
              'tied to the code by comparing the complete observable state after every operation of exhaustive '
              'bounded and long random histories run on Fraction coordinates.',
         note='the half-edge pointer structure is modelled through its observable content (geometric neighbours, '
              'vertex coordinates) and validated by correspondence, not verified; binary64 midpoints not modelled'),
    dict(id='C05', design_ref='DESIGN.md section 6 / C05',
         technique='translator (source -> Lean tables) + kernel-evaluated rational certificates with verified log/sqrt enclosures',
         text='Every literal of src/quadrature_rules.py is regenerated into Lean on every run; for each of the 103 '
              'table entries and every degree of its advertised class the Lean kernel evaluates a certificate whose '
              'soundness theorem yields, over the real numbers with the true log and sqrt, a relative moment defect '
              '<= 1e-30 on the literals and <= 1e-13 on the certified binary64 roundings; all branches return, exported '
              'key lists are available. Complete enumeration of a finite space.',
         note='two entries (gauss_log 15 and 31) are certified only to 1e-18 and recorded as known findings with Lean '
              'negation witnesses; translator and Mathlib analysis library trusted; dot-product rounding not modelled'),
    dict(id='C10', design_ref='DESIGN.md section 6 / C10',
         technique='Lean 4 theorems on the geometric neighbour relation of every mesh satisfying the invariant + neighbour-list correspondence',
         text='Proof, for every mesh satisfying the invariant (hence every reachable one): the model neighbour list is '
              'exactly the set of leaves sharing a positive-length piece of the side, the relation is symmetric, true '
              'boundary sides have no neighbours, every other side (incl. the seam) has at least one, and with the '
              'dyadic level structure (proved to be preserved by every operation) at most two. That the half-edge '
              'lookup Edge.neighbour_elements() returns this list, in this order, with these flags is checked after '
              'every operation of exhaustive bounded and random histories.',
         note='pointer-level lookup tied by correspondence only (no H-layer refinement proof)'),
    dict(id='C06', design_ref='DESIGN.md section 6 / C06',
         technique='Lean 4 theorems (shortest prefix, phases never fail, marked implies refined) + exact correspondence + declarative-closure oracle',
         text='Proof in exact arithmetic: the marking loop returns the shortest non-empty prefix reaching theta^2 total '
              '(for every ordering handed in, so NumPy tie order is universally quantified); both refinement phases '
              'never hit an assertion on any mesh satisfying the invariant (each original leaf is bisected at most once '
              'per phase), every marked element ends up one level deeper in each marked direction, invariants are '
              'preserved. Tied to dorfler_refine_* by exact runs (indicators with exact binary sums) incl. exhaustive '
              'small cases; the resulting leaf set is compared with an independent declarative double closure.',
         note='binary64 summation order (np.sum pairwise vs sequential cumsum) is outside the model; searched by a float stream'),
    dict(id='C19', design_ref='DESIGN.md section 6 / C19',
         technique='Lean 4 theorems (window on return, no assertion after the fix, termination by a potential function, negation witness for the unrepaired code) + correspondence',
         text='Proof: whenever grading returns, it only refined, the invariant holds and every leaf is in the window '
              '(also stated with real powers); the repaired sweep never fails on a mesh satisfying the invariant; for '
              'meshes with uniform root sizes (unit/pi square, circle, interval, split L-shape) and for root sizes related by '
              'powers of two within an explicit sharp bound (unsplit L-shape) grading terminates (potential function); '
              'divergence is proved for a custom grid outside that bound. The abort of the original code is reproduced as a Lean negation '
              'witness and on the real code, and repaired by a fix: commit.',
         note='termination for root sizes that are not related by powers of two, or beyond the bound q*Bt+p*Bx < 4q+p, is explored (and can fail: proved divergence for X=[0,8,9], sigma=2)'),
    dict(id='C03', design_ref='DESIGN.md section 6 / C03', category='proof',
         technique='Lean 4 theorem (orthogonality as linear algebra over generated sign conventions) + ast-slice execution of example.py on a synthetic exact operator',
         text='Partial. Proved: for any linear element-mean functionals, if the density solves the assembled system '
              'then the residual has zero mean on every element, PROVIDED the five signs and the row/column convention '
              'cancel -- and the signs regenerated on every run from example.py, ErrorEstimator.residual and '
              'bilform_matrix do cancel (decide). The data of problems.py are regenerated into Lean on every run (all 14 functions '
              'and the dispatch table of problem_helper) and proved consistent: g-linform is the element integral of g; every '
              'closed-form M0u0 (erf forms and the complex-erf forms) IS the heat-kernel potential of the generated u0 over the '
              'domain; the Singular M0u0 solve the heat equation and tend to the indicator of the domain; exp(-lambda t) u0 solves '
              'the Smooth problems and the generated u_neumann is its outward normal derivative on every side of the '
              'parametrisation (Python % included); special functions are parameters with stated laws, for which a model is '
              'constructed in Lean. Tie: the real functions of problems.py run on exact numbers = generated terms; the '
              'assembly statements cut out of example.py are executed on a synthetic causal operator and the REAL '
              'residual closure must have vanishing element means. On real data the hypotheses hold only to quadrature '
              'accuracy: the 5e-5 bound is exercised by the search on the shipped problems.',
         note='quadrature accuracy of the real operators is not covered by theorems; heat equation / initial value of the two '
              'complex-erf closed forms are not proved (their potential representation is); that SciPy erf / NumPy exp are '
              'the functions with the assumed laws, and the translator patterns, are trusted'),
    dict(id='C01', design_ref='DESIGN.md section 6 / C01', category='proof',
         technique='Lean 4 theorems on the panel recursion / request / generated kernels; control flow of __integrate / bilform regenerated from source each run (translate/panels.py) and proved equal to the model; exact execution of the real bilform (Q numbers, stand-in special functions); formula translator',
         text='Partial. Proved for all rational inputs: the panel recursion of __integrate is total on grid-aligned inputs, '
              'its panels tile the parameter rectangle, each singular rule sits exactly on the singular set (diagonal, '
              'touching corner, seam), the variable swap feeds the right parametrisation, derived rules are exact on '
              'polynomials (C15); for the formulas regenerated from the Python source on every run: four-term structure, '
              "F' = g and g' = -G under the law of Ei, the closed forms satisfy fint_2/3/4 = Psi-combinations. Tie: the real "
              'bilform (both paths) run in exact rational arithmetic equals the model on every position class; in addition the '
              'decision structure of __integrate, bilform, evaluate, the worker column and the matrix loops is translated from '
              'src/single_layer.py on every run (Gen/Panels.lean) and Props/PanelsTie.lean proves it equal to the hand model '
              'for all inputs (gen_panels_eq, gen_bilform_eq, ...), so every theorem transfers to the generated-from-source '
              'functions. NOT proved: '
              'that the fixed order-12 rules reach 1e-7 on the heat kernel -- searched against an independent reference.',
         note='special functions enter as parameters with stated laws; accuracy of fixed rules on non-polynomial integrands and binary64 rounding are outside every theorem'),
    dict(id='C04', design_ref='DESIGN.md section 6 / C04', category='proof',
         technique='Lean 4 theorems (acausal => literal zero on every path and in every generated kernel; matrix = table of calls, block lower triangular) + exact zero-structure correspondence',
         text='Proof of the zero structure: acausal => bilform returns the literal 0 on both paths, and independently of the '
              'guard the generated kernels (four-term time kernel, fint_k, stik_k, time-integrated kernel, steval_k) '
              'vanish for every choice of special functions; evaluate / evaluate_exact / potential are 0 for t <= start '
              '(equality included); bilform_matrix is exactly the table of single calls with rows = test, hence block '
              'lower triangular. Sign: the kernel is a second primitive of G >= 0 (derivative identities under the law of Ei). '
              'Positivity beyond rounding in binary64 is search-only (partial for that clause).',
         note='cancellation in the four-term formula in binary64 is not modelled'),
    dict(id='C07', design_ref='DESIGN.md section 6 / C07', category='proof',
         technique='Lean 4 theorems on the evaluation plan and the closed-form variant; evaluate regenerated from source each run and proved equal to the model (PanelsTie gen_evaluate_eq); exact execution of the real evaluate / evaluate_exact',
         text='Partial. Proved: the branch taken by evaluate (zero iff t <= start; in-element split graded towards the '
              'singular point; otherwise the point set graded towards the seam-aware nearer end point; end-point cases), the '
              'inline kernels equal the generated time-integrated kernel, evaluate_exact equals steval_1/steval_2 = gint '
              'combinations in every case and never falls through. Tie: real evaluate / evaluate_exact on Q numbers equal '
              'the model on all point x time classes. The 1e-8 / 5e-4 / 2e-3 accuracy zones are searched against a graded reference.',
         note='accuracy of the fixed log rule near the element is not a theorem'),
    dict(id='C11', design_ref='DESIGN.md section 6 / C11', category='proof',
         technique='Lean 4 theorems (telescoping of the time kernels, Psi-additivity of the closed forms, tiling) + exact execution',
         text='Partial. Proved: the four-term time kernel and all stik_k are exactly additive under splitting either time '
              'interval (for every choice of special functions); the closed-form space integrals are Psi-combinations, hence '
              'exactly additive in space; parent and children panels tile the same rectangle with rules exact on '
              'polynomials. Tie: in exact arithmetic with law-respecting stand-ins the closed-form path is additive to the '
              'last digit for all 3x3 split kinds; the quadrature path equals the model. For the true kernel on the '
              'quadrature path additivity holds up to quadrature error: searched (1e-7 scaled).',
         note='quadrature error of parent vs children rules is not bounded by a theorem'),
    dict(id='C12', design_ref='DESIGN.md section 6 / C12', category='proof',
         technique='Lean 4 theorems (exchange and time-shift invariance of the model result, errors included) + exact and bitwise correspondence',
         text='Partial. Proved: exchanging the space data of test and trial (times fixed) and shifting both time intervals '
              'leave the result of the model identical on both paths (the content of "bit for bit"); mirrors are commuting '
              'involutions. Tie: exact runs of the real bilform; floats: exchange and dyadic shifts bitwise on the real code. '
              'Invariance under motions of the curve (which change the panel decomposition) is searched to 1e-7 scaled.',
         note='rotation/reflection invariance for the true kernel holds only up to quadrature error'),
    dict(id='C08', design_ref='DESIGN.md section 6 / C08', category='proof',
         technique='Lean 4 executable model of InitialOperator.linform with theorems (load = exact integral for polynomial integrands on every dyadic boundary segment of every reachable domain mesh; linearity; time additivity) + exact rational correspondence of the real linform + polynomial-kernel execution',
         text='Partial. Model/InitialPotential.lean models __init__ and linform statement by statement (targeted domain mesh, '
              'cell classification in code order with its assertions, parametrisations, Jacobians, exact fsum; exp1, pi, the '
              '1-D rule and u0 are parameters; the time kernel is the generated ip_tik). Proved for all inputs: linform is '
              'linear in u0 (error cases included) and additive under splitting the time interval (for every stand-in '
              'kernel); linform_eq_integral_poly: for rules exact to degree n and polynomial integrands of degree <= n-2 the '
              'load equals the exact integral over domain x segment and every per-cell value equals the cell integral, for '
              'EVERY dyadic boundary segment (either orientation) of EVERY reachable domain mesh of the unit square and the '
              'L-shape (boxInt_is_integral identifies the value with Mathlib interval integrals); additivity in space follows; '
              'duffyId3_poly_exact (new) and the x<->z symmetry of the touching rule. Tie: the REAL linform on Fractions '
              'equals the model textually (load and per-cell values, all cell classes, both time branches incl. a = 2^-30, '
              'assertion tags). Earlier results: for the cell having the boundary segment as an edge the squared distance handed to the '
              'kernel is h^2((x-y)^2+z^2) (so the singular line of the Duffy-identical rule is the singular set), the '
              'vertex-touching parametrisations meet in the shared vertex only, Jacobians h^3 resp. diam^2 (d-c), the load is '
              'linear in u0, both branches of the generated time kernel, exactness of the 3-D Duffy rules on polynomials '
              '(C15). Tie: the REAL linform with exp1 replaced by polynomials equals the closed-form polynomial integral over '
              'domain x segment to 1e-10 for dyadic segments on all three domains (cell classes, Jacobians, tiling). The '
              '1e-5 accuracy for the true kernel is searched against the closed-form potentials. Those closed forms are '
              'themselves regenerated from problems.py and proved (Props/C03Problems.lean) to be the heat-kernel potentials '
              'int_Omega G(t, x-y) u0(y) dy of the generated u0 = 1 (unit square, L-shape) and of the sine products (unit and '
              'pi square, complex-erf forms), with the special functions as parameters with stated laws.',
         note='accuracy for the non-polynomial kernel E1 is not a theorem (searched, 1e-5); set iteration order of leaf_elements is not modelled (contributions compared sorted by element index); pi-square tied with the stand-in pi := 25/8'),
    dict(id='C13', design_ref='DESIGN.md section 6 / C13', category='proof',
         technique='Lean 4 verified certificate checker (LDL^T pivots of sym(A) - mu diag(A), proved sound AND complete over every ordered field, transfer Q -> R) run as compiled Lean code on the exact values of the assembled binary64 matrices + Lean theorems for the consequences',
         text='Partial. Proved (Props/C13.lean): the executable checker of Model/PosDef.lean accepts a rational matrix A and a bound '
              'mu iff mu * sum a_ii x_i^2 < x^T A x for every x != 0 (certPD_iff, scaled_bound_iff), and the SAME run over Q '
              'decides the statement over the reals for the real matrix with these entries (scaled_bound_real_iff: the '
              'elimination commutes with the cast); a rejected matrix comes with the existence of a violating vector '
              '(notpd_witness, c13_partial). Consequences for every real matrix with positive definite symmetric part '
              '(the "so that" part of the property): det != 0, injective, exactly one solution of A Phi = rhs '
              '(unique_solvability); d^T A d > 0 for d != 0 and = 0 for d = 0, sqrt(d^T A d)^2 = d^T A d (hh2_energy); every '
              'principal sub-matrix inherits the property, so the three scaling factors psi^T S psi of a 4x4 child block are '
              'positive (hierarchical_scaling_pos); positive diagonal; Rayleigh quotient of D^-1/2 A D^-1/2 and every '
              'eigenvalue of its symmetric part above mu (certified_consequences). Tie / decision per matrix: the REAL '
              'bilform_matrix (serial path) is run on every shipped curve x {initial, time grids, uniform, random bisections, '
              'Doerfler isotropic/anisotropic, point-graded, refine_grading, anisotropic} meshes (n <= 52 quick / 80 '
              'thorough with the exact elimination; up to 135 / 262 with a second compiled checker, proved sound for every hint '
              '(domCertScaledQ_sound): R^T (sym A - mu diag) R strictly diagonally dominant for an untrusted floating-point '
              'Cholesky hint R), every binary64 entry is sent exactly to the compiled checker with mu = 1/100: notpd is a proof '
              'that this assembled matrix violates the bound (violation with the mesh history and the matrix), ok is a '
              'checked certificate; likewise the 4x4 child blocks of the hierarchical estimator and the fine matrix '
              'assembled by the h-h/2 estimator; numpy eigvalsh only as a cross-check (and alone for n up to ~500). The '
              'driver command is tied to an independent Fraction LDL^T and to Sylvester\'s criterion on random exact '
              'matrices. NOT decided: that the bound holds on EVERY mesh -- that needs the coercivity of the heat '
              'single-layer operator and quadrature/rounding error bounds; the meshes are a sample with a verified oracle.',
         note='the for-all-meshes spectral bound is not proved (no coercivity theory / quadrature error analysis in Mathlib); '
              'Lean compiler + GMP runtime executing the verified checker and the driver parser are trusted; the bound is '
              'decided for the stored binary64 matrix, not for the exact Galerkin matrix; exact elimination costs ~n^4.3 '
              '(n = 64: 4 s, n = 104: 28 s), the hint-based checker ~n^3 (n = 130: 8 s, n = 256: 66 s); still larger matrices are only checked numerically'),
    dict(id='C14', design_ref='DESIGN.md section 6 / C14', category='proof',
         technique='Lean 4 theorems (reduction of the seminorm rules to moment functionals, rule-independence under exact moments, invariances) + exact execution of the real Slobodeckij class on rational stand-in rules',
         text='Proof in exact arithmetic for every rule and interval: non-negativity, zero on constants, quadratic scaling, '
              'translation invariance, curve-aware = flat on straight unit-speed pieces (any rational direction); for a '
              'polynomial of degree <= d the H^{1/4} and H^{1/2} routines are a fixed bilinear form in the moments of the base '
              'rules (the 1/y and 1/(x-xy)^2 weights cancel), hence every rule with exact weighted moments up to the stated '
              'order returns the same value; the weight moments are the real integrals (Mathlib); the two-piece cross rule is '
              'exact on polynomials with its singular corner at (b1,a2). Tie: the real class with patched rule constructors '
              'run on Fractions (sqrt(h) handled by an exact-root number class), all streams compared with the model.',
         note='H^{1/2}: for polynomial integrands within the exactness range the routine is PROVED equal to the double integral '
              'int_a^b int_a^b ((f x - f y)/(x - y))^2 dy dx (Props/C14Integral.lean, Mathlib interval integrals); H^{1/4}: '
              'sqrt(h) * routine PROVED equal to int_a^{a+h} int_a^{a+h} (f x - f y)^2 / |x - y|^{3/2} for polynomial data within the '
              'exactness range, 0 < h (Props/C14Integral14.lean: weighted reference form, two substitutions, Fubini on the triangle; '
              'C14Integral14Gen.lean for the regenerated code); twelve digits in binary64 and the corner case against a graded reference are search-only'),
    dict(id='C16', design_ref='DESIGN.md section 6 / C16', category='proof',
         technique='Lean 4 invariant proof over all refinement sequences + boundary-targeting theorem + state-dump correspondence of the real InitialMesh',
         text='Proof: the quadtree invariant (half-open tiling of the domain by dyadic squares, 2:1 balance across edges, unique '
              'vertex coordinates = element corners, ids, forest structure) holds for the unit square and the L-shape and is '
              'preserved by refine on any leaf of any reachable mesh, which never trips the level assertion and terminates '
              '(fuel level+1); boundary targeting with fuel j+1 returns a leaf of the right level whose side is exactly the '
              'requested dyadic piece (either orientation), it is the only such leaf/side, the invariant persists and both end '
              'points are found by vertex lookup. Tie: exhaustive refinement sequences, random histories and all segments '
              'l <= 5/8 of the real InitialMesh compared dump by dump with the model.',
         note='isclose/eps modelled as equality (dyadic coordinates, depth <= 30); pi square treated as the unit square in units of pi'),
    dict(id='C09', design_ref='DESIGN.md section 6 / C09', category='proof',
         technique='Lean 4 theorems (shortcut = direct sum, patch specifications, weighted-L2 scaling, pool = serial) + token-level exact execution of the real estimator',
         text='Partial. Proved: on every mesh satisfying the invariant the neighbour-symmetry shortcut with its accumulation '
              'loop equals the direct per-element sum (no assertion fires), for arbitrary patch functionals; the time patch '
              'is union in time x intersection in space on one piece; full specification of the space patch for EVERY neighbouring pair '
              '(space_patch_spec_full, gen_space_patch_spec_full): common time interval x the union of '
              'the two elements, EXCEPT for a seam pair on the same parametrisation piece, for which the model (and the code) '
              'integrate over [left.x0, right.x1], right.x1 <= left.x0, the complementary arc -- kernel-evaluated witness that the case occurs, reproduced on the real code and '
              'recorded as a known finding; weighted-L2 scaling; pool path = serial path for every worker count given an '
              'order-preserving map. Tie: real sobolev_space / sobolev_time / estimate_* with token seminorms on real meshes. '
              'Accuracy for smooth non-polynomial residuals is measured by the search.',
         note='process scheduling modelled as "map preserves order"; accuracy of the seminorm rules for non-polynomial residuals is not a theorem'),
    dict(id='C17', design_ref='DESIGN.md section 6 / C17', category='proof',
         technique='Lean 4 theorems over all worker schedules and all cache histories + token-leaf execution of the real assembly paths and real cache files',
         text='Proof of the path logic: inline, serial and pool-by-columns (for EVERY valid schedule: any worker count, chunk '
              'size, assignment and completion order) equal the table bil(trial_j, test_i) provided bil vanishes on acausal '
              'pairs; threshold and schedule do not occur in the result; the load-vector paths likewise; for every history of '
              'calls, failing saves, crashes, truncations and removals against one directory every call returns the pure '
              'result, given the key discipline; the file name is injective on (curve, tests, trials) for an injective hash '
              'and prefix-free repr -- and NOT on the operator configuration (negation witness = known finding F7). Tie: real '
              'bilform_matrix / linform_vector with token leaves, worker counts 1..16, both sides of the 100-entry threshold, '
              'real cache files damaged in every byte-length class, compared bitwise and with the model.',
         note='fork semantics, imap order, np.save/np.load and md5 collision-freeness are assumptions'),
    dict(id='C18', design_ref='DESIGN.md section 6 / C18', category='proof',
         technique='Lean 4 theorems (polygons over Q, circle over R, piece assignment/inheritance, three-per-slab with negation witness for the unrepaired guard) + exact correspondence of curves and MeshParametrized',
         text='Partial. Proved: every axis-parallel polygon the constructor accepts is unit speed on each piece, piece length = '
              'side length, continuous at break points, closed; evaluation agrees with every piece whose closed range '
              'contains the parameter; the circle has unit speed and period 2 pi; each root gets the piece containing it, every '
              'descendant under every operation stays on its piece; with the repaired guard every time cross-section of a '
              'closed curve has >= 3 elements for every time grid, preserved by all refinements, so two distinct elements '
              'touch in at most one end point; the unrepaired guard fails (kernel-checked witness; fixed in /repo). Tie: the '
              'shipped curves, random accepted polygons and MeshParametrized on all curves x time grids x space grids followed '
              'by random histories, compared exactly.',
         note='totality of the guard refinement (initParam never errors) is exercised, not proved; the circle is compared with rational stand-ins for pi; arc length of general float polygons only sampled by the constructor'),
    dict(id='C20', design_ref='DESIGN.md section 6 / C20', category='proof',
         technique='translator (child order, sign patterns, sharing factor from source) + Lean 4 theorems + exact execution of the real estimators on synthetic operators',
         text='Proof over constants regenerated from the source on every run: the four virtual children are [LL, LR, UL, UR] and '
              'tile the parent; the three patterns are the time-split, space-split and checkerboard functions; np.repeat(.,4) '
              'is the piecewise-constant extension; the hierarchical indicator is |<rhs - V Phi, psi>|^2 / <V psi, psi> per '
              'psi with the checkerboard shared half-half, non-negative, and fails only on a non-positive scaling; h-h/2 '
              'squared is d^T A d with A d = rhs - A P Phi and vanishes when P Phi solves the fine problem; Prolongate returns '
              'the value of the unique coarse ancestor (parent-table invariant preserved by every mesh operation). Tie: real '
              'estimators with the module np replaced by an exact stand-in, synthetic rational leaves, compared with the model '
              'and with the geometric definition; search against really bisected meshes with single-pair evaluations.',
         note='the exact solver of the model is self-checking and proved complete (pivoting elimination: some y with A y = b for every square '
              'matrix with non-zero determinant, none only for singular matrices; Props/C20.lean solve_complete, Props/C20Solve.lean); float solve accuracy is outside the model'),
]
for p in _PENDING:
    if p not in [c['id'] for c in CHECKS]:
        NOT_APPLICABLE.append(dict(property_id=p, reason='check under construction in this build phase (see DESIGN.md '
                                   'section 6 for the planned treatment); not yet claimed'))


# ---- additions of session 3 (appended to the entries above) -------------------------------------------------------------
_MESHOPS = ('; the refinement drivers of src/mesh.py (refine, uniform_refine*, dorfler_refine_*, refine_grading, Prolongate, '
            'MeshParametrized.__init__) are regenerated from source each run (translate/meshops.py) and proved equal to the '
            'model (Props/MeshOpsTie* gen_*_eq); generated twins answer every mesh request of the correspondence')
_ADD = {
    'C02': dict(technique=_MESHOPS, text=' Search additions: several Mesh objects alive at once with interleaved operations; grids '
                'not starting at 0; MeshParametrized meshes with bookkeeping (index uniqueness over the whole tree) after every operation.'),
    'C06': dict(technique=_MESHOPS),
    'C19': dict(technique=_MESHOPS, text=' Known finding F12: the shipped loop runs away on initial_time_mesh=[0,1/64,1], sigma=1 '
                '(reproduced under a bisection budget on every run).'),
    'C18': dict(technique=_MESHOPS),
    'C20': dict(technique=_MESHOPS),
    'C04': dict(technique='; sign: Lean 4 theorems that the generated time kernels (guards included) are the single / double time '
                'integral of the causal heat kernel, >= 0 and > 0 exactly on causal arguments, and that the quadrature sums of the '
                'model are >= 0 for non-negative rules (Props/C04Sign.lean) + pointwise sign search with a rigorous lower bound',
                text=' Sign (exact arithmetic): with exp = Real.exp, Ei\' = e^x/x on x<0, Ei -> 0 at -infinity (satisfied by a Lean '
                'model built from the integral of e^t/t) the generated sl_tik and sl_dtk are the time integrals of the heat kernel '
                '(dtk_eq_integral), are >= 0 and > 0 iff t > a resp. b > c; bilform (quadrature path), evaluate and potential are '
                'finite sums of such values with weights >= 0 (preserved by mirror, product, Duffy) and hence >= 0, > 0 for every '
                'causal pair with the real kernels (bilform_quad_real_pos). Not covered: the sign of the closed-form (erf) path and '
                'binary64 cancellation (known finding F11: evaluate_exact returns -1.9e-19 where the exact value is 2.5e-21).'),
    'C05': dict(technique='; scheme-constructor key maps regenerated and proved: requested degree <= certified degree of exactness for '
                'every accepted request (ctor_requested_ok_*); request sweep over tabulated and non-tabulated keys on the real functions',
                text=' Constructors: the key maps N = (N_poly + a)//b + c and odd-degree assertions of src/quadrature.py are regenerated; '
                'for every degree a constructor accepts and every table entry it can hand out, the degree is at most the certified '
                'degree of exactness (this obligation is refuted by the kernel on the pinned gauss_x map: finding F10, repaired).'),
    'C17': dict(text=' After the repair of F7 the hashed text ends with str((quad_order, pw_exact)): the key is injective on (curve, '
                'tests, trials, configuration text), operators that differ in configuration never share a file '
                '(cache_transparent_across_configs); the unrepaired key is kept with kernel-checked negation witnesses.'),
}
_ADD2 = {
    'C03': dict(technique='; ErrorEstimator.residual and the assembly slice of example.py regenerated from source (translate/slrest.py) with '
                'orthogonality proved for the generated residual against the generated system (Props/SLRestResidual.lean)'),
    'C04': dict(technique='; evaluate_exact, potential, the vector routines and all of bilform_matrix regenerated from source and proved equal to '
                'the models (Props/SLRestTie.lean)'),
    'C07': dict(technique='; evaluate_exact, potential, evaluate_vector regenerated from source and proved equal to the model (Props/SLRestTie.lean); '
                'time additivity of the closed-form evaluation proved for model and regenerated code (Props/C07TimeAdditive.lean)'),
    'C17': dict(technique='; all of bilform_matrix (defaults, threshold, key text, load/save, serial/pool) regenerated from source and proved equal '
                'to the assembly model (Props/SLRestTie.lean gen_bilform_matrix_*), generated twins incl. cache histories'),
    'C16': dict(technique='; src/initial_mesh.py regenerated from source (translate/quadtreegen.py) and proved to simulate the hand model '
                '(Props/QuadtreeTie.lean, Props/QuadtreeSim.lean: RefineSim for the coherence invariant of the three dictionaries) + generated '
                'twins on every request',
                text=' The tie of the regenerated initial_mesh.py to the hand model is complete: Props/QuadtreeSim.lean proves that one generated '
                'refine on any element of a coherent state gives the same abstract mesh or the same assertion as the model and restores the '
                'invariant (gen_refine_eq); gen_refine_msh_bdr_eq, gen_uniform_refine_eq, gen_refine_ok, gen_qt_inv, gen_bdr_target hold for all '
                'states reachable from the generated UnitSquare() / LShape(). Trusted: the translator\'s object model.'),
    'C09': dict(technique='; the logic of src/error_estimator.py regenerated from source (translate/estimatorgen.py) and proved equal to the model '
                '(Props/EstimatorTie.lean)', text=' space_patch_spec_full: the complete case split over all neighbouring pairs (definition, or '
                'same-piece seam pair = complementary arc, finding F5), also for the generated code.'),
    'C14': dict(technique='; src/norms.py regenerated from source (translate/normsgen.py) and proved equal to the model (Props/NormsTie.lean); '
                'H^{1/2} rule value = double integral for polynomial data (Props/C14Integral.lean, Mathlib interval integrals)'),
    'C08': dict(technique='; src/initial_potential.py regenerated from source (translate/initpotgen.py) and proved equal to the model '
                '(Props/InitPotTie.lean); problems.py closed forms proved to be the heat-kernel potentials of the generated u0 (Props/C03Problems.lean)'),
    'C20': dict(text=' The model solve is complete (Props/C20Solve.lean: det != 0 <=> solved uniquely); both estimator files regenerated from '
                'source (translate/estimgen.py) and proved equal to the model (Props/EstimTie.lean).'),
    'C18': dict(technique='; src/parametrization.py regenerated from source (translate/paramgen.py) and proved equal to the model '
                '(Props/ParamTie.lean, ParamTieCircle.lean)'),
}
for _c in CHECKS:
    for _k, _v in _ADD.get(_c['id'], {}).items():
        _c[_k] = _c[_k] + _v
    for _k, _v in _ADD2.get(_c['id'], {}).items():
        _c[_k] = _c[_k] + _v
