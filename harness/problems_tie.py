"""Validation of translate/problemdefs.py: the REAL functions that `problems.problem_helper` hands out, run on exact numbers
(`X`: rationals / Gaussian rationals) with rational stand-ins for `np.exp, np.sqrt, np.sin, erf, erfc, np.pi` installed by
monkey-patching the module `problems` in the harness process, must return exactly the value of the generated Lean term
(over `Rat` / Gaussian rationals, same stand-ins) evaluated by the driver (`pb ev`); the dispatch table of `problem_helper`
(keys in dictionary order, failed assertion) must be the generated `helper` (`pb helper`).  Equality, not tolerance."""
import ast
import contextlib
import math
import os
import traceback
from fractions import Fraction as F

import numpy as np

from .common import REPO, q2s, run_driver

REAL_FUNS = ['exp', 'sqrt', 'sin', 'erf', 'erfc']
CPLX_FUNS = ['cexp', 'cerf', 'cerfc']


# ---------------------------------------------------------------------------------------------------------
def _conv(o):
    if isinstance(o, X):
        return o
    if isinstance(o, bool):
        return X(F(int(o)))
    if isinstance(o, (int, F)):
        return X(F(o))
    if isinstance(o, float):
        return X(F(o))
    if isinstance(o, complex):
        return X(F(o.real), F(o.imag), True)
    if isinstance(o, np.generic):
        return _conv(o.item())
    return NotImplemented


class X:
    """Exact real (`cx=False`) or complex (`cx=True`) number with NumPy's promotion: real op complex -> complex."""
    __slots__ = ('re', 'im', 'cx')

    def __init__(self, re, im=0, cx=False):
        self.re, self.im, self.cx = F(re), F(im), bool(cx)
        if not self.cx and self.im != 0:
            raise ValueError('real number with imaginary part')

    @staticmethod
    def _bin(a, b, f):
        a, b = _conv(a), _conv(b)
        if a is NotImplemented or b is NotImplemented:
            return NotImplemented
        return f(a, b)

    @staticmethod
    def _add(a, b): return X(a.re + b.re, a.im + b.im, a.cx or b.cx)
    @staticmethod
    def _sub(a, b): return X(a.re - b.re, a.im - b.im, a.cx or b.cx)
    @staticmethod
    def _mul(a, b): return X(a.re * b.re - a.im * b.im, a.re * b.im + a.im * b.re, a.cx or b.cx)

    @staticmethod
    def _div(a, b):
        n = b.re * b.re + b.im * b.im
        if n == 0:
            raise ZeroDivisionError('X division by zero')
        return X((a.re * b.re + a.im * b.im) / n, (a.im * b.re - a.re * b.im) / n, a.cx or b.cx)

    @staticmethod
    def _mod(a, b):
        if a.cx or b.cx:
            raise TypeError('% of complex numbers')
        if b.re == 0:
            raise ZeroDivisionError('X modulo by zero')
        return X(a.re - b.re * math.floor(a.re / b.re))

    def __add__(self, o): return X._bin(self, o, X._add)
    def __radd__(self, o): return X._bin(o, self, X._add)
    def __sub__(self, o): return X._bin(self, o, X._sub)
    def __rsub__(self, o): return X._bin(o, self, X._sub)
    def __mul__(self, o): return X._bin(self, o, X._mul)
    def __rmul__(self, o): return X._bin(o, self, X._mul)
    def __truediv__(self, o): return X._bin(self, o, X._div)
    def __rtruediv__(self, o): return X._bin(o, self, X._div)
    def __mod__(self, o): return X._bin(self, o, X._mod)
    def __rmod__(self, o): return X._bin(o, self, X._mod)
    def __neg__(self): return X(-self.re, -self.im, self.cx)
    def __pos__(self): return self

    def __pow__(self, e):
        if isinstance(e, X) and not e.cx:
            e = e.re
        if isinstance(e, (int, F)) and not isinstance(e, bool) and F(e).denominator == 1 and e >= 0:
            out = X(1, 0, self.cx)
            for _ in range(int(e)):
                out = X._mul(out, self)
            return out
        raise TypeError('unsupported exponent %r' % (e, ))

    @property
    def real(self): return X(self.re)
    @property
    def imag(self): return X(self.im)

    def _r(self, o):
        o = _conv(o)
        if self.cx or o is NotImplemented or o.cx:
            raise TypeError('ordering of complex numbers')
        return o.re

    def __lt__(self, o): return self.re < self._r(o)
    def __le__(self, o): return self.re <= self._r(o)
    def __gt__(self, o): return self.re > self._r(o)
    def __ge__(self, o): return self.re >= self._r(o)

    def __eq__(self, o):
        o = _conv(o)
        return False if o is NotImplemented else (self.re, self.im) == (o.re, o.im)

    def __ne__(self, o): return not self.__eq__(o)
    def __hash__(self): return hash((self.re, self.im))
    def __repr__(self): return 'X(%s%s)' % (self.re, ', %s' % self.im if self.cx else '')


class StandIns:
    """Random rational functions `(p0 + p1 u + p2 u^2)/(q0 + u^2)` with `p1^2 < 4 p0 p2`, `q0 > 0` (strictly positive on
    the reals); the complex stand-ins are functions of the same form evaluated in the Gaussian rationals."""
    def __init__(self, rng):
        self.funs = {}
        for n in REAL_FUNS + CPLX_FUNS:
            while True:
                p0 = F(rng.randint(1, 9), rng.randint(1, 5))
                p2 = F(rng.randint(1, 9), rng.randint(1, 5))
                p1 = F(rng.randint(-9, 9), rng.randint(1, 5))
                if p1 * p1 < 4 * p0 * p2:
                    break
            self.funs[n] = (p0, p1, p2, F(rng.randint(1, 9), rng.randint(1, 3)))
        self.pi = F(rng.randint(1, 40), rng.randint(1, 40))

    def apply(self, name, cname, u):
        u = _conv(u)
        if u is NotImplemented:
            raise TypeError('stand-in %s applied to a non-number' % name)
        if u.cx:
            if cname is None:
                raise TypeError('%s of a complex number' % name)
            p0, p1, p2, q0 = self.funs[cname]
            return (p0 + p1 * u + p2 * (u * u)) / (q0 + u * u)
        p0, p1, p2, q0 = self.funs[name]
        return X((p0 + p1 * u.re + p2 * u.re * u.re) / (q0 + u.re * u.re))

    def encode(self):
        g = lambda n: ','.join(q2s(c) for c in self.funs[n])  # noqa: E731
        return ';'.join([g(n) for n in REAL_FUNS] + [q2s(self.pi)] + [g(n) for n in CPLX_FUNS])


class _NumpyProxy:
    def __init__(self, real, **over):
        self._real = real
        self.__dict__.update(over)

    def __getattr__(self, name):
        return getattr(self._real, name)


@contextlib.contextmanager
def installed(S):
    """Installs the stand-ins into the module `problems` (restored afterwards)."""
    import problems

    def lift(name, cname):
        def fn(x):
            if isinstance(x, np.ndarray):
                out = np.empty(x.shape, dtype=object)
                for idx in np.ndindex(x.shape):
                    out[idx] = S.apply(name, cname, x[idx])
                return out
            return S.apply(name, cname, x)
        return fn
    saved = {a: getattr(problems, a) for a in ('np', 'erf', 'erfc') if hasattr(problems, a)}
    try:
        problems.np = _NumpyProxy(saved.get('np', np), pi=X(S.pi), exp=lift('exp', 'cexp'), sqrt=lift('sqrt', None),
                                  sin=lift('sin', None))
        problems.erf = lift('erf', 'cerf')
        problems.erfc = lift('erfc', 'cerfc')
        yield
    finally:
        for a, v in saved.items():
            setattr(problems, a, v)


# ---------------------------------------------------------------------------------------------------------
def rq(rng, lo, hi):
    den = rng.choice([1, 2, 3, 4, 5, 7, 8])
    return F(rng.randint(lo * den, hi * den), den)


def assertion_text(exc):
    """`assert:<source text of the test>` of the assert statement of problems.py that raised."""
    path = os.path.join(REPO, 'problems.py')
    for fr in reversed(traceback.extract_tb(exc.__traceback__)):
        if os.path.abspath(fr.filename) == os.path.abspath(path):
            src = open(path).read()
            for node in ast.walk(ast.parse(src)):
                if isinstance(node, ast.Assert) and node.lineno <= fr.lineno <= node.end_lineno:
                    return 'assert:' + ast.get_source_segment(src, node.test)
    return 'assert:?'


def exact_elements(rng, n):
    """Real `Element`s of a real `Mesh` with Fraction coordinates after random refinements."""
    from src.mesh import Mesh
    xs = sorted({F(0), F(3)} | {rq(rng, 0, 3) for _ in range(3)})
    ts = sorted({F(0), F(2)} | {rq(rng, 0, 2) for _ in range(2)})
    with contextlib.redirect_stdout(open(os.devnull, 'w')):
        mesh = Mesh(glue_space=False, initial_space_mesh=xs, initial_time_mesh=ts)
        for _ in range(rng.randint(1, 4)):
            e = rng.choice(list(mesh.leaf_elements))
            mesh.refine_axis(e, rng.randint(0, 1))
    leaves = list(mesh.leaf_elements)
    rng.shuffle(leaves)
    return leaves[:n]


class ElemView:
    """The attributes of a real `Element` (Fraction coordinates) as `X` numbers: `float * Fraction` would fall back to
    float arithmetic, `float * X` converts the float exactly."""
    def __init__(self, e):
        self._e = e

    def __getattr__(self, name):
        v = getattr(self._e, name)
        if isinstance(v, (int, F)) and not isinstance(v, bool):
            return X(v)
        if isinstance(v, tuple) and all(isinstance(c, (int, F)) for c in v):
            return tuple(X(c) for c in v)
        return v


def call_args(rng, key):
    """(python argument tuple, driver argument list | None) for one random exact input of a function stored under `key`."""
    def vec():
        a = [rq(rng, -2, 4), rq(rng, -2, 4)]
        v = np.empty(2, dtype=object)
        v[0], v[1] = X(a[0]), X(a[1])
        return v, a
    if key == 'u0':
        v, a = vec()
        return (v, ), a
    if key in ('M0u0', 'g'):
        t = rq(rng, 0, 3) + F(1, rng.randint(2, 9))
        v, a = vec()
        return (X(t), v), [t] + a
    if key == 'u-trace':
        t = rq(rng, 0, 3)
        # parameters all around the curve, the corners and the seam included (the stand-in of pi is a random rational)
        xh = rng.choice([rq(rng, 0, 13), F(rng.randint(0, 4)), rq(rng, -3, 0)])
        return (X(t), X(xh)), [t, xh]
    if key == 'g-linform':
        return None, None
    raise KeyError(key)


def validate(res, rng, tr, n_per_fun):
    """`tr` = the result of translate/problemdefs.py:collect.  Returns a list of disagreement records (empty = the translator
    agrees with the running code)."""
    import problems
    bad = []
    by_name = {f.lean: f for f in tr['funs']}
    # 1. the dispatch table: every admissible pair, and inadmissible names
    problems_, domains_ = [a[1] for a in tr['asserts'] if a[0] == 'problem'][0], [a[1] for a in tr['asserts'] if a[0] == 'domain'][0]
    pairs = [(p, d) for p in problems_ for d in domains_]
    pairs += [('Smooth', 'Square'), ('smooth', 'UnitSquare'), ('Heat', 'Circle'), ('Dirichlet', 'unitsquare'), ('X', 'Y'),
              ('Singular', 'Circle '.strip() + 's')]
    lines = ['pb helper %s %s' % pd for pd in pairs]
    out = run_driver(lines)
    tables = {}
    for (p, d), got in zip(pairs, out):
        try:
            with contextlib.redirect_stdout(open(os.devnull, 'w')):
                data = problems.problem_helper(p, d)
            want = 'ok'
        except AssertionError as exc:
            data, want = None, 'err ' + assertion_text(exc)
        res.count(('helper', p, d), data is not None and len(data) > 0)
        res.bump('problems_helper_pairs')
        if data is None:
            if got != want:
                bad.append(dict(what='problem_helper assertion', problem=p, domain=d, python=want, model=got))
            continue
        entries = [e.split('=') for e in got[3:].split(',')] if got.startswith('ok ') and len(got) > 3 else []
        if not got.startswith('ok') or [k for k, _ in entries] != list(data.keys()):
            bad.append(dict(what='problem_helper keys', problem=p, domain=d, python=list(data.keys()), model=got))
            continue
        tables[(p, d)] = (data, entries)
    # 2. every function handed out, on exact inputs
    lines, expect, meta = [], [], []
    for (p, d), (data, entries) in tables.items():
        for key, lean in entries:
            fn = data[key]
            f = by_name.get(lean)
            if f is None:
                bad.append(dict(what='unknown generated function', name=lean))
                continue
            for i in range(n_per_fun):
                S = StandIns(rng)
                if key == 'g-linform':
                    elems = exact_elements(rng, 3)
                    ok_attr = all(e.h_t == e.time_interval[1] - e.time_interval[0] and e.h_x == e.space_interval[1] - e.space_interval[0]
                                  for e in elems)
                    if not ok_attr:
                        bad.append(dict(what='Element.h_t / h_x are not the interval lengths'))
                    with installed(S):
                        vals = fn([ElemView(e) for e in elems])
                    if not (isinstance(vals, np.ndarray) and vals.shape == (len(elems), )):
                        bad.append(dict(what='g-linform does not return one value per element', problem=p))
                        continue
                    for e, v in zip(elems, vals):
                        args = [F(e.h_t), F(e.h_x), F(e.time_interval[0]), F(e.time_interval[1])]
                        lines.append('pb ev %s %s %s' % (lean, S.encode(), ','.join(q2s(a) for a in args)))
                        expect.append(q2s(v.re if isinstance(v, X) else v))
                        meta.append((p, d, key, lean, args))
                    continue
                pyargs, args = call_args(rng, key)
                with installed(S):
                    try:
                        val = fn(*pyargs)
                    except ZeroDivisionError:
                        continue  # a stand-in value hit zero in a denominator (Lean: x/0 = 0); no information
                if isinstance(val, np.ndarray):
                    val = val.item()
                if isinstance(val, X):
                    if val.cx:
                        bad.append(dict(what='complex return value', function=lean))
                        continue
                    val = val.re
                lines.append('pb ev %s %s %s' % (lean, S.encode(), ','.join(q2s(a) for a in args)))
                expect.append(q2s(val))
                meta.append((p, d, key, lean, args))
    out = run_driver(lines) if lines else []
    for line, want, got, (p, d, key, lean, args) in zip(lines, expect, out, meta):
        res.count(('problems', lean, tuple(args), line[:60]), True)
        res.bump('problems_' + lean)
        if want != got:
            bad.append(dict(what='value', problem=p, domain=d, key=key, function=lean, args=[q2s(a) for a in args],
                            python=want[:200], model=got[:200], line=line[:400]))
    return bad
