"""Shared pieces of the single-layer checks (C01, C04, C11, C12, C07): exact correspondence runs of the real
operator against the Lean model, and real float meshes with the independent numeric reference for the searches."""
import contextlib
import io
import math
from fractions import Fraction as F

import numpy as np

from .common import q2s, run_driver, seed_rng
from .qnum import Q, installed
from .sllib import (CURVES, TIME_LATTICE, Fixture, classify_space, classify_time, random_space_intervals, result_str)
from . import numref


def corr_bilform(res, tier, salt, curves=('unitsquare', 'lshape', 'interval', 'rect32'), per_fixture=None,
                 fixtures=None, extra_pairs=None):
    """Real bilform (quadrature path and closed-form path) vs model, exact rationals."""
    rng = seed_rng(res.seed, salt)
    per_fixture = per_fixture or (30 if tier == 'quick' else 150)
    fixtures = fixtures or (1 if tier == 'quick' else 4)
    for curve in curves:
        for pw in (False, True):
            for _ in range(fixtures):
                fx = Fixture(rng, curve, pw)
                lines = fx.context_lines()
                expect = ['ok'] * len(lines)
                meta = [None] * len(lines)
                ivs = random_space_intervals(rng, fx, 12)
                with installed(fx.standins):
                    for i in range(per_fixture):
                        xa, xb = rng.choice(ivs), rng.choice(ivs)
                        if rng.random() < 0.25:  # parent / child / quarter pairs as used by the estimators
                            m = (xa[0] + xa[1]) / 2
                            xb = rng.choice([(xa[0], m), (m, xa[1]), xa])
                        ta, tb = rng.choice(TIME_LATTICE), rng.choice(TIME_LATTICE)
                        test = fx.elem(ta[0], ta[1], xa[0], xa[1])
                        trial = fx.elem(tb[0], tb[1], xb[0], xb[1])
                        try:
                            r = result_str(fx.SL.bilform(trial, test))
                        except AssertionError:
                            r = 'err'
                        lines.append('sl bil %d %s %s' % (pw, trial.encode(), test.encode()))
                        expect.append(r)
                        meta.append((curve, pw, classify_space(fx, xa, xb), classify_time(ta, tb), r != '0'))
                out = run_driver(lines)
                for line, want, got, m in zip(lines, expect, out, meta):
                    if m is None:
                        continue
                    got = 'err' if got.startswith('err') else got
                    res.count(('bil', line), m[4])
                    res.bump('space_' + m[2])
                    res.bump('time_' + m[3])
                    if want != got:
                        res.broken_obligation('correspondence %s: bilform of model and src/single_layer.py differ' % res.pid,
                                              'curve %s pw_exact %s\nline: %s\npython: %s\nmodel:  %s\ncontext: %s' %
                                              (m[0], m[1], line, want[:300], got[:300], ' | '.join(fx.context_lines())[:1500]))
                        return
    res.sample(dict(curve='unitsquare', request='sl bil <pw_exact> <trial t0:t1:x0:x1:piece> <test ...>',
                    standins='random rational (p0+p1 u+p2 u^2)/(q0+u^2) for exp, Ei, erf, ...'))


# ---------------------------------------------------------------------------------------------------------
def make_curve(name):
    from src import parametrization as P
    return {'UnitSquare': P.UnitSquare, 'PiSquare': P.PiSquare, 'LShape': P.LShape, 'Circle': P.Circle,
            'UnitInterval': P.UnitInterval}[name]()


def random_real_mesh(rng, curve_name, n_ops, max_aspect=32.0, time_grid=None):
    """MeshParametrized on a shipped curve, random bisections keeping h_x^2/h_t <= max_aspect."""
    from src.mesh import MeshParametrized
    gamma = make_curve(curve_name)
    with contextlib.redirect_stdout(io.StringIO()):
        mesh = MeshParametrized(gamma, initial_time_mesh=time_grid or [0, 1])
        if curve_name == 'LShape':
            for e in list(mesh.leaf_elements):
                if e.h_x > 1:
                    mesh.refine_space(e)
        for _ in range(n_ops):
            e = rng.choice(list(mesh.leaf_elements))
            ax = 0 if rng.random() < 0.55 else 1
            mesh.refine_axis(e, ax)
    return gamma, mesh


def aspect(e):
    return float(e.h_x)**2 / float(e.h_t)


def ok_aspect(e, lim=32.0):
    return aspect(e) <= lim


class RealOps:
    """Both operator variants on one real mesh, with cached reference diagonal entries."""
    def __init__(self, gamma, mesh):
        from src.single_layer import SingleLayerOperator
        self.gamma, self.mesh = gamma, mesh
        with contextlib.redirect_stdout(io.StringIO()):
            self.SL = {False: SingleLayerOperator(mesh, pw_exact=False), True: SingleLayerOperator(mesh, pw_exact=True)}
        self.closed = bool(gamma.closed)
        self.length = float(gamma.gamma_length)
        self._diag = {}

    def ref(self, test, trial):
        return numref.entry_reference(test, trial, self.length, self.closed)

    def diag(self, e):
        k = (tuple(map(float, e.time_interval)), tuple(map(float, e.space_interval)))
        if k not in self._diag:
            self._diag[k] = self.ref(e, e)
        return self._diag[k]

    def scale(self, a, b):
        return math.sqrt(abs(self.diag(a) * self.diag(b)))


def dummy_children(e):
    """time halves, space halves and quarters of an element as used by the estimators."""
    from src.hierarchical_error_estimator import DummyElement
    from src.mesh import Vertex
    t0, t1 = e.time_interval
    x0, x1 = e.space_interval
    tm, xm = (t0 + t1) / 2, (x0 + x1) / 2

    def mk(ta, tb, xa, xb):
        vs = [Vertex(ta, xa, -1), Vertex(ta, xb, -1), Vertex(tb, xb, -1), Vertex(tb, xa, -1)]
        return DummyElement(vertices=vs, gamma_space=e.gamma_space)
    return dict(time=[mk(t0, tm, x0, x1), mk(tm, t1, x0, x1)], space=[mk(t0, t1, x0, xm), mk(t0, t1, xm, x1)],
                quarters=DummyElement.uniform_refinement([e])[0], none=[e])


def describe(e):
    return dict(t=[float(v) for v in e.time_interval], x=[float(v) for v in e.space_interval])
