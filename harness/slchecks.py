"""Shared pieces of the single-layer checks (C01, C04, C11, C12, C07): exact correspondence runs of the real
operator against the Lean model, and real float meshes with the independent numeric reference for the searches."""
import contextlib
import io
import math
from fractions import Fraction as F

import numpy as np

from .common import q2s, run_driver, seed_rng
from .qnum import Q, installed
from .sllib import (CURVES, TIME_LATTICE, Fixture, classify_space, classify_time, random_space_intervals, result_str)
from . import numref


def corr_bilform(res, tier, salt, curves=('unitsquare', 'lshape', 'interval', 'rect32'), per_fixture=None,
                 fixtures=None, extra_pairs=None):
    """Real bilform (quadrature path and closed-form path) vs model, exact rationals."""
    rng = seed_rng(res.seed, salt)
    per_fixture = per_fixture or (30 if tier == 'quick' else 150)
    fixtures = fixtures or (1 if tier == 'quick' else 4)
    for curve in curves:
        for pw in (False, True):
            for _ in range(fixtures):
                fx = Fixture(rng, curve, pw)
                lines = fx.context_lines()
                expect = ['ok'] * len(lines)
                meta = [None] * len(lines)
                ivs = random_space_intervals(rng, fx, 12)
                with installed(fx.standins):
                    for i in range(per_fixture):
                        xa, xb = rng.choice(ivs), rng.choice(ivs)
                        if rng.random() < 0.25:  # parent / child / quarter pairs as used by the estimators
                            m = (xa[0] + xa[1]) / 2
                            q = (xa[1] - xa[0]) / 4
                            xb = rng.choice([(xa[0], m), (m, xa[1]), xa, (xa[0] + q, m), (m, m + q), (xa[0] + q, m + q)])
                            if rng.random() < 0.5:
                                xa, xb = xb, xa
                        ta, tb = rng.choice(TIME_LATTICE), rng.choice(TIME_LATTICE)
                        test = fx.elem(ta[0], ta[1], xa[0], xa[1])
                        trial = fx.elem(tb[0], tb[1], xb[0], xb[1])
                        try:
                            r = result_str(fx.SL.bilform(trial, test))
                        except AssertionError:
                            r = 'err'
                        lines.append('sl bil %d %s %s' % (pw, trial.encode(), test.encode()))
                        expect.append(r)
                        meta.append((curve, pw, classify_space(fx, xa, xb), classify_time(ta, tb), r != '0'))
                with_generated(lines, expect, meta)   # the same requests to the definitions regenerated from the source
                out = run_driver(lines)
                for line, want, got, m in zip(lines, expect, out, meta):
                    if m is None:
                        continue
                    got = 'err' if got.startswith('err') else got
                    res.count(('bil', line), m[4])
                    res.bump('space_' + m[2])
                    res.bump('time_' + m[3])
                    if want != got:
                        res.broken_obligation('correspondence %s: bilform of model and src/single_layer.py differ' % res.pid,
                                              'curve %s pw_exact %s\nline: %s\npython: %s\nmodel:  %s\ncontext: %s' %
                                              (m[0], m[1], line, want[:300], got[:300], ' | '.join(fx.context_lines())[:1500]))
                        return
    res.sample(dict(curve='unitsquare', request='sl bil <pw_exact> <trial t0:t1:x0:x1:piece> <test ...>',
                    standins='random rational (p0+p1 u+p2 u^2)/(q0+u^2) for exp, Ei, erf, ...'))
    corr_panels(res, tier, salt + 'p', curves=curves)


def with_generated(lines, expect, *parallel):
    """For every request to the hand-written model that has a twin among the definitions REGENERATED from
    src/single_layer.py (Stbem.Gen.Panels: `sl genbil`, `sl geneval`, `sl genpanels`; Stbem.Gen.SLRest: `sl genevalx`,
    `sl genpot`), appends the twin request with
    the same expected answer (the answer of the real Python code).  Lists in `parallel` get a copy of the entry."""
    twin = {'bil': 'genbil', 'eval': 'geneval', 'panels': 'genpanels', 'evalx': 'genevalx', 'pot': 'genpot'}
    n = len(lines)
    for i in range(n):
        p = lines[i].split(' ', 2)
        if len(p) == 3 and p[0] == 'sl' and p[1] in twin:
            lines.append('sl %s %s' % (twin[p[1]], p[2]))
            expect.append(expect[i])
            for m in parallel:
                m.append(m[i])


class _RecScheme:
    """Stand-in for a 2-D quadrature scheme of the operator that records (which scheme, which mirror, which rectangle)
    instead of integrating; `+` of the results is list concatenation, i.e. the order of evaluation is kept."""
    KIND = {'duff_log_log': 'id', 'duff_log_log.mirror_x': 'dmx', 'duff_log_log.mirror_y': 'dmy',
            'log_log.mirror_x': 'lmx', 'log_log.mirror_y': 'lmy'}

    def __init__(self, tag):
        self.tag = tag

    def mirror_x(self):
        return _RecScheme(self.tag + '.mirror_x')

    def mirror_y(self):
        return _RecScheme(self.tag + '.mirror_y')

    def integrate(self, f, a, b, c, d):
        return [':'.join([self.KIND.get(self.tag, self.tag)] + [q2s(v) for v in (a, b, c, d)])]


def panel_rectangles(rng, fx, n):
    """Rectangles [a,b]x[c,d] for the panel recursion: every relative position of two dyadic intervals (both orders,
    so that the ordering assertion is exercised too), parent/child/quarter pairs, the seam, sizes that differ by less
    / more than 1e-10, end points closer than the isclose tolerance, intervals shorter than 1e-8."""
    ivs = random_space_intervals(rng, fx, 14)
    L = fx.length
    out = []
    for _ in range(n):
        xa, xb = rng.choice(ivs), rng.choice(ivs)
        r = rng.random()
        if r < 0.25:
            m, q = (xa[0] + xa[1]) / 2, (xa[1] - xa[0]) / 4
            xb = rng.choice([(xa[0], m), (m, xa[1]), xa, (xa[0] + q, m), (m, m + q), (xa[0] + q, m + q), (xa[0] + q, xa[1])])
        elif r < 0.40:   # touching in the middle / at the seam with sizes 1 : 2^k, k = -3..3
            h = (xa[1] - xa[0]) * F(2)**rng.randint(-3, 3)
            if rng.random() < 0.5 or not fx.closed:
                xb = (xa[1], xa[1] + h)
            else:
                k = rng.randint(0, 3)
                xa, xb = (F(0), L / 2**(k + 2)), (L - L / 2**(rng.randint(0, 3) + 2), L)
        elif r < 0.55:   # thresholds: tiny perturbations of a touching / seam / nested configuration
            eps = rng.choice([F(1, 10**11), F(1, 10**12), F(3, 10**10), F(1, 10**6), F(1, 10**9) / 3])
            h = xa[1] - xa[0]
            xb = rng.choice([(xa[1], xa[1] + h + eps), (xa[1], xa[1] + h - eps), (xa[1] + eps, xa[1] + h),
                             (xa[0] + eps, xa[1] + h), (xa[0], xa[0] + eps / 1000), (xa[1], xa[1] + F(1, 10**8) * rng.choice([F(1, 2), F(2)])),
                             (L - h - eps, L), (L - h + eps, L)])
            if rng.random() < 0.3 and fx.closed:
                xa = (F(0), h)
        elif r < 0.60 and fx.closed:   # meeting at the seam AND overlapping (`assert b < c` of the seam branch)
            k = rng.randint(1, 3)
            xa, xb = (F(0), L * F(rng.randint(2**k // 2, 2**k), 2**k)), (L * F(rng.randint(0, 2**k // 2), 2**k), L)
        if rng.random() < 0.85 and (xb[0], xb[1]) < (xa[0], xa[1]):
            xa, xb = xb, xa
        out.append((xa[0], xa[1], xb[0], xb[1]))
    return out


def corr_panels(res, tier, salt, curves=('unitsquare', 'lshape', 'interval', 'rect32'), per_fixture=None):
    """The decision structure of the REAL `SingleLayerOperator.__integrate` (called directly, with the 2-D schemes of
    the operator replaced by recorders) against the hand-written model (`sl panels`) AND the definition regenerated
    from the source (`sl genpanels`): same rules on the same rectangles in the same order, same failures."""
    rng = seed_rng(res.seed, salt)
    per_fixture = per_fixture or (150 if tier == 'quick' else 1200)
    for curve in curves:
        fx = Fixture(rng, curve, False)
        for name in ('duff_log_log', 'log_log', 'gauss_2d'):
            if hasattr(fx.SL, name):
                setattr(fx.SL, name, _RecScheme(name))
        integrate = getattr(fx.SL, '_SingleLayerOperator__integrate')
        lines = fx.context_lines()
        expect = ['ok'] * len(lines)
        for (a, b, c, d) in panel_rectangles(rng, fx, per_fixture):
            try:
                r = ' '.join(integrate(None, Q(a), Q(b), Q(c), Q(d)))
            except (AssertionError, RecursionError):
                r = 'err'
            lines.append('sl panels %s %s %s %s' % (q2s(a), q2s(b), q2s(c), q2s(d)))
            expect.append(r)
        n0 = len(lines)
        with_generated(lines, expect)
        out = run_driver(lines)
        for i, (line, want, got) in enumerate(zip(lines, expect, out)):
            if want == 'ok':
                continue
            got = 'err' if got.startswith('err') else got
            res.count(('panels', curve, line), want != 'err')
            if i < n0:
                res.bump('panels_' + ('err' if want == 'err' else '+'.join(sorted({p.split(':')[0] for p in want.split()}))))
            if want != got:
                which = 'the definition regenerated from the source (Gen/Panels.lean)' if i >= n0 else 'the hand-written model'
                res.broken_obligation('correspondence %s: panel decomposition of __integrate differs from %s' % (res.pid, which),
                                      'curve %s closed %s length %s\nline: %s\npython: %s\nlean:   %s' %
                                      (curve, fx.closed, fx.length, line, want[:400], got[:400]))
                return
    res.sample(dict(request='sl panels / sl genpanels a b c d', answer='kind:a:b:c:d ... in evaluation order | err',
                    python='real __integrate with recording stand-ins for duff_log_log / log_log'))


class ExactNP:
    """Stand-in for the module `np` of the code under test: `np.zeros` must hold exact numbers; everything else is NumPy."""
    def __getattr__(self, k):
        return getattr(np, k)

    def zeros(self, shape, *a, **k):
        out = np.empty(shape, dtype=object)
        out.fill(Q(0))
        return out


@contextlib.contextmanager
def patched_module(mod, **names):
    saved = {k: mod.__dict__.get(k, patched_module) for k in names}
    mod.__dict__.update(names)
    try:
        yield
    finally:
        for k, v in saved.items():
            if v is patched_module:
                mod.__dict__.pop(k, None)
            else:
                mod.__dict__[k] = v


def data_fn(c):
    """(t, x) -> c0 + c1 t + c2 x_0 + c3 x_0 x_1 on exact numbers (x of shape (2,1) or (2,n)); the driver's `parseDataFn?`"""
    if c is None:
        return None
    c = [Q(v) for v in c]
    return lambda t, x: c[0] + c[1] * t + c[2] * x[0] + c[3] * x[0] * x[1]


def enc_data_fn(c):
    return 'none' if c is None else ','.join(q2s(v) for v in c)


def corr_vectors(res, tier, salt):
    """`evaluate_vector`, `potential_vector`, `rhs_vector` of the REAL operator (its mesh stub filled with exact elements, the
    module's `np.zeros` replaced by an exact one) against the definitions regenerated from the source (Gen/SLRest.lean)."""
    import src.single_layer as SLmod
    rng = seed_rng(res.seed, salt)
    for curve in ('unitsquare', 'lshape', 'interval'):
        fx = Fixture(rng, curve, False, log_nodes=rng.randint(1, 3))
        ivs = random_space_intervals(rng, fx, 8)
        elems = [fx.elem(*rng.choice(TIME_LATTICE), *rng.choice(ivs)) for _ in range(3 if tier == 'quick' else 7)]
        fx.SL._init_elems(elems)
        fx.SL.mesh.leaf_elements = elems
        fx.SL.mesh.gamma_space.eval = lambda xh: fx.gamma(xh.v if hasattr(xh, 'v') else xh)[0]
        lines = fx.context_lines()
        expect = ['ok'] * len(lines)
        gauss_rule = fx.SL.gauss_scheme
        enc = ' '.join(e.encode() for e in elems)
        with installed(fx.standins), patched_module(SLmod, np=ExactNP(), gauss_quadrature_scheme=lambda *a, **k: gauss_rule):
            for _ in range(6 if tier == 'quick' else 30):
                t = rng.choice([F(0), F(1, 8), F(1, 2), F(5, 8), F(1), F(7, 4), F(3)])
                xh = rng.choice([F(rng.randint(0, 64), 64) * fx.length, rng.choice(ivs)[0], rng.choice(ivs)[1]])
                x, _ = fx.gamma(xh)
                try:
                    v = ','.join(result_str(u) for u in fx.SL.evaluate_vector(Q(t), Q(xh)))
                except AssertionError:
                    v = None      # in-element point closer than 1e-5 to an end: precondition of the interval rule
                if v is not None:
                    lines.append('sl genevalvec %s %s %s %s %s' % (q2s(t), q2s(xh), q2s(x[0, 0]), q2s(x[1, 0]), enc))
                    expect.append(v)
                xo = x + Q(F(rng.randint(1, 5), 7))
                if hasattr(fx.SL, 'potential_vector'):
                    v = ','.join(result_str(u) for u in fx.SL.potential_vector(Q(t), xo))
                    lines.append('sl genpotvec %s %s %s %s' % (q2s(t), q2s(xo[0, 0]), q2s(xo[1, 0]), enc))
                    expect.append(v)
            for _ in range(2 if tier == 'quick' else 8):
                c = [F(rng.randint(-3, 3), rng.randint(1, 3)) for _ in range(4)]
                v = ','.join(result_str(u) for u in fx.SL.rhs_vector(data_fn(c)))
                lines.append('sl genrhsvec %s %s' % (enc_data_fn(c), enc))
                expect.append(v)
        out = run_driver(lines)
        for line, want, got in zip(lines, expect, out):
            if want == 'ok':
                continue
            res.count(('slrest-vec', line), True)
            res.bump('generated_vector_requests')
            if want != got:
                res.broken_obligation('correspondence %s: a vector method of src/single_layer.py differs from the definition '
                                      'regenerated from the source (Gen/SLRest.lean)' % res.pid,
                                      'curve %s\nline: %s\npython: %s\nlean:   %s' % (curve, line[:400], want[:300], got[:300]))
                return


def corr_mpcol(res, tier, salt):
    """`MP_SL_matrix_col` (the worker of the pool path, run in-process on the module globals it reads) against the
    generated `mpCol` and against the hand model's single calls: the skip rule changes no entry."""
    import src.single_layer as SLmod
    rng = seed_rng(res.seed, salt)

    class NPShim:   # `np.zeros` must hold exact numbers; everything else is NumPy
        def __getattr__(self, k):
            return getattr(np, k)

        def zeros(self, shape, *a, **k):
            out = np.empty(shape, dtype=object)
            out.fill(Q(0))
            return out

    for curve, pw in (('unitsquare', False), ('interval', True), ('lshape', False)):
        fx = Fixture(rng, curve, pw)
        ivs = random_space_intervals(rng, fx, 8)
        n_t, n_r = (5, 3) if tier == 'quick' else (9, 8)
        tests = [fx.elem(*rng.choice(TIME_LATTICE), *rng.choice(ivs)) for _ in range(n_t)]
        trials = [fx.elem(*rng.choice(TIME_LATTICE), *rng.choice(ivs)) for _ in range(n_r)]
        lines = fx.context_lines()
        expect = ['ok'] * len(lines)
        saved = {k: SLmod.__dict__.get(k) for k in ('__SL', '__elems_test', '__elems_trial', 'np')}
        SLmod.__dict__.update({'__SL': fx.SL, '__elems_test': tests, '__elems_trial': trials, 'np': NPShim()})
        try:
            with installed(fx.standins):
                for j, tr in enumerate(trials):
                    try:
                        col = [result_str(v) for v in SLmod.MP_SL_matrix_col(j)]
                    except AssertionError:
                        col = None
                    lines.append('sl genmpcol %d %s %s' % (pw, tr.encode(), ' '.join(te.encode() for te in tests)))
                    expect.append('err' if col is None else ','.join(col))
                    if col is not None:
                        for te, v in zip(tests, col):
                            lines.append('sl bil %d %s %s' % (pw, tr.encode(), te.encode()))
                            expect.append(v)
        finally:
            for k, v in saved.items():
                if v is None:
                    SLmod.__dict__.pop(k, None)
                else:
                    SLmod.__dict__[k] = v
        out = run_driver(lines)
        for line, want, got in zip(lines, expect, out):
            if want == 'ok':
                continue
            got = 'err' if got.startswith('err') else got
            res.count(('mpcol', line), want not in ('0', 'err'))
            if want != got:
                res.broken_obligation('correspondence %s: MP_SL_matrix_col differs from the generated mpCol / the single calls of the model' % res.pid,
                                      'line: %s\npython: %s\nlean:   %s' % (line[:300], want[:300], got[:300]))
                return


# ---------------------------------------------------------------------------------------------------------
# user polygons (PiecewisePolygon accepts any vertex list): curves on which two points far apart in arc length are
# close in the plane -- facing long sides of a thin rectangle, the two walls of a narrow notch
USER_POLYGONS = {
    'ThinRect': [(0., 0.), (1., 0.), (1., 0.125), (0., 0.125), (0., 0.)],
    'Notch': [(0., 0.), (1., 0.), (1., 1.), (0.625, 1.), (0.625, 0.25), (0.5, 0.25), (0.5, 1.), (0., 1.), (0., 0.)],
}


def make_curve(name):
    from src import parametrization as P
    if name in USER_POLYGONS:
        g = P.PiecewisePolygon([np.array(v) for v in USER_POLYGONS[name]])
        g.verif_name = name
        return g
    return {'UnitSquare': P.UnitSquare, 'PiSquare': P.PiSquare, 'LShape': P.LShape, 'Circle': P.Circle,
            'UnitInterval': P.UnitInterval}[name]()


def random_real_mesh(rng, curve_name, n_ops, max_aspect=32.0, time_grid=None):
    """MeshParametrized on a shipped curve, random bisections keeping h_x^2/h_t <= max_aspect."""
    from src.mesh import MeshParametrized
    gamma = make_curve(curve_name)
    with contextlib.redirect_stdout(io.StringIO()):
        if time_grid is None and rng.random() < 0.3:
            # user-supplied initial time grids with slabs of different lengths (equal refinement levels, different sizes)
            time_grid = rng.choice([[0, 1, 3], [0, 0.25, 1, 1.5], [0, 0.5, 1]])
        mesh = MeshParametrized(gamma, initial_time_mesh=time_grid or [0, 1])
        if curve_name == 'LShape':
            for e in list(mesh.leaf_elements):
                if e.h_x > 1:
                    mesh.refine_space(e)
        if curve_name in USER_POLYGONS:   # resolve the narrow gap: h_x <= gap width on the long sides
            for _ in range(3):
                for e in list(mesh.leaf_elements):
                    if e.h_x > 0.13:
                        mesh.refine_space(e)
        for _ in range(n_ops):
            e = rng.choice(list(mesh.leaf_elements))
            ax = 0 if rng.random() < 0.55 else 1
            mesh.refine_axis(e, ax)
    return gamma, mesh


def aspect(e):
    return float(e.h_x)**2 / float(e.h_t)


def ok_aspect(e, lim=32.0):
    return aspect(e) <= lim


class RealOps:
    """Both operator variants on one real mesh, with cached reference diagonal entries."""
    def __init__(self, gamma, mesh):
        from src.single_layer import SingleLayerOperator
        self.gamma, self.mesh = gamma, mesh
        with contextlib.redirect_stdout(io.StringIO()):
            self.SL = {False: SingleLayerOperator(mesh, pw_exact=False), True: SingleLayerOperator(mesh, pw_exact=True)}
        self.closed = bool(gamma.closed)
        self.length = float(gamma.gamma_length)
        self._diag = {}

    def ref(self, test, trial):
        return numref.entry_reference(test, trial, self.length, self.closed)

    def diag(self, e):
        k = (tuple(map(float, e.time_interval)), tuple(map(float, e.space_interval)))
        if k not in self._diag:
            self._diag[k] = self.ref(e, e)
        return self._diag[k]

    def scale(self, a, b):
        return math.sqrt(abs(self.diag(a) * self.diag(b)))


def dummy_children(e):
    """time halves, space halves and quarters of an element as used by the estimators."""
    from src.hierarchical_error_estimator import DummyElement
    from src.mesh import Vertex
    t0, t1 = e.time_interval
    x0, x1 = e.space_interval
    tm, xm = (t0 + t1) / 2, (x0 + x1) / 2

    def mk(ta, tb, xa, xb):
        vs = [Vertex(ta, xa, -1), Vertex(ta, xb, -1), Vertex(tb, xb, -1), Vertex(tb, xa, -1)]
        return DummyElement(vertices=vs, gamma_space=e.gamma_space)
    return dict(time=[mk(t0, tm, x0, x1), mk(tm, t1, x0, x1)], space=[mk(t0, t1, x0, xm), mk(t0, t1, xm, x1)],
                quarters=DummyElement.uniform_refinement([e])[0], none=[e])


def describe(e):
    return dict(t=[float(v) for v in e.time_interval], x=[float(v) for v in e.space_interval])


def StubElem(t, x, gamma):
    """Element for pairs that need not be leaves of one mesh: the repository's OWN virtual-element class
    (`DummyElement`, which the estimators hand to `bilform`), so that it carries whatever attributes the code under
    test expects of an element (vertices, intervals, h_t, h_x, gamma_space, repr)."""
    from src.hierarchical_error_estimator import DummyElement
    from src.mesh import Vertex
    e = DummyElement(vertices=[Vertex(t[0], x[0], -1), Vertex(t[0], x[1], -1), Vertex(t[1], x[1], -1), Vertex(t[1], x[0], -1)],
                     gamma_space=gamma)
    # keep the intervals exactly as given (DummyElement derives them from the vertices: the same numbers)
    assert tuple(e.time_interval) == tuple(t) and tuple(e.space_interval) == tuple(x)
    return e


def dyadic_point(gamma, k, num, j):
    """start_k + (start_{k+1} - start_k) * num / 2^j computed by descending bisection from the piece ends, i.e. with
    the very floating-point operations the mesh performs (so that shared end points are bit-identical)."""
    lo, hi = gamma.pw_start[k], gamma.pw_start[k + 1]
    if num == 0:
        return float(lo)
    if num == 2**j:
        return float(hi)
    while num % 2 == 0:
        num //= 2
        j -= 1
    for bit in range(j - 1, -1, -1):
        mid = (lo + hi) / 2
        if (num >> bit) & 1:
            if bit == 0:
                return float(mid)
            lo = mid
        else:
            hi = mid
    return float((lo + hi) / 2)


def addr_interval(gamma, addr):
    k, j, m = addr
    return (dyadic_point(gamma, k, m, j), dyadic_point(gamma, k, m + 1, j))


def move_addr(gamma, addr, how):
    """Image of a dyadic sub-interval of a piece under a symmetry of the curve (quarter turn / reflection)."""
    k, j, m = addr
    K = len(gamma.pw_gamma)
    if how == 'reflect':
        return (K - 1 - k, j, 2**j - 1 - m)
    if K == 1:                      # circle: quarter turn = shift by a quarter of the single piece
        if j < 2:
            return None
        return (0, j, (m + 2**(j - 2)) % 2**j)
    return ((k + 1) % K, j, m)


def seam_and_corner_pairs(rng, gamma, n, with_addr=False):
    """Pairs of (possibly non-leaf) elements in the configurations the panel recursion treats specially: touching
    through the closing seam with size ratios up to 1:16 in both orders, touching at a break point (corner),
    nested, with equal / overlapping / touching / separated time intervals.  Elements are dyadic sub-intervals of
    pieces; only pairs that can occur as (leaf, leaf) or (leaf, child/quarter) of ONE reachable mesh are kept."""
    out = []
    K = len(gamma.pw_gamma)
    closed = bool(gamma.closed)
    times = [(0.0, 1.0), (0.0, 0.5), (0.5, 1.0), (0.25, 0.5), (0.5, 0.75), (0.0, 0.25), (0.75, 1.0),
             (0.25, 0.75), (0.5, 1.5), (0.125, 0.625)]   # the last three: staggered against the others (elements of two time grids)
    base = 2 if (closed and K == 1) else 0   # one-piece closed curve: at least 4 elements around it
    kinds = ['seam', 'corner', 'seam', 'nested', 'interior', 'gap'] if closed else ['corner', 'nested', 'interior', 'gap']
    off = rng.randrange(len(kinds))
    for it in range(n):
        i, j = base + rng.randint(0, 4), base + rng.randint(0, 4)
        kind = kinds[(it + off) % len(kinds)]   # stratified: every class of configuration gets its share of n
        tpair = None
        if kind == 'seam':
            A, B = (0, i, 0), (K - 1, j, 2**j - 1)
        elif kind == 'corner' and K > 1:
            k = rng.randrange(1, K)
            A, B = (k - 1, i, 2**i - 1), (k, j, 0)
        elif kind == 'corner' and closed:
            k4 = rng.randrange(1, 4)   # circle: an interior multiple of a quarter
            A, B = (0, i, k4 * 2**(i - 2) - 1), (0, j, k4 * 2**(j - 2))
        elif kind == 'gap' and (K > 1 or closed):
            # disjoint, NOT touching, but close (a gap of 1-3 small elements) across a break point or the seam, sizes
            # differing by a factor 8..128, in two touching thin time slabs (leaves of different slabs of a mesh graded
            # towards a corner at small times): the choice of the graded rule for disjoint panels matters here
            k = rng.randrange(0 if closed else 1, K)
            ia = base + rng.randint(0, 2)
            jb = ia + rng.randint(3, 7)
            gap = rng.randint(1, 3)
            if rng.random() < 0.5:
                A, B = ((k - 1) % K, ia, 2**ia - 1), (k, jb, gap)
            else:
                A, B = (k, ia, 0), ((k - 1) % K, jb, 2**jb - 1 - gap)
            hA = addr_interval(gamma, A)
            hA = hA[1] - hA[0]
            l = 0
            while hA * hA * 2.0**l > 32.0:      # thinnest slab the aspect bound admits for the larger element
                l -= 1
            while hA * hA * 2.0**(l + 1) <= 32.0:
                l += 1
            ht = 2.0**-(l - rng.randint(0, 2))
            r = 2.0**-rng.randint(1, 3)
            tpair = ((ht, 2 * ht), (ht - ht * r, ht)) if rng.random() < 0.7 else ((ht - ht * r, ht), (ht, 2 * ht))
        elif kind == 'interior':
            # strictly nested, no common end point (a < c < d < b): leaves of different time slabs whose space levels
            # differ by >= 2, or a leaf against a space child of a one-level-finer leaf of another slab
            k = rng.randrange(0, K)
            ia = base + rng.randint(0, 2)
            ma = rng.randrange(2**ia)
            dj = rng.randint(2, 4)
            A, B = (k, ia, ma), (k, ia + dj, ma * 2**dj + rng.randrange(1, 2**dj - 1))
        else:
            kind = 'nested'
            k = rng.randrange(0, K)
            ia = base + min(i - base, 2)
            ma = rng.randrange(2**ia)
            jb = ia + (j - base)
            A, B = (k, ia, ma), (k, jb, ma * 2**(jb - ia) + rng.randrange(2**(jb - ia)))
        a, b = addr_interval(gamma, A), addr_interval(gamma, B)
        ta, tb = tpair if tpair is not None else (rng.choice(times), rng.choice(times))
        t_overlap = max(ta[0], tb[0]) < min(ta[1], tb[1])
        x_overlap = max(a[0], b[0]) < min(a[1], b[1])
        ratio = max((a[1] - a[0]) / (b[1] - b[0]), (b[1] - b[0]) / (a[1] - a[0]))
        if (t_overlap and x_overlap) or (t_overlap and ratio > 4.0001):
            continue
        e1, e2 = StubElem(ta, a, gamma.pw_gamma[A[0]]), StubElem(tb, b, gamma.pw_gamma[B[0]])
        e1.addr, e2.addr = A, B
        if rng.random() < 0.5:
            e1, e2 = e2, e1
        out.append((e1, e2, kind))
    return out


def regrid_iterations(curve_name, n_iter=2, sigma=2, with_m0=None):
    """The `--refinement uniform --grading` flow of example.py: the operators are created ONCE on the first mesh; in every
    iteration the mesh is re-created by hand as a graded tensor mesh (a NEW MeshParametrized object with user space and time
    grids, element numbering starts again at 0) and its elements are handed to the long-lived operators.
    Yields (k, mesh_k, elems_k, old, fresh): `old` = dict(SL=..., SLx=..., M0=...) created on the first mesh, `fresh` the same
    operators created on mesh_k."""
    import src.parametrization as P
    from src.mesh import MeshParametrized
    from src.single_layer import SingleLayerOperator
    from src.initial_potential import InitialOperator
    import src.initial_mesh as IM
    gamma = getattr(P, curve_name)()

    def make_ops(mesh):
        with contextlib.redirect_stdout(io.StringIO()):
            d = dict(SL=SingleLayerOperator(mesh), SLx=SingleLayerOperator(mesh, pw_exact=True))
            if with_m0 is not None:
                init = {'UnitSquare': IM.UnitSquareBoundaryRefined, 'PiSquare': IM.PiSquareBoundaryRefined,
                        'LShape': IM.LShapeBoundaryRefined}[curve_name]
                d['M0'] = InitialOperator(bdr_mesh=mesh, u0=with_m0, initial_mesh=init)
        return d
    with contextlib.redirect_stdout(io.StringIO()):
        mesh = MeshParametrized(gamma)
    old = make_ops(mesh)
    Lg = float(gamma.gamma_length)
    glen = int(round(Lg)) if abs(Lg - round(Lg)) < 1e-12 else 4      # curves of non-integer length: 4 panels per unit of refinement
    for k in range(n_iter):
        with contextlib.redirect_stdout(io.StringIO()):
            if k > 0:
                h_x, h_t = 1 / 2**k, 1 / 2**(sigma * k)
                N_x, N_t = glen * round(1 / h_x), round(1 / h_t)
                xs = [Lg * j / N_x for j in range(N_x)] + [gamma.pw_start[-1]] if glen != round(Lg) or abs(Lg - round(Lg)) >= 1e-12 else \
                    [glen * j / N_x for j in range(N_x + 1)]
                mesh = MeshParametrized(gamma, initial_space_mesh=xs,
                                        initial_time_mesh=[j / N_t for j in range(N_t + 1)])
        elems = list(mesh.leaf_elements)
        yield k, mesh, elems, old, (old if k == 0 else make_ops(mesh))


def cache_order_probe(make, call, elems, rng, tmp_root='/tmp'):
    """One cache directory, the same SET of elements requested in different ORDERS (leaf order, latest slab first, shuffled),
    each request twice (cold / warm), by operators created by `make(cache_dir)`; `call(op, lst)` returns the array.
    Returns a list of (order name, phase, result, list) for the caller to compare with its own per-element evaluation."""
    import shutil
    import tempfile
    d = tempfile.mkdtemp(prefix='cache_order_', dir=tmp_root)
    out = []
    try:
        orders = [('leaf-order', list(elems)),
                  ('latest-slab-first', sorted(elems, key=lambda e: (-float(e.time_interval[0]), float(e.space_interval[0])))),
                  ('reversed', list(reversed(elems)))]
        sh = list(elems)
        rng.shuffle(sh)
        orders.append(('shuffled', sh))
        op = make(d)
        for name, lst in orders:
            for phase in ('cold', 'warm'):
                with contextlib.redirect_stdout(io.StringIO()):
                    out.append((name, phase, np.array(call(op, lst), dtype=float), lst))
        # a second operator object against the same directory (a later run)
        op2 = make(d)
        with contextlib.redirect_stdout(io.StringIO()):
            out.append(('latest-slab-first', 'later-run', np.array(call(op2, orders[1][1]), dtype=float), orders[1][1]))
    finally:
        shutil.rmtree(d, ignore_errors=True)
    return out
