"""Shared pieces of the single-layer checks (C01, C04, C11, C12, C07): exact correspondence runs of the real
operator against the Lean model, and real float meshes with the independent numeric reference for the searches."""
import contextlib
import io
import math
from fractions import Fraction as F

import numpy as np

from .common import q2s, run_driver, seed_rng
from .qnum import Q, installed
from .sllib import (CURVES, TIME_LATTICE, Fixture, classify_space, classify_time, random_space_intervals, result_str)
from . import numref


def corr_bilform(res, tier, salt, curves=('unitsquare', 'lshape', 'interval', 'rect32'), per_fixture=None,
                 fixtures=None, extra_pairs=None):
    """Real bilform (quadrature path and closed-form path) vs model, exact rationals."""
    rng = seed_rng(res.seed, salt)
    per_fixture = per_fixture or (30 if tier == 'quick' else 150)
    fixtures = fixtures or (1 if tier == 'quick' else 4)
    for curve in curves:
        for pw in (False, True):
            for _ in range(fixtures):
                fx = Fixture(rng, curve, pw)
                lines = fx.context_lines()
                expect = ['ok'] * len(lines)
                meta = [None] * len(lines)
                ivs = random_space_intervals(rng, fx, 12)
                with installed(fx.standins):
                    for i in range(per_fixture):
                        xa, xb = rng.choice(ivs), rng.choice(ivs)
                        if rng.random() < 0.25:  # parent / child / quarter pairs as used by the estimators
                            m = (xa[0] + xa[1]) / 2
                            q = (xa[1] - xa[0]) / 4
                            xb = rng.choice([(xa[0], m), (m, xa[1]), xa, (xa[0] + q, m), (m, m + q), (xa[0] + q, m + q)])
                            if rng.random() < 0.5:
                                xa, xb = xb, xa
                        ta, tb = rng.choice(TIME_LATTICE), rng.choice(TIME_LATTICE)
                        test = fx.elem(ta[0], ta[1], xa[0], xa[1])
                        trial = fx.elem(tb[0], tb[1], xb[0], xb[1])
                        try:
                            r = result_str(fx.SL.bilform(trial, test))
                        except AssertionError:
                            r = 'err'
                        lines.append('sl bil %d %s %s' % (pw, trial.encode(), test.encode()))
                        expect.append(r)
                        meta.append((curve, pw, classify_space(fx, xa, xb), classify_time(ta, tb), r != '0'))
                out = run_driver(lines)
                for line, want, got, m in zip(lines, expect, out, meta):
                    if m is None:
                        continue
                    got = 'err' if got.startswith('err') else got
                    res.count(('bil', line), m[4])
                    res.bump('space_' + m[2])
                    res.bump('time_' + m[3])
                    if want != got:
                        res.broken_obligation('correspondence %s: bilform of model and src/single_layer.py differ' % res.pid,
                                              'curve %s pw_exact %s\nline: %s\npython: %s\nmodel:  %s\ncontext: %s' %
                                              (m[0], m[1], line, want[:300], got[:300], ' | '.join(fx.context_lines())[:1500]))
                        return
    res.sample(dict(curve='unitsquare', request='sl bil <pw_exact> <trial t0:t1:x0:x1:piece> <test ...>',
                    standins='random rational (p0+p1 u+p2 u^2)/(q0+u^2) for exp, Ei, erf, ...'))


# ---------------------------------------------------------------------------------------------------------
# user polygons (PiecewisePolygon accepts any vertex list): curves on which two points far apart in arc length are
# close in the plane -- facing long sides of a thin rectangle, the two walls of a narrow notch
USER_POLYGONS = {
    'ThinRect': [(0., 0.), (1., 0.), (1., 0.125), (0., 0.125), (0., 0.)],
    'Notch': [(0., 0.), (1., 0.), (1., 1.), (0.625, 1.), (0.625, 0.25), (0.5, 0.25), (0.5, 1.), (0., 1.), (0., 0.)],
}


def make_curve(name):
    from src import parametrization as P
    if name in USER_POLYGONS:
        g = P.PiecewisePolygon([np.array(v) for v in USER_POLYGONS[name]])
        g.verif_name = name
        return g
    return {'UnitSquare': P.UnitSquare, 'PiSquare': P.PiSquare, 'LShape': P.LShape, 'Circle': P.Circle,
            'UnitInterval': P.UnitInterval}[name]()


def random_real_mesh(rng, curve_name, n_ops, max_aspect=32.0, time_grid=None):
    """MeshParametrized on a shipped curve, random bisections keeping h_x^2/h_t <= max_aspect."""
    from src.mesh import MeshParametrized
    gamma = make_curve(curve_name)
    with contextlib.redirect_stdout(io.StringIO()):
        mesh = MeshParametrized(gamma, initial_time_mesh=time_grid or [0, 1])
        if curve_name == 'LShape':
            for e in list(mesh.leaf_elements):
                if e.h_x > 1:
                    mesh.refine_space(e)
        if curve_name in USER_POLYGONS:   # resolve the narrow gap: h_x <= gap width on the long sides
            for _ in range(3):
                for e in list(mesh.leaf_elements):
                    if e.h_x > 0.13:
                        mesh.refine_space(e)
        for _ in range(n_ops):
            e = rng.choice(list(mesh.leaf_elements))
            ax = 0 if rng.random() < 0.55 else 1
            mesh.refine_axis(e, ax)
    return gamma, mesh


def aspect(e):
    return float(e.h_x)**2 / float(e.h_t)


def ok_aspect(e, lim=32.0):
    return aspect(e) <= lim


class RealOps:
    """Both operator variants on one real mesh, with cached reference diagonal entries."""
    def __init__(self, gamma, mesh):
        from src.single_layer import SingleLayerOperator
        self.gamma, self.mesh = gamma, mesh
        with contextlib.redirect_stdout(io.StringIO()):
            self.SL = {False: SingleLayerOperator(mesh, pw_exact=False), True: SingleLayerOperator(mesh, pw_exact=True)}
        self.closed = bool(gamma.closed)
        self.length = float(gamma.gamma_length)
        self._diag = {}

    def ref(self, test, trial):
        return numref.entry_reference(test, trial, self.length, self.closed)

    def diag(self, e):
        k = (tuple(map(float, e.time_interval)), tuple(map(float, e.space_interval)))
        if k not in self._diag:
            self._diag[k] = self.ref(e, e)
        return self._diag[k]

    def scale(self, a, b):
        return math.sqrt(abs(self.diag(a) * self.diag(b)))


def dummy_children(e):
    """time halves, space halves and quarters of an element as used by the estimators."""
    from src.hierarchical_error_estimator import DummyElement
    from src.mesh import Vertex
    t0, t1 = e.time_interval
    x0, x1 = e.space_interval
    tm, xm = (t0 + t1) / 2, (x0 + x1) / 2

    def mk(ta, tb, xa, xb):
        vs = [Vertex(ta, xa, -1), Vertex(ta, xb, -1), Vertex(tb, xb, -1), Vertex(tb, xa, -1)]
        return DummyElement(vertices=vs, gamma_space=e.gamma_space)
    return dict(time=[mk(t0, tm, x0, x1), mk(tm, t1, x0, x1)], space=[mk(t0, t1, x0, xm), mk(t0, t1, xm, x1)],
                quarters=DummyElement.uniform_refinement([e])[0], none=[e])


def describe(e):
    return dict(t=[float(v) for v in e.time_interval], x=[float(v) for v in e.space_interval])


class StubElem:
    """Element stub (time interval, space interval, piece) for pairs that need not be leaves of one mesh."""
    def __init__(self, t, x, gamma):
        from src.mesh import Vertex
        self.time_interval, self.space_interval, self.gamma_space = t, x, gamma
        self.h_t, self.h_x = t[1] - t[0], x[1] - x[0]
        self.vertices = [Vertex(t[0], x[0], -1), Vertex(t[0], x[1], -1), Vertex(t[1], x[1], -1), Vertex(t[1], x[0], -1)]

    def __repr__(self):
        return 'Elem(t=%s, x=%s)' % (self.time_interval, self.space_interval)


def dyadic_point(gamma, k, num, j):
    """start_k + (start_{k+1} - start_k) * num / 2^j computed by descending bisection from the piece ends, i.e. with
    the very floating-point operations the mesh performs (so that shared end points are bit-identical)."""
    lo, hi = gamma.pw_start[k], gamma.pw_start[k + 1]
    if num == 0:
        return float(lo)
    if num == 2**j:
        return float(hi)
    while num % 2 == 0:
        num //= 2
        j -= 1
    for bit in range(j - 1, -1, -1):
        mid = (lo + hi) / 2
        if (num >> bit) & 1:
            if bit == 0:
                return float(mid)
            lo = mid
        else:
            hi = mid
    return float((lo + hi) / 2)


def addr_interval(gamma, addr):
    k, j, m = addr
    return (dyadic_point(gamma, k, m, j), dyadic_point(gamma, k, m + 1, j))


def move_addr(gamma, addr, how):
    """Image of a dyadic sub-interval of a piece under a symmetry of the curve (quarter turn / reflection)."""
    k, j, m = addr
    K = len(gamma.pw_gamma)
    if how == 'reflect':
        return (K - 1 - k, j, 2**j - 1 - m)
    if K == 1:                      # circle: quarter turn = shift by a quarter of the single piece
        if j < 2:
            return None
        return (0, j, (m + 2**(j - 2)) % 2**j)
    return ((k + 1) % K, j, m)


def seam_and_corner_pairs(rng, gamma, n, with_addr=False):
    """Pairs of (possibly non-leaf) elements in the configurations the panel recursion treats specially: touching
    through the closing seam with size ratios up to 1:16 in both orders, touching at a break point (corner),
    nested, with equal / overlapping / touching / separated time intervals.  Elements are dyadic sub-intervals of
    pieces; only pairs that can occur as (leaf, leaf) or (leaf, child/quarter) of ONE reachable mesh are kept."""
    out = []
    K = len(gamma.pw_gamma)
    closed = bool(gamma.closed)
    times = [(0.0, 1.0), (0.0, 0.5), (0.5, 1.0), (0.25, 0.5), (0.5, 0.75), (0.0, 0.25), (0.75, 1.0)]
    base = 2 if (closed and K == 1) else 0   # one-piece closed curve: at least 4 elements around it
    kinds = ['seam', 'corner', 'seam', 'nested', 'interior', 'gap'] if closed else ['corner', 'nested', 'interior', 'gap']
    off = rng.randrange(len(kinds))
    for it in range(n):
        i, j = base + rng.randint(0, 4), base + rng.randint(0, 4)
        kind = kinds[(it + off) % len(kinds)]   # stratified: every class of configuration gets its share of n
        tpair = None
        if kind == 'seam':
            A, B = (0, i, 0), (K - 1, j, 2**j - 1)
        elif kind == 'corner' and K > 1:
            k = rng.randrange(1, K)
            A, B = (k - 1, i, 2**i - 1), (k, j, 0)
        elif kind == 'corner':
            k4 = rng.randrange(1, 4)   # circle: an interior multiple of a quarter
            A, B = (0, i, k4 * 2**(i - 2) - 1), (0, j, k4 * 2**(j - 2))
        elif kind == 'gap' and (K > 1 or closed):
            # disjoint, NOT touching, but close (a gap of 1-3 small elements) across a break point or the seam, sizes
            # differing by a factor 8..128, in two touching thin time slabs (leaves of different slabs of a mesh graded
            # towards a corner at small times): the choice of the graded rule for disjoint panels matters here
            k = rng.randrange(0 if closed else 1, K)
            ia = base + rng.randint(0, 2)
            jb = ia + rng.randint(3, 7)
            gap = rng.randint(1, 3)
            if rng.random() < 0.5:
                A, B = ((k - 1) % K, ia, 2**ia - 1), (k, jb, gap)
            else:
                A, B = (k, ia, 0), ((k - 1) % K, jb, 2**jb - 1 - gap)
            hA = addr_interval(gamma, A)
            hA = hA[1] - hA[0]
            l = 0
            while hA * hA * 2.0**l > 32.0:      # thinnest slab the aspect bound admits for the larger element
                l -= 1
            while hA * hA * 2.0**(l + 1) <= 32.0:
                l += 1
            ht = 2.0**-(l - rng.randint(0, 2))
            r = 2.0**-rng.randint(1, 3)
            tpair = ((ht, 2 * ht), (ht - ht * r, ht)) if rng.random() < 0.7 else ((ht - ht * r, ht), (ht, 2 * ht))
        elif kind == 'interior':
            # strictly nested, no common end point (a < c < d < b): leaves of different time slabs whose space levels
            # differ by >= 2, or a leaf against a space child of a one-level-finer leaf of another slab
            k = rng.randrange(0, K)
            ia = base + rng.randint(0, 2)
            ma = rng.randrange(2**ia)
            dj = rng.randint(2, 4)
            A, B = (k, ia, ma), (k, ia + dj, ma * 2**dj + rng.randrange(1, 2**dj - 1))
        else:
            kind = 'nested'
            k = rng.randrange(0, K)
            ia = base + min(i - base, 2)
            ma = rng.randrange(2**ia)
            jb = ia + (j - base)
            A, B = (k, ia, ma), (k, jb, ma * 2**(jb - ia) + rng.randrange(2**(jb - ia)))
        a, b = addr_interval(gamma, A), addr_interval(gamma, B)
        ta, tb = tpair if tpair is not None else (rng.choice(times), rng.choice(times))
        t_overlap = max(ta[0], tb[0]) < min(ta[1], tb[1])
        x_overlap = max(a[0], b[0]) < min(a[1], b[1])
        ratio = max((a[1] - a[0]) / (b[1] - b[0]), (b[1] - b[0]) / (a[1] - a[0]))
        if (t_overlap and x_overlap) or (t_overlap and ratio > 4.0001):
            continue
        e1, e2 = StubElem(ta, a, gamma.pw_gamma[A[0]]), StubElem(tb, b, gamma.pw_gamma[B[0]])
        e1.addr, e2.addr = A, B
        if rng.random() < 0.5:
            e1, e2 = e2, e1
        out.append((e1, e2, kind))
    return out
