#!/venv/bin/python
"""Translator: src/quadrature_rules.py (+ the degree->key maps of src/quadrature.py) -> lean/Stbem/Gen/Rules.lean.

Every literal is emitted twice: exactly as written in the source text (taken from the source segment, not from
the parsed float) and as the binary64 number Python makes of it (integer significand and exponent); Lean re-proves
that the latter is a correct rounding of the former, so Python's float parser is not trusted.
"""
import ast
import os
import re
import sys

FAMILIES = ['log_quadrature_rule', 'log_log_quadrature_rule', 'sqrt_quadrature_rule', 'sqrtinv_quadrature_rule',
            'gauss_sqrtinv_quadrature_rule', 'gauss_x_quadrature_rule', 'gauss_log_quadrature_rule']
LISTS = ['LOG_QUAD_RULES', 'LOG_LOG_QUAD_RULES', 'SQRT_QUAD_RULES', 'SQRTINV_QUAD_RULES']


class TranslationError(Exception):
    pass


def dec_of_segment(seg):
    """'-0.123e-2' -> (num, exp) with value = num * 10^-exp, exactly."""
    s = seg.replace(' ', '').replace('_', '')
    m = re.fullmatch(r'([+-]?)(\d*)\.?(\d*)(?:[eE]([+-]?\d+))?', s)
    if not m or (m.group(2) == '' and m.group(3) == ''):
        raise TranslationError('not a decimal literal: %r' % seg)
    sign, ip, fp, ex = m.group(1), m.group(2), m.group(3), int(m.group(4) or 0)
    num = int((ip + fp) or '0')
    exp = len(fp) - ex
    if exp < 0:
        num *= 10**(-exp)
        exp = 0
    if sign == '-':
        num = -num
    return num, exp


def dbl_of_float(f):
    """float -> (man, exp) with value = man * 2^-exp and 2^52 <= |man| < 2^53 (or man = 0)."""
    if f == 0:
        return 0, 0
    p, q = f.as_integer_ratio()
    e = q.bit_length() - 1  # q = 2^e
    while abs(p) < 2**52:
        p *= 2
        e += 1
    while abs(p) >= 2**53:
        if p % 2:
            raise TranslationError('not a binary64 value')
        p //= 2
        e -= 1
    return p, e


def number_node(src, node):
    """Returns (segment, float value) of a numeric literal node (possibly with unary minus)."""
    seg = ast.get_source_segment(src, node)
    if isinstance(node, ast.UnaryOp) and isinstance(node.op, (ast.USub, ast.UAdd)) and isinstance(node.operand, ast.Constant):
        val = -node.operand.value if isinstance(node.op, ast.USub) else node.operand.value
    elif isinstance(node, ast.Constant) and isinstance(node.value, (int, float)):
        val = node.value
    else:
        raise TranslationError('unsupported table element: %s' % seg)
    return seg, float(val)


def parse_rules(path, lenient=False):
    src = open(path).read()
    tree = ast.parse(src)
    fams, lists = {}, {}
    for node in tree.body:
        if isinstance(node, ast.Assign) and len(node.targets) == 1 and isinstance(node.targets[0], ast.Name) \
                and node.targets[0].id in LISTS:
            lists[node.targets[0].id] = [tuple(k) for k in ast.literal_eval(node.value)]
        if isinstance(node, ast.FunctionDef) and node.name in FAMILIES:
            entries = []
            ifs = [s for s in node.body if isinstance(s, ast.If)]
            others = [s for s in node.body if not isinstance(s, (ast.If, ast.Expr, ast.Assign))]
            if len(ifs) != 1 or others:
                raise TranslationError('%s: expected one if/elif chain' % node.name)
            cur = ifs[0]
            while cur is not None:
                t = cur.test
                if not (isinstance(t, ast.Compare) and len(t.ops) == 1 and isinstance(t.ops[0], ast.Eq)):
                    raise TranslationError('%s: unsupported branch test %s' % (node.name, ast.get_source_segment(src, t)))
                key = ast.literal_eval(t.comparators[0])
                key = tuple(key) if isinstance(key, tuple) else (key, 0)
                if len(cur.body) != 1:
                    raise TranslationError('%s %s: branch body is not a single statement' % (node.name, key))
                st = cur.body[0]
                returns = isinstance(st, ast.Return)
                val = st.value if isinstance(st, (ast.Return, ast.Expr)) else None
                if not (isinstance(val, ast.Tuple) and len(val.elts) == 2 and
                        all(isinstance(e, ast.Tuple) for e in val.elts)):
                    raise TranslationError('%s %s: branch is not a (nodes, weights) pair' % (node.name, key))
                nodes = [number_node(src, e) for e in val.elts[0].elts]
                weights = [number_node(src, e) for e in val.elts[1].elts]
                entries.append(dict(key=key, returns=returns, nodes=nodes, weights=weights))
                if cur.orelse and len(cur.orelse) == 1 and isinstance(cur.orelse[0], ast.If):
                    cur = cur.orelse[0]
                elif not cur.orelse:
                    cur = None
                elif len(cur.orelse) == 1 and isinstance(cur.orelse[0], ast.Assert) and \
                        isinstance(cur.orelse[0].test, ast.Constant) and cur.orelse[0].test.value is False:
                    cur = None  # final `else: assert False` = unknown key is rejected
                elif lenient:
                    cur = None  # (search only) an unknown fall-back branch: the tabulated branches are still read
                else:
                    raise TranslationError('%s: else branch is neither an elif nor `assert False`' % node.name)
            fams[node.name] = entries
    for f in FAMILIES:
        if f not in fams:
            raise TranslationError('family %s not found' % f)
    for l in LISTS:
        if l not in lists:
            raise TranslationError('list %s not found' % l)
    return fams, lists


def lean_int(n):
    return '(%d)' % n if n < 0 else str(n)


def emit(fams, lists):
    out = ['/- GENERATED by translate/rules.py from src/quadrature_rules.py -- do not edit. -/',
           'import Stbem.Model.RuleCheck', 'namespace Stbem.Rules.Gen', 'open Stbem.Rules', '',
           '']
    for f in FAMILIES:
        names = []
        for e in fams[f]:
            nm = '%s_%s_%s' % (f, str(e['key'][0]).replace('-', 'm'), str(e['key'][1]).replace('-', 'm'))
            if nm in names:
                nm += '_dup%d' % len(names)
            names.append(nm)

            def decs(xs):
                return '[' + ', '.join('⟨%s, %d⟩' % (lean_int(n), x) for n, x in (dec_of_segment(s) for s, _ in xs)) + ']'

            def dbls(xs):
                return '[' + ', '.join('⟨%s, %s⟩' % (lean_int(m), lean_int(x)) for m, x in (dbl_of_float(v) for _, v in xs)) + ']'
            out.append('def %s : Entry :=\n  { k1 := %s, k2 := %s, returns := %s,\n    nodes := %s,\n    weights := %s,\n'
                       '    nodesD := %s,\n    weightsD := %s }' %
                       (nm, lean_int(e['key'][0]), lean_int(e['key'][1]), 'true' if e['returns'] else 'false',
                        decs(e['nodes']), decs(e['weights']), dbls(e['nodes']), dbls(e['weights'])))
        out.append('def %s : List Entry := [%s]\n' % (f, ', '.join(names)))
    for l in LISTS:
        out.append('def %s : List (Int × Int) := [%s]' % (l, ', '.join('(%s, %s)' % (lean_int(a), lean_int(b)) for a, b in lists[l])))
    out += ['', 'end Stbem.Rules.Gen', '']
    return '\n'.join(out)


FAM_LEAN = {'log_quadrature_rule': 'log', 'log_log_quadrature_rule': 'loglog', 'sqrt_quadrature_rule': 'sqrt',
            'sqrtinv_quadrature_rule': 'sqrtinv', 'gauss_sqrtinv_quadrature_rule': 'gaussSqrtinv',
            'gauss_x_quadrature_rule': 'gaussX', 'gauss_log_quadrature_rule': 'gaussLog'}
LIST_FAM = {'LOG_QUAD_RULES': 'log_quadrature_rule', 'LOG_LOG_QUAD_RULES': 'log_log_quadrature_rule',
            'SQRT_QUAD_RULES': 'sqrt_quadrature_rule', 'SQRTINV_QUAD_RULES': 'sqrtinv_quadrature_rule'}
CHUNK = 5


def entry_names(fams):
    out = {}
    for f in FAMILIES:
        names = []
        for e in fams[f]:
            nm = '%s_%s_%s' % (f, str(e['key'][0]).replace('-', 'm'), str(e['key'][1]).replace('-', 'm'))
            if nm in names:
                nm += '_dup%d' % len(names)
            names.append(nm)
        out[f] = names
    return out


CTORS = {'gauss_sqrtinv_quadrature_scheme': ('gauss_sqrtinv_quadrature_rule', 'gaussSqrtinv'),
         'gauss_x_quadrature_scheme': ('gauss_x_quadrature_rule', 'gaussX'),
         'gauss_log_quadrature_scheme': ('gauss_log_quadrature_rule', 'gaussLog')}


def _key_shape(v, arg):
    """`(arg + a) // b + c` with integer constants (each part optional except `// b`) -> (a, b, c), else None"""
    def const(n):
        if isinstance(n, ast.Constant) and isinstance(n.value, int) and not isinstance(n.value, bool):
            return int(n.value)
        return None
    c = 0
    if isinstance(v, ast.BinOp) and isinstance(v.op, (ast.Add, ast.Sub)) and const(v.right) is not None:
        c = const(v.right) if isinstance(v.op, ast.Add) else -const(v.right)
        v = v.left
    if not (isinstance(v, ast.BinOp) and isinstance(v.op, ast.FloorDiv) and const(v.right) is not None and const(v.right) > 0):
        return None
    b = const(v.right)
    u = v.left
    a = 0
    if isinstance(u, ast.BinOp) and isinstance(u.op, (ast.Add, ast.Sub)) and const(u.right) is not None:
        a = const(u.right) if isinstance(u.op, ast.Add) else -const(u.right)
        u = u.left
    if not (isinstance(u, ast.Name) and u.id == arg):
        return None
    return a, b, c


def parse_ctors(path):
    """The degree -> key maps of the Gauss scheme constructors: `N = (N_poly + a) // b + c; rule(N)` is the only shape
    accepted; returns {ctor: (a, b, c, odd)}; odd = the constructor asserts `N_poly % 2 != 0`."""
    src = open(path).read()
    tree = ast.parse(src)
    out = {}
    for node in tree.body:
        if isinstance(node, ast.FunctionDef) and node.name in CTORS:
            arg = node.args.args[0].arg
            keyvar, shape = None, None
            for st in node.body:
                if isinstance(st, ast.Expr) and isinstance(st.value, ast.Constant) and isinstance(st.value.value, str):
                    continue                       # docstring
                if isinstance(st, ast.Assign) and len(st.targets) == 1 and isinstance(st.targets[0], ast.Name):
                    sh = _key_shape(st.value, arg)
                    if sh is not None:
                        if keyvar is not None:
                            raise TranslationError('%s: two key computations' % node.name)
                        keyvar, shape = st.targets[0].id, sh
            if keyvar is None:
                raise TranslationError('%s: key computation `N = (N_poly + a) // b + c` not found' % node.name)
            calls = [n for n in ast.walk(node) if isinstance(n, ast.Call) and isinstance(n.func, ast.Name) and n.func.id == CTORS[node.name][0]]
            if len(calls) != 1 or len(calls[0].args) != 1 or not (isinstance(calls[0].args[0], ast.Name) and calls[0].args[0].id == keyvar):
                raise TranslationError('%s: the rule is not requested with the computed key' % node.name)
            asserts = [s_ for s_ in node.body if isinstance(s_, ast.Assert)]
            odd = False
            for s_ in asserts:
                if ast.unparse(s_.test).replace(' ', '') in ('%s%%2!=0' % arg, '(%s%%2!=0)' % arg, '%s%%2==1' % arg):
                    odd = True
                else:
                    raise TranslationError('%s: unknown assertion `%s`' % (node.name, ast.unparse(s_.test)))
            if odd and shape[1] % 2 != 0:
                raise TranslationError('%s: odd-degree assertion with an odd divisor is outside the fragment' % node.name)
            out[node.name] = shape + (odd, )
    for c in CTORS:
        if c not in out:
            raise TranslationError('constructor %s not found' % c)
    return out


def emit_checks(fams, lists, ctors=None):
    """Returns {relative path under Stbem/Gen/RuleChecks: text}: per-entry certificates evaluated by the kernel."""
    names = entry_names(fams)
    files = {}
    mods = []
    for f in FAMILIES:
        fl = FAM_LEAN[f]
        for kind in ('lit', 'dbl'):
            for c in range(0, len(names[f]), CHUNK):
                mod = '%s_%s_%d' % (fl, kind, c // CHUNK)
                body = ['/- GENERATED by translate/rules.py -- do not edit. -/', 'import Stbem.Gen.Rules',
                        'namespace Stbem.Rules.Gen', 'open Stbem.Rules', 'set_option maxRecDepth 100000', '']
                for nm in names[f][c:c + CHUNK]:
                    body.append('theorem %s_%s : %sOK .%s %s = true := by decide +kernel' % (kind, nm, kind, fl, nm))
                body += ['', 'end Stbem.Rules.Gen', '']
                files[mod + '.lean'] = '\n'.join(body)
                mods.append(mod)
    agg = ['/- GENERATED by translate/rules.py -- do not edit. -/'] + ['import Stbem.Gen.RuleChecks.%s' % m for m in mods]
    if ctors:
        agg.append('import Stbem.Gen.CtorKeys')
    agg += ['namespace Stbem.Rules.Gen', 'open Stbem.Rules', 'set_option maxRecDepth 100000', '']
    for f in FAMILIES:
        fl = FAM_LEAN[f]
        for kind in ('lit', 'dbl'):
            agg.append('theorem %s_all_%s : %s.all (%sOK .%s) = true := by\n  simp only [%s, List.all_cons, List.all_nil, '
                       '%s, Bool.and_self]' % (kind, f, f, kind, fl, f, ', '.join('%s_%s' % (kind, n) for n in names[f])))
    for l in LISTS:
        f = LIST_FAM[l]
        agg.append('/-- every exported key has a branch -/\ntheorem available_%s :\n    %s.all (fun k => %s.any fun e => '
                   'decide (e.k1 = k.1) && decide (e.k2 = k.2)) = true := by decide +kernel' % (l, l, f))
    if ctors:
        for cname, (a, b, c, odd) in ctors.items():
            fam, fl = CTORS[cname]
            # largest requested degree that is mapped to key N: d in [b(N-c)-a, b(N-c)-a+b-1]; with the odd-degree
            # assertion (b even) the largest odd one
            top = -a + b - 1
            if odd and top % 2 == 0:
                top -= 1
            # the key maps themselves (ctorKey_*, ctorOdd_*) are defined in Gen/CtorKeys.lean (emit_ctor_keys), imported above
            agg.append('/-- the largest degree `%s` maps to key `N` (key map `(N_poly + %d) // %d + %d`%s) -/\n'
                       'def ctorDmax_%s (N : Int) : Int := %d * (N - %d) + %d'
                       % (cname, a, b, c, ', odd degrees only' if odd else '', fl, b, c, top))
            agg.append('theorem ctorKey_%s_le (d N : Int) (%s : ctorOdd_%s = true → d %% 2 = 1) (h : ctorKey_%s d = N) :\n'
                       '    d ≤ ctorDmax_%s N := by\n  %sunfold ctorKey_%s at h; unfold ctorDmax_%s; omega'
                       % (fl, 'hodd' if odd else '_hodd', fl, fl, fl, 'have hd := hodd rfl; ' if odd else '', fl, fl))
            # every degree a constructor call can have been made with, for a key that is in the table, is within the
            # degree of exactness certified for that entry (and the key promises what `keyOK` records)
            agg.append('theorem constructors_ok_%s :\n    %s.all (fun e => decide (ctorDmax_%s e.k1 ≤ gaussDeg e.xs) && keyOK .%s e.k1 e.xs) = true := by decide +kernel'
                       % (fl, fam, fl, fl))
            agg.append('/-- **requested degree ≤ certified degree of exactness**, for every request the constructor accepts -/\n'
                       'theorem ctor_requested_ok_%s (d : Int) (e : Entry) (he : e ∈ %s)\n'
                       '    (hodd : ctorOdd_%s = true → d %% 2 = 1) (h : ctorKey_%s d = e.k1) : d ≤ gaussDeg e.xs := by\n'
                       '  have h1 := ctorKey_%s_le d e.k1 hodd h\n'
                       '  have h2 := List.all_eq_true.mp constructors_ok_%s e he\n'
                       '  simp only [Bool.and_eq_true, decide_eq_true_eq] at h2\n'
                       '  exact Int.le_trans h1 h2.1' % (fl, fam, fl, fl, fl, fl))
    agg += ['', 'end Stbem.Rules.Gen', '']
    files['All.lean'] = '\n'.join(agg)
    return files


def emit_ctor_keys(ctors):
    """Gen/CtorKeys.lean: the degree -> key maps of the Gauss scheme constructors of src/quadrature.py (no imports, so that
    Props/QuadCtorTie.lean can compare them with the constructors regenerated by translate/quadgen.py without depending
    on the table certificates)."""
    out = ['/- GENERATED by translate/rules.py from src/quadrature.py -- do not edit. -/', 'namespace Stbem.Rules.Gen', '']
    for cname, (a, b, c, odd) in ctors.items():
        fam, fl = CTORS[cname]
        out.append('/-- `%s`: key = (N_poly + %d) // %d + %d%s -/\ndef ctorKey_%s (npoly : Int) : Int := (npoly + %d) / %d + %d' %
                   (cname, a, b, c, '; even N_poly is rejected by an assertion' if odd else '', fl, a, b, c))
        out.append('/-- does `%s` assert that N_poly is odd? -/\ndef ctorOdd_%s : Bool := %s' % (cname, fl, 'true' if odd else 'false'))
    out += ['', 'end Stbem.Rules.Gen', '']
    return '\n'.join(out)


def generate_ctor_keys(repo, gen_dir, write):
    ctors = parse_ctors(os.path.join(repo, 'src', 'quadrature.py'))
    write(os.path.join(gen_dir, 'CtorKeys.lean'), emit_ctor_keys(ctors))
    return ctors


def main(repo, dest):
    fams, lists = parse_rules(os.path.join(repo, 'src', 'quadrature_rules.py'))
    return emit(fams, lists), fams, lists


def generate(repo, gen_dir, write):
    """Writes Gen/Rules.lean and Gen/RuleChecks/*.lean through `write(path, text)`; removes stale check files."""
    fams, lists = parse_rules(os.path.join(repo, 'src', 'quadrature_rules.py'))
    write(os.path.join(gen_dir, 'Rules.lean'), emit(fams, lists))
    ctors = generate_ctor_keys(repo, gen_dir, write)
    files = emit_checks(fams, lists, ctors)
    cdir = os.path.join(gen_dir, 'RuleChecks')
    os.makedirs(cdir, exist_ok=True)
    for name in os.listdir(cdir):
        if name.endswith('.lean') and name not in files:
            os.unlink(os.path.join(cdir, name))
    for name, text in files.items():
        write(os.path.join(cdir, name), text)
    return fams, lists


if __name__ == '__main__':
    sys.path.insert(0, os.path.join(os.path.dirname(os.path.abspath(__file__)), '..'))
    from harness.common import write_if_changed
    gen = os.path.join(os.path.dirname(os.path.abspath(__file__)), '..', 'lean', 'Stbem', 'Gen')
    fams, lists = generate(sys.argv[1] if len(sys.argv) > 1 else '/repo', gen, write_if_changed)
    print('generated', sum(len(v) for v in fams.values()), 'entries')
