"""Calls and comprehensions of the function translator of translate/estimgen.py (class `CallMixin`)."""
import ast

from estimgen_expr import Var, is_pend
from estimgen_types import (BOOL, DICT, ELEM, ELEMS, GFUN, IMAT, INT, IVEC, LIT, M0, MAT, NAT, NONE, RAT, RES, SL, TIME, VEC, TList,
                            TOpt, TTuple, is_list, is_opt, is_rec, is_tuple, paren)

# the leaves (other code): parameter names as in the source (checked against src/single_layer.py, src/initial_potential.py)
LEAF_METHODS = {
    SL: {'bilform_matrix': (['elems_test', 'elems_trial', 'use_mp'], [ELEMS, ELEMS, TOpt(BOOL)], MAT)},
    M0: {'linform_vector': (['elems', 'use_mp'], [ELEMS, TOpt(BOOL)], VEC)},
}


class CallMixin:
    def bind_args(self, node, params):
        """positional / keyword arguments -> list of nodes (None = not passed) in the order of `params`"""
        if len(node.args) > len(params) or any(isinstance(a, ast.Starred) for a in node.args):
            self.err(node, 'too many / starred arguments')
        out = list(node.args) + [None] * (len(params) - len(node.args))
        for kw in node.keywords:
            if kw.arg is None or kw.arg not in params:
                self.err(node, 'unknown keyword argument %s' % kw.arg)
            i = params.index(kw.arg)
            if out[i] is not None:
                self.err(node, 'argument %s given twice' % kw.arg)
            out[i] = kw.value
        return out

    def call(self, node, env, ind, want=None):
        f = node.func
        if isinstance(f, ast.Name):
            return self.call_name(node, f.id, env, ind, want)
        if isinstance(f, ast.Attribute):
            # np.<fn>, np.linalg.solve, time.time
            if isinstance(f.value, ast.Name) and f.value.id == 'np' and 'np' not in env:
                return self.call_numpy(node, f.attr, env, ind)
            if isinstance(f.value, ast.Attribute) and isinstance(f.value.value, ast.Name) and f.value.value.id == 'np' \
                    and f.value.attr == 'linalg' and f.attr == 'solve':
                a = self.plain_args(node, 2)
                A, b = self.settled(a[0], env, ind), self.settled(a[1], env, ind)
                if A[1] != MAT or b[1] != VEC:
                    self.err(node, 'np.linalg.solve of values of types %s, %s' % (A[1], b[1]))
                self.uses_np = True
                self.mod.stats.bump('external_calls')
                return (self.hoist(ind, 'np.linalg_solve %s %s' % (paren(A[0]), paren(b[0])), VEC), VEC)
            if isinstance(f.value, ast.Name) and f.value.id == 'time' and f.attr == 'time' and 'time' in self.mod.imports:
                self.plain_args(node, 0)
                return ('()', TIME)
            # <Class>.<staticmethod>(...)
            if isinstance(f.value, ast.Name) and f.value.id in self.mod.classes and f.value.id not in env:
                return self.call_function(node, '%s.%s' % (f.value.id, f.attr), env, ind)
            # a method of a leaf object / a call of an optional callable
            return self.call_leaf(node, env, ind)
        self.err(node, 'unsupported call')

    def plain_args(self, node, n):
        if node.keywords or len(node.args) != n or any(isinstance(a, ast.Starred) for a in node.args):
            self.err(node, '%d positional argument(s) expected' % n)
        return node.args

    def call_name(self, node, name, env, ind, want):
        if name in env:
            self.err(node, 'call of a local value')
        if name == 'len':
            a = self.settled(self.plain_args(node, 1)[0], env, ind)
            if not is_list(a[1]):
                self.err(node, 'len of a value of type %s' % (a[1], ))
            return ('%s.length' % paren(a[0]), NAT)
        if name in ('abs', 'float'):
            a = self.settled(self.plain_args(node, 1)[0], env, ind, RAT)
            if a[1] != RAT:
                self.err(node, '%s of a value of type %s' % (name, a[1]))
            self.mod.stats.bump('builtin_calls')
            return ('%s %s' % ({'abs': 'pyAbs', 'float': 'pyFloat'}[name], paren(a[0])), RAT)
        if name in ('max', 'min'):
            args = self.plain_args(node, 2)
            a = self.settled(args[0], env, ind, RAT)
            b = self.settled(args[1], env, ind, RAT)
            if a[1] != RAT or b[1] != RAT:
                self.err(node, '%s of values of types %s, %s' % (name, a[1], b[1]))
            self.mod.stats.bump('builtin_calls')
            return ('%s %s %s' % ({'max': 'pyMax', 'min': 'pyMin'}[name], paren(a[0]), paren(b[0])), RAT)
        if name == 'enumerate':
            a = self.settled(self.plain_args(node, 1)[0], env, ind)
            if not is_list(a[1]):
                self.err(node, 'enumerate of a value of type %s' % (a[1], ))
            return ('enumerate %s' % paren(a[0]), TList(TTuple(NAT, a[1][1])))
        if name == 'zip':
            args = self.plain_args(node, 2)
            a, b = self.settled(args[0], env, ind), self.settled(args[1], env, ind)
            if not is_list(a[1]) or not is_list(b[1]):
                self.err(node, 'zip of values of types %s, %s' % (a[1], b[1]))
            return ('List.zip %s %s' % (paren(a[0]), paren(b[0])), TList(TTuple(a[1][1], b[1][1])))
        if name in self.mod.classes:
            return self.construct(node, name, env, ind)
        self.err(node, 'call of an unknown function')

    def call_numpy(self, node, fn, env, ind):
        if 'np' not in self.mod.imports:
            self.err(node, 'numpy is not imported as np')
        self.mod.stats.bump('numpy_calls')
        if fn == 'zeros':
            a = self.expr(self.plain_args(node, 1)[0], env, ind, NAT)
            if a[1] not in (NAT, LIT):
                self.err(node, 'np.zeros of a value of type %s' % (a[1], ))
            return ('npZeros %s' % paren(a[0]), VEC)
        if fn == 'array':
            a = self.settled(self.plain_args(node, 1)[0], env, ind)
            if a[1] == IVEC:
                return ('npArrayI %s' % paren(a[0]), IVEC)
            if a[1] == VEC:
                return ('npArray %s' % paren(a[0]), VEC)
            if a[1] == TList(TTuple(RAT, RAT)):
                return ('npArrayPairs %s' % paren(a[0]), MAT)
            self.err(node, 'np.array of a value of type %s' % (a[1], ))
        if fn == 'repeat':
            args = self.plain_args(node, 2)
            a = self.settled(args[0], env, ind)
            k = self.expr(args[1], env, ind, NAT)
            if a[1] != VEC or k[1] not in (NAT, LIT):
                self.err(node, 'np.repeat of values of types %s, %s' % (a[1], k[1]))
            return ('npRepeat %s %s' % (paren(a[0]), paren(k[0])), VEC)
        if fn == 'sqrt':
            a = self.settled(self.plain_args(node, 1)[0], env, ind, RAT)
            if a[1] != RAT:
                self.err(node, 'np.sqrt of a value of type %s' % (a[1], ))
            self.uses_np = self.uses_res = True
            self.mod.stats.bump('external_calls')
            return ('np.sqrt %s' % paren(a[0]), RES)
        self.err(node, 'unsupported NumPy function')

    def construct(self, node, cname, env, ind):
        ci = self.mod.classes[cname]
        if not ci.translated:
            self.err(node, 'constructor of a class that is translated later')
        vals = self.bind_args(node, [p[0] for p in ci.init_params])
        codes = []
        for (pname, ptyp, has_default), v in zip(ci.init_params, vals):
            if v is None:
                if not has_default:
                    self.err(node, 'argument %s is missing' % pname)
                codes.append('none')
                continue
            c, t = self.settled(v, env, ind, ptyp if ptyp in (RAT, INT, NAT) or is_list(ptyp) else None)
            codes.append(paren(self.coerce(v, c, t, ptyp)))
        self.mod.stats.bump('constructor_calls')
        if ci.identity:
            self.allocates = True
            r = self.hoist(ind, '%s.init heap %s' % (cname, ' '.join(codes)), TRecOf(cname), 'r')
            self.emit(ind, 'heap := heap + 1')
            return (r, TRecOf(cname))
        if ci.effectful:
            return (self.hoist(ind, '%s.init %s' % (cname, ' '.join(codes)), TRecOf(cname)), TRecOf(cname))
        return ('%s.init %s' % (cname, ' '.join(codes)), TRecOf(cname))

    def call_function(self, node, qname, env, ind):
        fi = self.mod.functions.get(qname)
        if fi is None:
            self.err(node, 'call of a function that is not translated (yet)')
        vals = self.bind_args(node, [p[0] for p in fi.params])
        codes = []
        for (pname, ptyp), v in zip(fi.params, vals):
            if v is None:
                self.err(node, 'argument %s is missing' % pname)
            c, t = self.settled(v, env, ind)
            codes.append(paren(self.coerce(v, c, t, ptyp)))
        pre = []
        if fi.uses_np:
            self.uses_np = True
            self.uses_res = self.uses_res or fi.uses_res
            pre.append('np')
        if fi.allocates:
            self.allocates = True
            pre.append('heap')
        self.mod.stats.bump('translated_calls')
        r = self.hoist(ind, '%s %s' % (qname, ' '.join(pre + codes)), fi.ret, 'r')
        if fi.allocates:
            self.emit(ind, 'heap := %s.2' % r)
            return ('%s.1' % r, fi.ret)
        return (r, fi.ret)

    def call_leaf(self, node, env, ind):
        f = node.func
        # self.g(...): an optional callable
        base = self.settled(f, env, ind) if self._is_optional_callable(f, env, ind) else None
        if base is not None:
            a = self.settled(self.plain_args(node, 1)[0], env, ind)
            if a[1] != ELEMS:
                self.err(node, 'the data function is called with a value of type %s' % (a[1], ))
            g = self.hoist(ind, 'optGet %s' % paren(base[0]), GFUN)
            self.mod.stats.bump('leaf_calls')
            return ('%s %s' % (g, paren(a[0])), VEC)
        obj = self.settled(f.value, env, ind)
        ot = obj[1]
        code = obj[0]
        if is_opt(ot) and ot[1] in LEAF_METHODS:
            code = self.hoist(ind, 'optGet %s' % paren(code), ot[1])
            ot = ot[1]
        if ot not in LEAF_METHODS or f.attr not in LEAF_METHODS[ot]:
            self.err(node, 'unsupported method call')
        params, types, ret = LEAF_METHODS[ot][f.attr]
        vals = self.bind_args(node, params)
        codes = []
        for p, t, v in zip(params, types, vals):
            if v is None:
                if not is_opt(t):
                    self.err(node, 'argument %s is missing' % p)
                codes.append('none')
                continue
            c, ct = self.settled(v, env, ind)
            codes.append(paren(self.coerce(v, c, ct, t)))
        self.mod.stats.bump('leaf_calls')
        return ('%s.%s %s' % (paren(code), f.attr, ' '.join(codes)), ret)

    def _is_optional_callable(self, f, env, ind):
        if isinstance(f, ast.Attribute) and isinstance(f.value, ast.Name) and f.value.id == 'self' and self.self_cls is not None \
                and self.in_init is None:
            for fname, ftyp in self.self_cls.fields:
                if fname == f.attr:
                    return ftyp == TOpt(GFUN)
        return False

    # ---- comprehensions ----------------------------------------------------------------------------------------------
    def bind_target(self, node, target, typ, env, readonly=True):
        """loop / comprehension target -> (Lean pattern, names bound)"""
        if isinstance(target, ast.Name):
            self.name_ok(target, target.id)
            v = Var(target.id, typ, readonly=readonly)
            env[target.id] = v
            return target.id, [target.id]
        if isinstance(target, ast.Tuple) and is_tuple(typ) and len(target.elts) == len(typ[1]):
            pats, names = [], []
            for e, t in zip(target.elts, typ[1]):
                p, n = self.bind_target(node, e, t, env, readonly)
                pats.append(p)
                names += n
            return '(%s)' % ', '.join(pats), names
        self.err(node, 'unsupported loop target for values of type %s' % (typ, ))

    def listcomp(self, node, env, ind):
        if any(g.ifs or g.is_async for g in node.generators):
            self.err(node, 'conditions in comprehensions are not supported')
        inner = dict(env)
        # try the pure form first: nested generators -> flatMap … map
        n0, tmp0 = len(self.lines), dict(self.n_tmp)
        try:
            pats = []
            for g in node.generators:
                it = self.pure_expr(g.iter, inner)
                if not is_list(it[1]) or it[1][1] is None:
                    self.err(g.iter, 'comprehension over a value of type %s' % (it[1], ))
                pat, _ = self.bind_target(node, g.target, it[1][1], inner)
                pats.append((pat, it[0]))
            el = self.pure_expr(node.elt, inner)
            if el[1] == LIT:
                el = (el[0], NAT)
            code = '%s.map (fun %s => %s)' % (paren(pats[-1][1]), pats[-1][0], el[0])
            for pat, it in reversed(pats[:-1]):
                code = '%s.flatMap (fun %s => %s)' % (paren(it), pat, code)
            self.mod.stats.bump('comprehensions')
            return (code, TList(el[1]))
        except _Impure:
            del self.lines[n0:]
            self.n_tmp = tmp0
        # the loop the comprehension abbreviates (one generator)
        if len(node.generators) != 1:
            self.err(node, 'a comprehension with several generators whose element can raise')
        g = node.generators[0]
        it = self.settled(g.iter, env, ind)
        if not is_list(it[1]):
            self.err(g.iter, 'comprehension over a value of type %s' % (it[1], ))
        acc = self.tmp()
        decl = len(self.lines)
        self.lines.append(None)
        inner = dict(env)
        pat, _ = self.bind_target(node, g.target, it[1][1], inner)
        self.emit(ind, 'for %s in %s do' % (pat, it[0]))
        el = self.settled(node.elt, inner, ind + 2)
        self.emit(ind + 2, '%s := %s ++ [%s]' % (acc, acc, el[0]))
        self.lines[decl] = ' ' * ind + 'let mut %s : %s := []' % (acc, self.lt(TList(el[1])))
        self.mod.stats.bump('comprehensions')
        self.mod.stats.bump('for_loops')
        return (acc, TList(el[1]))

    def pure_expr(self, node, env, want=None):
        n0 = len(self.lines)
        r = self.expr(node, env, 0, want)
        if len(self.lines) != n0:
            raise _Impure()
        return r

    def dictcomp(self, node, env, ind):
        """`{k: v for v, k in enumerate(l)}` with objects compared by identity as keys"""
        ok = (len(node.generators) == 1 and not node.generators[0].ifs and isinstance(node.generators[0].target, ast.Tuple)
              and len(node.generators[0].target.elts) == 2 and all(isinstance(e, ast.Name) for e in node.generators[0].target.elts)
              and isinstance(node.key, ast.Name) and isinstance(node.value, ast.Name)
              and node.value.id == node.generators[0].target.elts[0].id and node.key.id == node.generators[0].target.elts[1].id
              and node.key.id != node.value.id
              and isinstance(node.generators[0].iter, ast.Call) and isinstance(node.generators[0].iter.func, ast.Name)
              and node.generators[0].iter.func.id == 'enumerate' and len(node.generators[0].iter.args) == 1
              and not node.generators[0].iter.keywords)
        if not ok:
            self.err(node, 'only the position map {k: v for v, k in enumerate(l)} is supported')
        l = self.settled(node.generators[0].iter.args[0], env, ind)
        if l[1] != ELEMS or not self.mod.classes['DummyElement'].identity:
            self.err(node, 'position map of a list of type %s' % (l[1], ))
        self.mod.stats.bump('position_maps')
        return ('dictOfEnumerate (%s.map (fun e\' => e\'.oid))' % paren(l[0]), DICT)


class _Impure(Exception):
    pass


def TRecOf(name):
    return ('rec', name)
