"""Statement part of the function translator of translate/estimgen.py (class `Fn`)."""
import ast

from estimgen_call import CallMixin
from estimgen_expr import ExprMixin, Var, is_pend
from estimgen_types import (ELEM, INT, IVEC, LEAN_KEYWORDS, LIT, NAT, NONE, PROP, RAT, RUNTIME_NAMES, TIME, VEC, TList,
                            TranslationError, has_unknown, is_list, is_opt, is_tuple, mentions_gamma, paren)

# labels of the assertion failures, keyed by (function, assertion text); an assertion that is not listed gets its text
ASSERT_TAGS = {
    ('HierarchicalErrorEstimator.estimate', 'scaling_estim > 0'): 'scaling',
    ('HH2ErrorEstimator.estimate', 'Phi_prolong[0] == Phi_prolong[1]'): 'prolong',
}


class Fn(CallMixin, ExprMixin):
    """translator of one function body into the lines of a Lean `do` block"""
    def __init__(self, mod, fname, self_cls=None, in_init=None):
        self.mod, self.fname, self.self_cls, self.in_init = mod, fname, self_cls, in_init
        self.lines = []
        self.n_tmp = {}
        self.allocates = False
        self.uses_np = False
        self.uses_res = False
        self.ret = None
        self.returned = False

    def name_ok(self, node, name):
        if name in LEAN_KEYWORDS or name in RUNTIME_NAMES or name in self.mod.classes or not name.isidentifier() \
                or not name.isascii() or name.startswith('__') or name.startswith('self_') or name.startswith('c_') \
                or (len(name) > 1 and name[0] in 'rt' and name[1:].isdigit()):
            self.err(node, 'the local name `%s` cannot be used as a Lean name here' % name)
        return name

    # ---- assignment ------------------------------------------------------------------------------------------------
    def assign(self, node, env, name, code, typ, ind):
        self.name_ok(node, name)
        self.mod.stats.bump('assignments')
        if typ == TIME:
            env[name] = Var(name, TIME)
            self.mod.stats.bump('time_stamps_dropped')
            return
        if typ in (NONE, PROP):
            self.err(node, 'assignment of a value of type %s' % typ)
        if name in env and not env[name].readonly:
            v = env[name]
            if is_pend(v.typ) and typ in (RAT, INT, NAT):
                self.resolve_pending(node, v, typ)
            if v.typ != typ:
                if typ == LIT and v.typ in (RAT, INT, NAT):
                    code = self.coerce(node, code, LIT, v.typ)
                elif not self._unify(v, typ):
                    self.err(node, 'the variable `%s` changes its type (%s -> %s)' % (name, v.typ, typ))
            self.emit(ind, '%s := %s' % (name, code))
            return
        # a new variable (or a shadow of a parameter / loop variable, which Lean binds immutably)
        v = Var(name, typ)
        env[name] = v
        if typ == LIT:
            v.typ = ('pend', int(code))
            v.decl = len(self.lines)
            self.lines.append([ind, name])
        elif has_unknown(typ):
            v.decl = len(self.lines)
            self.lines.append([ind, name, code])
        else:
            self.emit(ind, 'let mut %s : %s := %s' % (name, self.lt(typ), code))

    def _unify(self, v, typ):
        if is_list(v.typ) and v.typ[1] is None and is_list(typ) and typ[1] is not None:
            v.typ = typ
            if v.decl is not None:
                ind, name, code = self.lines[v.decl]
                self.lines[v.decl] = ' ' * ind + 'let mut %s : %s := %s' % (name, self.lt(typ), code)
                v.decl = None
            return True
        return False

    def finish_pending(self):
        for i, l in enumerate(self.lines):
            if isinstance(l, list):
                if len(l) == 2:
                    raise TranslationError('%s: the numeric type of `%s` is never determined' % (self.fname, l[1]))
                raise TranslationError('%s: the element type of the list `%s` is never determined' % (self.fname, l[1]))

    # ---- statements ------------------------------------------------------------------------------------------------
    def block(self, body, env, ind, top=False):
        n0 = len(self.lines)
        for k, st in enumerate(body):
            if self.returned:
                self.err(st, 'statement after return')
            self.stmt(st, env, ind, last=(top and k == len(body) - 1))
        if len(self.lines) == n0:
            self.emit(ind, 'pure ()')

    def stmt(self, st, env, ind, last=False):
        if isinstance(st, ast.Expr) and isinstance(st.value, ast.Constant) and isinstance(st.value.value, str):
            return
        if isinstance(st, ast.Pass):
            return
        if isinstance(st, ast.Expr) and isinstance(st.value, ast.Call):
            return self.call_stmt(st, st.value, env, ind)
        if isinstance(st, ast.Assign):
            if len(st.targets) != 1:
                self.err(st, 'chained assignment')
            return self.assign_stmt(st, st.targets[0], st.value, env, ind)
        if isinstance(st, ast.AugAssign):
            return self.augassign(st, env, ind)
        if isinstance(st, ast.Assert):
            if st.msg is not None:
                self.err(st, 'assertion with a message')
            text = ast.unparse(st.test)
            tag = ASSERT_TAGS.get((self.fname, text), text.replace('"', "'"))
            c = self.cond(st.test, env, ind)
            self.emit(ind, 'assertThat %s "assert:%s"' % (c, tag))
            self.mod.stats.bump('asserts')
            return
        if isinstance(st, ast.For):
            return self.for_stmt(st, env, ind)
        if isinstance(st, ast.If):
            return self.if_stmt(st, env, ind)
        if isinstance(st, ast.Return):
            if not last or st.value is None or self.in_init is not None:
                self.err(st, '`return <value>` is only supported as the last statement of a method')
            c, t = self.settled(st.value, env, ind)
            self.ret = t
            self.ret_code = c
            self.returned = True
            self.mod.stats.bump('returns')
            return
        self.err(st, 'unsupported statement')

    def mutated(self, stmts, env):
        """the variables of `env` (and the allocation counter) that the statements may rebind, in a fixed order"""
        names = []

        def add(x):
            if x not in names:
                names.append(x)
        for st in stmts:
            for n in ast.walk(st):
                tg = []
                if isinstance(n, ast.Assign):
                    tg = n.targets
                elif isinstance(n, ast.AugAssign):
                    tg = [n.target]
                elif isinstance(n, ast.Call) and isinstance(n.func, ast.Attribute) and n.func.attr == 'append':
                    tg = [n.func.value]
                elif isinstance(n, ast.Call):
                    f = n.func
                    if isinstance(f, ast.Name) and f.id in self.mod.classes and self.mod.classes[f.id].identity:
                        add('heap')
                    if isinstance(f, ast.Attribute) and isinstance(f.value, ast.Name) and \
                            '%s.%s' % (f.value.id, f.attr) in self.mod.functions and \
                            self.mod.functions['%s.%s' % (f.value.id, f.attr)].allocates:
                        add('heap')
                for t in tg:
                    for e in (t.elts if isinstance(t, ast.Tuple) else [t]):
                        if isinstance(e, ast.Subscript):
                            e = e.value
                        if isinstance(e, ast.Name) and e.id in env and not env[e.id].readonly and env[e.id].typ != TIME:
                            add(e.id)
        return names

    def if_stmt(self, st, env, ind):
        """`if c: … [else: …]`; the variables the branches rebind are returned by the conditional (the form Lean's `do`
        notation gives an `if` with mutation, written out so that the continuation is not duplicated)"""
        c = self.cond(st.test, env, ind)
        self.mod.stats.bump('branches')
        mut = self.mutated(st.body + st.orelse, env)
        if not mut:
            self.emit(ind, 'if %s then' % c)
            self.block(st.body, dict(env), ind + 2)
            if st.orelse:
                self.emit(ind, 'else')
                self.block(st.orelse, dict(env), ind + 2)
            return
        pat = mut[0] if len(mut) == 1 else '(%s)' % ', '.join(mut)
        self.emit(ind, '%s ← (if %s then do' % (pat, c))
        for branch, last in ((st.body, False), (st.orelse, True)):
            if last:
                if not branch:
                    self.emit(ind + 2, 'else pure %s)' % pat)
                    break
                self.emit(ind + 2, 'else do')
            for x in mut:
                self.emit(ind + 4, 'let mut %s := %s' % (x, x))
            self.block(branch, dict(env), ind + 4)
            self.emit(ind + 4, 'pure %s%s' % (pat, ')' if last else ''))

    def call_stmt(self, st, call, env, ind):
        f = call.func
        if isinstance(f, ast.Name) and f.id == 'print' and 'print' not in env:
            for n in ast.walk(call):
                if isinstance(n, ast.Name) and n.id not in env and n.id not in ('print', 'time'):
                    self.err(st, 'print of an unknown name %s' % n.id)
            self.mod.stats.bump('prints_dropped')
            return
        if isinstance(f, ast.Attribute) and f.attr == 'append' and isinstance(f.value, ast.Name) and f.value.id in env:
            v = env[f.value.id]
            if not is_list(v.typ) or v.readonly:
                self.err(st, 'append to a value of type %s' % (v.typ, ))
            a = self.settled(self.plain_args(call, 1)[0], env, ind, v.typ[1] if v.typ[1] in (RAT, INT, NAT) else None)
            if v.typ[1] is None:
                self._unify(v, TList(a[1]))
            if v.typ[1] != a[1]:
                self.err(st, 'element of type %s appended to `%s` of type %s' % (a[1], v.name, v.typ))
            self.emit(ind, '%s := %s ++ [%s]' % (v.name, v.name, a[0]))
            self.mod.stats.bump('appends')
            return
        self.err(st, 'unsupported call statement')

    def assign_stmt(self, st, target, value, env, ind):
        if isinstance(target, ast.Name):
            want = None
            if target.id in env and not is_pend(env[target.id].typ) and env[target.id].typ in (RAT, INT, NAT):
                want = env[target.id].typ
            c, t = self.expr(value, env, ind, want)
            if is_pend(t):
                self.err(st, 'copy of a numeric variable whose type is not determined yet')
            return self.assign(st, env, target.id, c, t, ind)
        if isinstance(target, ast.Tuple) and all(isinstance(e, ast.Name) for e in target.elts):
            c, t = self.settled(value, env, ind)
            n = len(target.elts)
            if not is_list(t) or n not in (2, 3, 4):
                self.err(st, 'unpacking of a value of type %s into %d names' % (t, n))
            names = [self.name_ok(st, e.id) for e in target.elts]
            if len(set(names)) != n or any(x in env for x in names):
                self.err(st, 'unpacking into names that are already bound')
            self.emit(ind, 'let (%s) ← unpack%d %s' % (', '.join(names), n, paren(c)))
            for x in names:
                env[x] = Var(x, t[1], readonly=True)
            self.mod.stats.bump('assignments')
            self.mod.stats.bump('effects')
            return
        if isinstance(target, ast.Attribute) and isinstance(target.value, ast.Name) and target.value.id == 'self' \
                and self.in_init is not None:
            if target.attr in self.in_init:
                self.err(st, 'attribute assigned twice in __init__')
            c, t = self.settled(value, env, ind)
            if t in (NONE, PROP, TIME):
                self.err(st, 'attribute of type %s' % t)
            name = 'self_' + target.attr
            self.emit(ind, 'let %s : %s := %s' % (name, self.lt(t), c))
            self.in_init[target.attr] = Var(name, t, readonly=True)
            self.mod.stats.bump('assignments')
            return
        if isinstance(target, ast.Subscript) and isinstance(target.value, ast.Name) and target.value.id in env:
            v = env[target.value.id]
            if not is_list(v.typ) or v.readonly or isinstance(target.slice, (ast.Slice, ast.Tuple)):
                self.err(st, 'item assignment to a value of type %s' % (v.typ, ))
            i = self.expr(target.slice, env, ind, NAT)
            if i[1] not in (NAT, LIT):
                self.err(st, 'index of type %s' % (i[1], ))
            c, t = self.settled(value, env, ind, v.typ[1] if v.typ[1] in (RAT, INT, NAT) else None)
            if t != v.typ[1]:
                self.err(st, 'item of type %s stored in `%s` of type %s' % (t, v.name, v.typ))
            self.emit(ind, '%s ← listSet %s %s %s' % (v.name, v.name, paren(i[0]), paren(c)))
            self.mod.stats.bump('item_assignments')
            self.mod.stats.bump('effects')
            return
        self.err(st, 'unsupported assignment target')

    def augassign(self, st, env, ind):
        if not (isinstance(st.target, ast.Name) and st.target.id in env):
            self.err(st, 'augmented assignment to something that is not a local variable')
        v = env[st.target.id]
        sym = {ast.Add: '+', ast.Sub: '-', ast.Mult: '*'}.get(type(st.op))
        if sym is None:
            self.err(st, 'unsupported augmented assignment')
        if v.readonly:
            self.err(st, 'augmented assignment to a parameter / loop variable')
        self.mod.stats.bump('assignments')
        if v.typ == VEC:
            if sym == '*':
                self.err(st, 'unsupported augmented assignment on an array')
            c, t = self.settled(st.value, env, ind)
            if t not in (VEC, IVEC):
                self.err(st, 'array %s= value of type %s' % (sym, t))
            self.emit(ind, '%s ← %s %s %s' % (v.name, {'+': 'npIAdd', '-': 'npISub'}[sym], v.name, paren(self.coerce(st, c, t, VEC))))
            self.mod.stats.bump('array_ops')
            self.mod.stats.bump('effects')
            return
        want = v.typ if v.typ in (RAT, INT, NAT) else None
        c, t = self.expr(st.value, env, ind, want)
        if is_pend(v.typ):
            if t == LIT:
                self.err(st, 'the numeric type of `%s` cannot be determined here' % v.name)
            self.resolve_pending(st, v, t)
        if v.typ not in (RAT, INT, NAT):
            self.err(st, 'augmented assignment to a value of type %s' % (v.typ, ))
        if sym == '-' and v.typ == NAT:
            self.err(st, 'subtraction of natural numbers')
        self.emit(ind, '%s := %s %s %s' % (v.name, v.name, sym, paren(self.coerce(st, c, t, v.typ))))

    def for_stmt(self, st, env, ind):
        if st.orelse:
            self.err(st, 'for … else')
        it = self.settled(st.iter, env, ind)
        if not is_list(it[1]) or it[1][1] is None:
            self.err(st, 'loop over a value of type %s' % (it[1], ))
        inner = dict(env)
        pat, names = self.bind_target(st, st.target, it[1][1], inner)
        if isinstance(st.iter, ast.Name) and getattr(env.get(st.iter.id), 'from_input', False):
            for x in names:
                inner[x].from_input = True
        self.emit(ind, 'for %s in %s do' % (pat, it[0]))
        self.mod.stats.bump('for_loops')
        # a loop variable that the body rebinds: Lean binds the pattern immutably, so it is shadowed by a mutable copy
        assigned = {t.id for n in ast.walk(st) for t in (n.targets if isinstance(n, ast.Assign) else [])
                    if isinstance(t, ast.Name)}
        for x in names:
            if x in assigned:
                self.emit(ind + 2, 'let mut %s : %s := %s' % (x, self.lt(inner[x].typ), x))
                inner[x] = Var(x, inner[x].typ)
        for n in ast.walk(st):
            if isinstance(n, (ast.Break, ast.Continue)):
                self.err(n, 'break / continue')
        self.block(st.body, inner, ind + 2)
