#!/venv/bin/python
"""Translator: `src/initial_mesh.py` (ast) -> lean/Stbem/Gen/QuadtreeGen.lean  (Mathlib-free, executable, no import).

Generated from the *bodies* of
  * `Element.__init__`, `Element.edges`                         -> `Element_init`, `Element_edges`
  * `InitialMesh.__init__`                                      -> `InitialMesh_init` (+ `_loop1 … _loop4`)
  * `InitialMesh.vertex_from_coords`                            -> `InitialMesh_vertex_from_coords` (+ `_loop1`)
  * `InitialMesh.bisect_edge`                                   -> `InitialMesh_bisect_edge`
  * `InitialMesh.refine`                                        -> `InitialMesh_refine` (fuel recursion; `_loop1 … _loop3`)
  * `InitialMesh.uniform_refine`                                -> `InitialMesh_uniform_refine` (+ `_loop1`)
  * `InitialMesh.refine_msh_bdr`                                -> `InitialMesh_refine_msh_bdr`, `_while` (fuel), `_loop1 … _loop3`
  * `UnitSquare()`, `PiSquare()`, `LShape()`                    -> the calls of `InitialMesh_init` with the literal lists
(`Element.diam/gamma/connected_to_vertex` and the `<Domain>BoundaryRefined` factories are translated by translate/initpotgen.py.)

Every statement of these bodies is translated in source order into a `do` block of the monad `Except String` with
re-binding (`let x := …`); nothing refers to the hand-written model `Stbem.Model.Quadtree` (the tie is
Props/QuadtreeTie.lean and the generated twins of harness/checks/C16.py).

OBJECT MODEL (trusted; written into the header of the generated file, see translate/quadtreegen_prelude.py):
  * `Vertex` object       = record `Vtx` (`x`, `y`, `idx`); identity = equality of records (`idx` differs); `xy`, `xy_np` = `(x, y)`;
                            `Vertex.__init__` is checked to store exactly these fields;
  * `Element` object      = record `Element` (`v0 … v3` = `vertices[0 … 3]`, `level`, `parent` = identity of the parent, `id` = its
                            position in `InitialMesh.elements`); a constructor call gets the identity the object is going to have
                            (`len(self.elements)`; `+ k` for the k-th entry of a list literal that is handed to
                            `self.elements.extend` -- checked);
  * `self` (InitialMesh)  = record threaded through the calls; mutating methods return `(self, result)`;
  * dict                  = insertions, newest first (`dictSet`, `dictHas`, `dictGet`);
  * set `leaf_elements`   = list in insertion order (`setAdd`, `setRemove`, `setUpdate`); `for elem in <set>` scans the list;
                            `list(self.leaf_elements)` = the INPUT `leaves_order`;
  * `isclose` = equality; `np.asarray(..).flatten()`, `np.array(..).reshape(-1, 1)` = identity on a coordinate pair;
    `v[i]`, `v[i, 0]` = `coord v i`; tuple comparison = `lexLe` / `lexGt`; `abs` = `absQ`; `int(not axis)` = `notAxis`;
  * recursion / `while True` = fuel; `self.refine(x)` from another method = `refineCall` (fuel `x.level + 1`);
  * `for` = `foldlM` of a `_loopN` function (N = position of the loop in the method, outer before inner); parameters = the
    free variables in the order in which the enclosing scope binds them; state = the variables bound before the loop and assigned
    in it (`self` first; one variable: itself, several: the tuple `st_`); `continue` = the state; `return e` in a loop = the state
    component `ret_` (first), further iterations are skipped;
  * assertion failure = `.error "assert:<tag>"` (ASSERT_TAGS); `IndexError` = `.error "index"`; `KeyError` = `.error "KeyError"`.

Supported Python fragment (anything else raises TranslationError = broken obligation; nothing is guessed or defaulted):
  statements : docstring; `self.f = [] | {} | set()`; `self.d[k] = v`; `x = e`; tuple unpacking of `element.vertices`, of a pair, of a
               loop target; `if c: a, b = b, a` and `if c: a, b = e1, e2 else: a, b = e3, e4` (pair `q_`); a non-final `if/else`
               that assigns (`r_` pair); a final `if [else]`; `if c: continue` / `if c: return x` followed by statements;
               `self.vertices.append`, `self.elements.append/extend`, `self.leaf_elements.add/remove/update`;
               `x = self.bisect_edge(..)`, `[x =] self.refine(..)`; `assert e` (known tag; `assert x` / `assert x is not None` for an
               optional local = `match`); `for pat in e:`; `while True:` as the last statement; `return e` (last statement, or
               inside the loops of a `while True`); the identity conversions `xy = np.asarray(xy, dtype=float).flatten()`,
               `v = np.array(v).reshape(-1, 1)`; the `if parent:` of `Element.__init__`;
  expressions: names, `None`, int literals, `+ - * /`, `x == y - 1` on levels, comparisons (chained), `in` / `not in` a dict,
               `is None`, `and`, `not`, `^` on comparisons, tuples, list literals, `len(self.vertices|self.elements)`,
               `isclose`, `abs`, `int(not x)`, `tuple(v.flatten())`, `enumerate`, `range(k)`, `list(self.leaf_elements)`,
               `Vertex(x=, y=, idx=)`, `Element(vertices=<4-sequence>, parent=)`, attributes `x y idx xy xy_np level edges
               vertices elements leaf_elements nbrs parent_edge __bisect_edge`, subscripts of points, of `vertices`, of dicts,
               `self.vertices[i]`, `self.elements[-1]`.
"""
import os
import sys

sys.path.insert(0, os.path.dirname(os.path.abspath(__file__)))
from panels import TranslationError  # noqa: E402,F401
from quadtreegen_stmt import generate_text, generate  # noqa: E402,F401

if __name__ == '__main__':
    sys.path.insert(0, os.path.join(os.path.dirname(os.path.abspath(__file__)), '..'))
    from harness.common import write_if_changed
    gen = os.path.join(os.path.dirname(os.path.abspath(__file__)), '..', 'lean', 'Stbem', 'Gen')
    if len(sys.argv) < 2:
        sys.exit('usage: quadtreegen.py <repo> [--print]')
    if '--print' in sys.argv:
        t, s = generate_text(sys.argv[1])
        print(t)
        print(s, file=sys.stderr)
    else:
        print(generate(sys.argv[1], gen, write_if_changed))
