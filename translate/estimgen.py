#!/venv/bin/python
"""Translator: `src/hierarchical_error_estimator.py` and `src/h_h2_error_estimator.py` (ast) -> lean/Stbem/Gen/EstimGen.lean
(Mathlib-free, executable, imports nothing).

Generated, statement by statement in the order of the source, from the bodies of
  * `Vertex.__init__` (src/mesh.py)                                    -> structure `Vertex`, `Vertex.init`
  * `DummyElement.__init__`, `DummyElement.uniform_refinement`         -> structure `DummyElement`, `.init`, `.uniform_refinement`
  * `HierarchicalErrorEstimator.__init__`, `.estimate`                 -> structure, `.init`, `.estimate`
  * `HH2ErrorEstimator.__init__`, `.estimate`                          -> structure, `.init`, `.estimate`
as Lean `do` blocks in the monad `Except String` (`for` -> `for`, `assert` -> `assertThat … "assert:<tag>"`, mutation of a
local -> `let mut` / `:=`, an operation that can raise -> `let tN ← …` in evaluation order, `print` -> nothing).

NOT translated but bound (trusted; written into the header of the generated file):
  * the object model: record classes, object identity of `DummyElement` (allocation counter `heap`, field `oid`), elements
    handed in by the caller as records read through `.vertices` / `.gamma_space` only;
  * the leaves `self.SL.bilform_matrix`, `self.M0.linform_vector`, `self.g`, `np.linalg.solve`, `np.sqrt`: parameters;
  * the Python / NumPy prelude (translate/estimgen_prelude.py), executed against Python / NumPy on every run.
The parameter types of the translated functions are declared here (`PARAM_TYPES`); the parameter LISTS are read from the
source and must agree.  Literal tables of integers become named constants (`<function>_table<n>`), float literals the exact
rationals of their binary64 values.

Supported fragment (anything else raises TranslationError = broken obligation; nothing is guessed or defaulted):
  statements : docstring, `print(...)`, `x = e`, `a, b, c, d = l`, `self.a = e` (in `__init__`), `x += e`, `x -= e`, `l.append(e)`,
               `v[j] = e`, `assert e`, `for pat in e:`, `if/else`, `return e` (last statement), `t = time.time()` (dropped);
  expressions: names, int / float literals, `None`/`True`/`False` as arguments, `+ - * /`, `**n`, `@` (matrix-vector, vector-matrix,
               vector-vector), unary minus, comparisons, `and/or/not`, truth test of an optional attribute, tuples, list literals,
               `l[i]`, `tup[k]`, `d[k]`, attributes of records, `.T` of a 1-D array, `len`, `abs`, `float`, `max`, `min`,
               `enumerate`, `zip`, list comprehensions, the position map `{k: v for v, k in enumerate(l)}`, constructor calls
               with positional / keyword arguments, `Class.staticmethod(...)`, `np.zeros/array/repeat/sqrt`, `np.linalg.solve`,
               calls of the leaves.
"""
import ast
import os
import sys
import warnings

sys.path.insert(0, os.path.dirname(os.path.abspath(__file__)))

from estimgen_prelude import HEADER, LEAVES, PRELUDE  # noqa: E402
from estimgen_stmt import Fn  # noqa: E402
from estimgen_expr import Var  # noqa: E402
from estimgen_types import (BOOL, ELEM, ELEMS, GAMMA, GFUN, INT, M0, RAT, SL, VEC, VERTS, TOpt, TranslationError, lean_rat,  # noqa: E402
                            lean_type, mentions_gamma, paren)

FILES = {'hier': os.path.join('src', 'hierarchical_error_estimator.py'), 'hh2': os.path.join('src', 'h_h2_error_estimator.py'),
         'mesh': os.path.join('src', 'mesh.py'), 'sl': os.path.join('src', 'single_layer.py'),
         'ip': os.path.join('src', 'initial_potential.py')}

# declared parameter types (Python is untyped); `None`: the parameter must not be used
PARAM_TYPES = {
    'Vertex.__init__': [('t', RAT), ('x', RAT), ('idx', INT)],
    'DummyElement.__init__': [('vertices', VERTS), ('gamma_space', GAMMA)],
    'DummyElement.uniform_refinement': [('elems', ELEMS)],
    'HierarchicalErrorEstimator.__init__': [('SL', SL), ('M0', TOpt(M0)), ('g', TOpt(GFUN))],
    'HierarchicalErrorEstimator.estimate': [('elems', ELEMS), ('Phi', VEC), ('problem', None)],
    'HH2ErrorEstimator.__init__': [('SL', SL), ('M0', TOpt(M0)), ('g', TOpt(GFUN)), ('use_mp', BOOL)],
    'HH2ErrorEstimator.estimate': [('elems', ELEMS), ('Phi', VEC), ('problem', None)],
}
SKIPPED_METHODS = {'__repr__'}     # no effect on any value
IDENTITY_CLASSES = {'DummyElement'}
INPUT_READABLE = {'DummyElement': {'vertices', 'gamma_space'}}


class Stats:
    def __init__(self):
        self.n = {}

    def bump(self, key, k=1):
        self.n[key] = self.n.get(key, 0) + k


class ClassInfo:
    def __init__(self, name, node):
        self.name, self.node = name, node
        self.fields, self.init_params = [], []
        self.effectful = self.generic = self.translated = False
        self.identity = name in IDENTITY_CLASSES
        self.readable = INPUT_READABLE.get(name)


class FnInfo:
    def __init__(self, params, ret, allocates, uses_np, uses_res, returns_heap):
        self.params, self.ret, self.allocates, self.uses_np, self.uses_res = params, ret, allocates, uses_np, uses_res
        self.returns_heap = returns_heap


def parse(repo, key):
    path = os.path.join(repo, FILES[key])
    text = open(path).read()
    with warnings.catch_warnings():
        warnings.simplefilter('ignore')
        return text, ast.parse(text)


class Module:
    def __init__(self, repo):
        self.repo = repo
        self.stats = Stats()
        self.consts = {}
        self.classes = {}
        self.functions = {}
        self.tables = []      # (name, rows, source text, line)
        self.imports = set()
        self.text = ''
        self.out = []

    def seg(self, node):
        s = ast.get_source_segment(self.text, node) if hasattr(node, 'lineno') else None
        return ' '.join((s or ast.unparse(node)).split())

    def table(self, fname, rows, text, lineno):
        name = '%s_table%d' % (fname, 1 + sum(1 for t in self.tables if t[0].startswith(fname + '_table')))
        self.tables.append((name, rows, text, lineno))
        self.stats.bump('literal_tables')
        self.out += ['/-- the literal `%s` (line %d) -/' % (text, lineno),
                     'def %s : List (List Int) :=' % name,
                     '  [' + ', '.join('[' + ', '.join(str(v) for v in r) + ']' for r in rows) + ']', '']
        return name

    # ---- module-level shape ----------------------------------------------------------------------------------------
    def load(self, key, want_imports, want_classes):
        self.text, tree = parse(self.repo, key)
        self.imports = set()
        classes = {}
        for n in tree.body:
            if isinstance(n, ast.Expr) and isinstance(n.value, ast.Constant) and isinstance(n.value.value, str):
                continue
            if isinstance(n, (ast.Import, ast.ImportFrom)):
                txt = ast.unparse(n)
                if txt not in want_imports:
                    raise TranslationError('%s: unexpected import `%s`' % (FILES[key], txt))
                self.imports.add(want_imports[txt])
                continue
            if isinstance(n, ast.ClassDef) and n.name in want_classes and n.name not in classes:
                if n.bases or n.keywords or n.decorator_list:
                    raise TranslationError('class %s: base classes / decorators are not supported' % n.name)
                classes[n.name] = n
                continue
            raise TranslationError('%s line %d: unsupported module-level statement `%s`' % (FILES[key], n.lineno,
                                                                                       ast.unparse(n)[:80]))
        for c in want_classes:
            if c not in classes:
                raise TranslationError('%s: class %s not found' % (FILES[key], c))
        for n in ast.walk(tree):
            if isinstance(n, ast.Call) and isinstance(n.func, ast.Name) and n.func.id in ('setattr', 'delattr', 'exec', 'eval'):
                raise TranslationError('%s uses %s' % (FILES[key], n.func.id))
            if isinstance(n, (ast.Global, ast.Nonlocal, ast.Lambda, ast.Try, ast.While, ast.With, ast.Yield, ast.YieldFrom)):
                raise TranslationError('%s line %d: unsupported construct %s' % (FILES[key], n.lineno, type(n).__name__))
        return classes

    def methods(self, cnode, wanted, optional=()):
        found = {}
        for n in cnode.body:
            if isinstance(n, ast.Expr) and isinstance(n.value, ast.Constant) and isinstance(n.value.value, str):
                continue
            if isinstance(n, ast.FunctionDef):
                if n.name in ('__eq__', '__hash__', '__bool__', '__len__', '__getattr__', '__getattribute__', '__setattr__'):
                    raise TranslationError('class %s defines %s' % (cnode.name, n.name))
                if n.name in SKIPPED_METHODS or n.name in optional:
                    self.stats.bump('methods_without_effect_on_values')
                    continue
                if n.name not in wanted or n.name in found:
                    raise TranslationError('class %s: method %s has no declared parameter types' % (cnode.name, n.name))
                found[n.name] = n
                continue
            raise TranslationError('class %s line %d: unsupported class-level statement `%s`' %
                                   (cnode.name, n.lineno, ast.unparse(n)[:80]))
        for w in wanted:
            if w not in found:
                raise TranslationError('method %s.%s not found' % (cnode.name, w))
        return found

    def params(self, qname, fn, static=False):
        """the parameter list of the source against the declared types -> [(name, type, default code or None)]"""
        a = fn.args
        if a.vararg or a.kwarg or a.kwonlyargs or a.posonlyargs:
            raise TranslationError('%s: unsupported parameter kinds' % qname)
        decos = [ast.unparse(d) for d in fn.decorator_list]
        if decos != (['staticmethod'] if static else []):
            raise TranslationError('%s: decorators %s' % (qname, decos))
        names = [x.arg for x in a.args]
        if not static:
            if not names or names[0] != 'self':
                raise TranslationError('%s: first parameter is not self' % qname)
            names = names[1:]
        decl = PARAM_TYPES[qname]
        if names != [d[0] for d in decl]:
            raise TranslationError('%s: parameters %s, declared %s' % (qname, names, [d[0] for d in decl]))
        defaults = [None] * (len(names) - len(a.defaults)) + list(a.defaults)
        out = []
        for (n, t), d in zip(decl, defaults):
            dc = None
            if d is not None:
                if isinstance(d, ast.Constant) and d.value is None and (t is None or (isinstance(t, tuple) and t[0] == 'opt')):
                    dc = 'none'
                elif isinstance(d, ast.Constant) and isinstance(d.value, bool) and t == BOOL:
                    dc = 'true' if d.value else 'false'
                else:
                    raise TranslationError('%s: unsupported default of %s' % (qname, n))
            out.append((n, t, dc))
        return out

    # ---- classes ---------------------------------------------------------------------------------------------------
    def record_class(self, cname, cnode, init):
        ci = ClassInfo(cname, cnode)
        self.classes[cname] = ci
        qname = cname + '.__init__'
        ps = self.params(qname, init)
        ci.init_params = [p for p in ps if p[1] is not None]
        fn = Fn(self, qname, self_cls=ci, in_init={})
        env = {n: Var(n, t, readonly=True) for n, t, _ in ci.init_params}
        for n in env:
            fn.name_ok(init, n)
        for st in init.body:
            if isinstance(st, ast.Expr) and isinstance(st.value, ast.Constant):
                continue
            if not (isinstance(st, ast.Assign) and len(st.targets) == 1 and isinstance(st.targets[0], ast.Attribute)
                    and isinstance(st.targets[0].value, ast.Name) and st.targets[0].value.id == 'self'):
                raise TranslationError('%s line %d: only `self.<attr> = <expr>` is supported: `%s`' %
                                       (qname, st.lineno, ast.unparse(st)[:80]))
            fn.stmt(st, env, 2)
        fn.finish_pending()
        ci.fields = [(a, v.typ) for a, v in fn.in_init.items()]
        ci.effectful = any('←' in l for l in fn.lines)
        ci.generic = any(mentions_gamma(t, {k: c for k, c in self.classes.items() if k != cname} | {cname: _NG}) for _, t in ci.fields)
        if fn.allocates or fn.uses_np:
            raise TranslationError('%s allocates objects / calls NumPy externals' % qname)
        lt = lambda t: lean_type(t, self.classes)  # noqa: E731
        g = ' (Γ : Type)' if ci.generic else ''
        gi = '{Γ : Type} ' if ci.generic else ''
        res = cname + (' Γ' if ci.generic else '')
        self.out.append('/-- the data of a `%s` object%s -/' % (cname, ' (`oid`: its identity, see the header)' if ci.identity else ''))
        self.out.append('structure %s%s where' % (cname, g))
        if ci.identity:
            self.out.append('  oid : Nat')
        for a, t in ci.fields:
            self.out.append('  %s : %s' % (a, lt(t)))
        self.out.append('')
        sig = ''.join(' (%s : %s)' % (n, lt(t)) for n, t, _ in ci.init_params)
        oid = ' (oid : Nat)' if ci.identity else ''
        rec = '{ %s }' % ', '.join((['oid := oid'] if ci.identity else []) + ['%s := self_%s' % (a, a) for a, _ in ci.fields])
        doc = '/-- `%s.__init__(%s)`%s -/' % (cname, ', '.join(p[0] for p in ps),
                                             '; `oid`: the identity of the new object' if ci.identity else '')
        self.out.append(doc)
        if ci.effectful:
            self.out.append('def %s.init %s%s%s : Except String %s := do' % (cname, gi, oid.strip() + ' ' if oid else '', sig.strip(), paren(res)))
            self.out += fn.lines
            self.out.append('  return %s' % rec)
        else:
            self.out.append('def %s.init %s%s%s : %s :=' % (cname, gi, oid.strip() + ' ' if oid else '', sig.strip(), res))
            self.out += fn.lines
            self.out.append('  %s' % rec)
        self.out.append('')
        ci.translated = True
        self.stats.bump('classes')
        self.stats.bump('functions')
        return ci

    def method(self, cname, fnode, static=False):
        ci = self.classes[cname]
        qname = '%s.%s' % (cname, fnode.name)
        ps = self.params(qname, fnode, static)
        fn = Fn(self, qname, self_cls=None if static else ci)
        env = {}
        for n, t, _ in ps:
            if t is None:
                continue
            fn.name_ok(fnode, n)
            env[n] = Var(n, t, readonly=True)
            if t == ELEMS:
                env[n].from_input = True
        for n in ast.walk(fnode):
            if isinstance(n, ast.Name) and any(n.id == p[0] and p[1] is None for p in ps):
                raise TranslationError('%s: the parameter %s is used' % (qname, n.id))
        n_out = len(self.out)
        fn.block(fnode.body, env, 2, top=True)
        if not fn.returned:
            raise TranslationError('%s: the body does not end in `return <value>`' % qname)
        fn.finish_pending()
        returns_heap = fn.allocates and _has_identity(fn.ret, self.classes)
        ret_t = lean_type(fn.ret, self.classes)
        if returns_heap:
            ret_t = '(%s × Nat)' % ret_t
        sig = []
        types = [t for _, t, _ in ps if t is not None] + [fn.ret] + ([('rec', cname)] if not static else [])
        if any(mentions_gamma(t, self.classes) for t in types):
            sig.append('{Γ : Type}')
        if fn.uses_res:
            sig.append('{ρ : Type}')
        if fn.uses_np:
            sig.append('(np : NumPyExt %s)' % ('ρ' if fn.uses_res else 'Unit'))
        if not static:
            sig.append('(self : %s)' % lean_type(('rec', cname), self.classes))
        if fn.allocates:
            sig.append('(heap : Nat)')
        sig += ['(%s : %s)' % (n, lean_type(t, self.classes)) for n, t, _ in ps if t is not None]
        head = ['/-- `%s(%s)`%s%s -/' % (qname, ', '.join(p[0] for p in ps if p[1] is not None),
                                        '; `heap`: the allocation counter' + (' (returned with the result)' if returns_heap else '')
                                        if fn.allocates else '',
                                        '; `np`: the NumPy externals' if fn.uses_np else ''),
                'def %s %s : Except String %s := do' % (qname, ' '.join(sig), paren(ret_t))]
        body = (['  let mut heap : Nat := heap'] if fn.allocates else []) + fn.lines
        body.append('  return %s' % ('(%s, heap)' % fn.ret_code if returns_heap else fn.ret_code))
        # literal tables registered while translating were appended to self.out after n_out: they precede the function
        self.out += head + body + ['']
        self.functions[qname] = FnInfo([(n, t) for n, t, _ in ps if t is not None], fn.ret, fn.allocates, fn.uses_np, fn.uses_res,
                                       returns_heap)
        self.stats.bump('functions')
        return qname


class _NGc:
    generic = False


_NG = _NGc()


def _has_identity(t, classes):
    if isinstance(t, tuple) and t[0] == 'rec':
        return classes[t[1]].identity
    if isinstance(t, tuple) and t[0] in ('list', 'opt'):
        return _has_identity(t[1], classes)
    if isinstance(t, tuple) and t[0] == 'tuple':
        return any(_has_identity(x, classes) for x in t[1])
    return False


def check_leaves(repo):
    """the leaves are parameters; the binding relies on their parameter lists and on the truth value of the objects"""
    for key, cls, meth, want in (('sl', 'SingleLayerOperator', 'bilform_matrix', ['self', 'elems_test', 'elems_trial', 'use_mp']),
                                 ('ip', 'InitialOperator', 'linform_vector', ['self', 'elems', 'use_mp'])):
        _, tree = parse(repo, key)
        cs = [n for n in tree.body if isinstance(n, ast.ClassDef) and n.name == cls]
        if len(cs) != 1:
            raise TranslationError('%s: class %s not found' % (FILES[key], cls))
        ms = [n for n in cs[0].body if isinstance(n, ast.FunctionDef)]
        if any(m.name in ('__bool__', '__len__') for m in ms):
            raise TranslationError('%s defines __bool__ / __len__: `if self.M0:` is no longer a test for None' % cls)
        f = [m for m in ms if m.name == meth]
        if len(f) != 1 or [a.arg for a in f[0].args.args] != want or f[0].args.vararg or f[0].args.kwarg:
            raise TranslationError('%s.%s: parameter list changed' % (cls, meth))


def generate_text(repo):
    mod = Module(repo)
    check_leaves(repo)
    # --- Vertex (src/mesh.py): only the constructor
    mod.text, tree = parse(repo, 'mesh')
    vs = [n for n in tree.body if isinstance(n, ast.ClassDef) and n.name == 'Vertex']
    if len(vs) != 1 or vs[0].bases:
        raise TranslationError('src/mesh.py: class Vertex not found')
    inits = [n for n in vs[0].body if isinstance(n, ast.FunctionDef) and n.name == '__init__']
    if len(inits) != 1:
        raise TranslationError('Vertex.__init__ not found')
    mod.out.append('/-! ### `Vertex` of src/mesh.py (constructor only) -/')
    mod.record_class('Vertex', vs[0], inits[0])
    # --- src/hierarchical_error_estimator.py
    cl = mod.load('hier', {'import numpy as np': 'np', 'from .mesh import Vertex': 'Vertex'},
                  ['DummyElement', 'HierarchicalErrorEstimator'])
    mod.out.append('/-! ### src/hierarchical_error_estimator.py, statement by statement -/')
    ms = mod.methods(cl['DummyElement'], ['__init__', 'uniform_refinement'])
    mod.record_class('DummyElement', cl['DummyElement'], ms['__init__'])
    mod.method('DummyElement', ms['uniform_refinement'], static=True)
    mod.out += LEAVES.splitlines() + ['']
    ms = mod.methods(cl['HierarchicalErrorEstimator'], ['__init__', 'estimate'])
    mod.record_class('HierarchicalErrorEstimator', cl['HierarchicalErrorEstimator'], ms['__init__'])
    mod.method('HierarchicalErrorEstimator', ms['estimate'])
    # --- src/h_h2_error_estimator.py
    cl = mod.load('hh2', {'import time': 'time', 'import numpy as np': 'np',
                          'from .hierarchical_error_estimator import DummyElement': 'DummyElement'}, ['HH2ErrorEstimator'])
    mod.out.append('/-! ### src/h_h2_error_estimator.py, statement by statement -/')
    ms = mod.methods(cl['HH2ErrorEstimator'], ['__init__', 'estimate'])
    mod.record_class('HH2ErrorEstimator', cl['HH2ErrorEstimator'], ms['__init__'])
    mod.method('HH2ErrorEstimator', ms['estimate'])
    out = [HEADER, '/-! ### float literals of the source (exact values of the binary64 numbers Python computes with) -/']
    for name in sorted(mod.consts):
        fr, what = mod.consts[name]
        out += ['/-- %s -/' % what, 'def %s : Rat := %s' % (name, lean_rat(fr))]
    out += ['', PRELUDE] + mod.out + ['end Stbem.Gen.EstimGen', '']
    st = dict(mod.stats.n)
    st['_tables'] = [(t[0], t[1]) for t in mod.tables]
    return '\n'.join(out), st


# what the driver (Driver/EstimGenCmd.lean) and Props/EstimTie.lean refer to: the file is only written when all of it is there
# with these signatures, so that a change of the sources can break the obligations of C20 but not the shared driver build
REQUIRED = [
    'def DummyElement.init {Γ : Type} (oid : Nat) (vertices : List Vertex) (gamma_space : Γ) : Except String (DummyElement Γ) := do',
    'def DummyElement.uniform_refinement {Γ : Type} (heap : Nat) (elems : List (DummyElement Γ)) : '
    'Except String (List (List (DummyElement Γ)) × Nat) := do',
    'def HierarchicalErrorEstimator.init {Γ : Type} (SL : SingleLayerOperator Γ) (M0 : Option (InitialOperator Γ)) '
    '(g : Option (List (DummyElement Γ) → List Rat)) : HierarchicalErrorEstimator Γ :=',
    'def HierarchicalErrorEstimator.estimate {Γ : Type} (self : HierarchicalErrorEstimator Γ) (heap : Nat) '
    '(elems : List (DummyElement Γ)) (Phi : List Rat) : Except String (List (List Rat)) := do',
    'def HH2ErrorEstimator.init {Γ : Type} (SL : SingleLayerOperator Γ) (M0 : Option (InitialOperator Γ)) '
    '(g : Option (List (DummyElement Γ) → List Rat)) (use_mp : Bool) : HH2ErrorEstimator Γ :=',
    'def HH2ErrorEstimator.estimate {Γ : Type} {ρ : Type} (np : NumPyExt ρ) (self : HH2ErrorEstimator Γ) (heap : Nat) '
    '(elems : List (DummyElement Γ)) (Phi : List Rat) : Except String ρ := do',
    'def HierarchicalErrorEstimator.estimate_table1 : List (List Int) :=',
]
REQUIRED_FIELDS = ['  time_interval : (Rat × Rat)', '  space_interval : (Rat × Rat)', '  vertices : List Vertex', '  gamma_space : Γ']


def check_required(text):
    for r in REQUIRED + REQUIRED_FIELDS:
        if '\n' + r + '\n' not in text:
            raise TranslationError('the translated sources no longer provide `%s` (signature / attribute changed)' % r.strip()[:120])


def generate(repo, gen_dir, write, compiles=None):
    """`compiles(text) -> error message or None`: optional test compilation of a CHANGED file before it is written"""
    text, stats = generate_text(repo)
    check_required(text)
    path = os.path.join(gen_dir, 'EstimGen.lean')
    try:
        same = open(path).read() == text
    except FileNotFoundError:
        same = False
    if not same and compiles is not None:
        msg = compiles(text)
        if msg:
            raise TranslationError('the generated Lean text does not compile (the previous Gen/EstimGen.lean is kept):\n' + msg)
    write(path, text)
    stats['changed'] = int(not same)
    return stats


if __name__ == '__main__':
    sys.path.insert(0, os.path.join(os.path.dirname(os.path.abspath(__file__)), '..'))
    from harness.common import write_if_changed
    gen = os.path.join(os.path.dirname(os.path.abspath(__file__)), '..', 'lean', 'Stbem', 'Gen')
    if len(sys.argv) < 2:
        sys.exit('usage: estimgen.py <repo> [--print]')
    if '--print' in sys.argv:
        t, s = generate_text(sys.argv[1])
        print(t)
        print(s, file=sys.stderr)
    else:
        print(generate(sys.argv[1], gen, write_if_changed))
