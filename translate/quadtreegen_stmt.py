"""Statement walker and function emission of translate/quadtreegen.py (see there)."""
import ast
import os

from quadtreegen_expr import (DICTS, MUTATING, PT, SELF_LISTS, ASSERT_TAGS, Fn, Stats, TranslationError, is_atom, opt, par)
from quadtreegen_prelude import HEADER, REFINE_CALL

SRC_FILE = os.path.join('src', 'initial_mesh.py')

# typing of the optional locals (`x = None` carries no type)
OPTIONAL_LOCALS = {('InitialMesh.vertex_from_coords', 'result'): 'Vtx', ('InitialMesh.refine_msh_bdr', 'axis'): 'Nat',
                   ('InitialMesh.refine_msh_bdr', 'parent'): 'Element'}


def split_prod(ty):
    """top-level components of a (right-nested) product type"""
    if ty == 'Edge':
        return ['Vtx', 'Vtx']
    parts, depth, cur = [], 0, ''
    i = 0
    while i < len(ty):
        ch = ty[i]
        if ch == '(':
            depth += 1
        elif ch == ')':
            depth -= 1
        if depth == 0 and ty.startswith(' × ', i):
            parts.append(cur)
            cur = ''
            i += 3
            continue
        cur += ch
        i += 1
    parts.append(cur)
    return [p[1:-1] if p.startswith('(') and p.endswith(')') else p for p in parts]


def proj(i, n):
    return '.2' * i + ('.1' if i < n - 1 else '')


def tyarg(t):
    return t if ' ' not in t else '(' + t + ')'


def prod_ty(ts):
    return ' × '.join(t if ' × ' not in t else '(' + t + ')' for t in ts)


def is_self_attr(node, attrs=None):
    return isinstance(node, ast.Attribute) and isinstance(node.value, ast.Name) and node.value.id == 'self' and \
        (attrs is None or node.attr in attrs)


def norm_attr(a):
    return 'bisect_edge' if a in ('__bisect_edge', '_InitialMesh__bisect_edge') else a


def self_method_call(node):
    """name of the method for `self.m(...)`"""
    if isinstance(node, ast.Call) and is_self_attr(node.func):
        return node.func.attr
    return None


def mutates_self(stmts):
    """does the statement list change the InitialMesh"""
    for st in stmts:
        for n in ast.walk(st):
            if isinstance(n, (ast.Assign, ast.AugAssign)):
                for t in (n.targets if isinstance(n, ast.Assign) else [n.target]):
                    if is_self_attr(t) or isinstance(t, ast.Subscript) and is_self_attr(t.value):
                        return True
            if isinstance(n, ast.Call):
                if self_method_call(n) in MUTATING:
                    return True
                f = n.func
                if isinstance(f, ast.Attribute) and is_self_attr(f.value) and f.attr in ('append', 'extend', 'add', 'remove', 'update', 'pop', 'clear'):
                    return True
    return False


def assigned_names(stmts):
    out = []

    def tgt(t):
        if isinstance(t, ast.Name):
            if t.id not in out:
                out.append(t.id)
        elif isinstance(t, (ast.Tuple, ast.List)):
            for e in t.elts:
                tgt(e)
    for st in stmts:
        for n in ast.walk(st):
            if isinstance(n, ast.Assign):
                for t in n.targets:
                    tgt(t)
            elif isinstance(n, (ast.AugAssign, ast.AnnAssign)):
                tgt(n.target)
            elif isinstance(n, ast.For):
                tgt(n.target)
    return out


def loaded_names(stmts):
    out = []
    for st in stmts:
        for n in ast.walk(st):
            if isinstance(n, ast.Name) and isinstance(n.ctx, ast.Load) and n.id not in out:
                out.append(n.id)
    return out


def has_node(stmts, cls):
    return any(isinstance(n, cls) for st in stmts for n in ast.walk(st))


class Cx:
    """what the end of a block / `continue` / `return` mean where we are"""
    def __init__(self, tail, on_continue=None, on_return=None, in_loop=False):
        self.tail, self.on_continue, self.on_return, self.in_loop = tail, on_continue, on_return, in_loop
        self.state, self.ret_ty, self.ret_line = None, None, None


def is_identity_conversion(fn, st):
    """`xy = np.asarray(xy, dtype=float).flatten()` / `v = np.array(v).reshape(-1, 1)` for a point"""
    if not (isinstance(st, ast.Assign) and len(st.targets) == 1 and isinstance(st.targets[0], ast.Name)):
        return False
    name = st.targets[0].id
    src = ast.unparse(st.value)
    if src in ('np.asarray(%s, dtype=float).flatten()' % name, 'np.array(%s).reshape(-1, 1)' % name):
        if fn.env.get(name) != PT:
            fn.err(st, 'array conversion of something that is not a point')
        return True
    return False


def simple_stmt(fn, st, ind):
    """lines of a statement without control flow, or None"""
    pre = []
    if isinstance(st, ast.Expr) and isinstance(st.value, ast.Constant) and isinstance(st.value.value, str):
        return []
    if is_identity_conversion(fn, st):
        return []
    if isinstance(st, ast.Assign) and len(st.targets) == 1:
        t, v = st.targets[0], st.value
        # self.f = [] / {} / set()
        if is_self_attr(t):
            a = norm_attr(t.attr)
            empty = isinstance(v, (ast.List, ast.Dict)) and not (getattr(v, 'elts', None) or getattr(v, 'keys', None)) or \
                ast.unparse(v) == 'set()'
            if not empty or a not in DICTS and a not in SELF_LISTS:
                fn.err(st, 'assignment to an attribute of self outside the fragment')
            want = dict if a in DICTS else (list if a != 'leaf_elements' else set)
            got = dict if isinstance(v, ast.Dict) else (list if isinstance(v, ast.List) else set)
            if want is not got:
                fn.err(st, '`self.%s` must be initialised with an empty %s' % (a, want.__name__))
            return ['%slet self := { self with %s := [] }' % (ind, a)]
        # self.d[k] = v
        if isinstance(t, ast.Subscript) and is_self_attr(t.value):
            d, dt = fn.self_attr(t.value)
            if not dt.startswith('Dict '):
                fn.err(st, 'item assignment to something that is not a dict')
            kt, vt = dt[5:].split('|')
            k, kty = fn.ex(t.slice, pre, ind)
            val, vty = fn.ex(v, pre, ind)
            if kty != kt or vty != vt:
                fn.err(st, 'dict %s -> %s assigned %s -> %s' % (kt, vt, kty, vty))
            fn.stats.bump('dict_writes')
            return pre + ['%slet self := { self with %s := dictSet %s %s %s }' % (ind, d[5:], d, k, par(val))]
        # x = self.m(..)
        m = self_method_call(v)
        if m is not None and isinstance(t, ast.Name):
            return method_call(fn, st, v, t.id, ind)
        if isinstance(t, ast.Name):
            key = (fn.qual, t.id)
            if isinstance(v, ast.Constant) and v.value is None:
                if key not in OPTIONAL_LOCALS:
                    fn.err(st, 'optional local without a declared type')
                fn.bind(t.id, 'Option ' + OPTIONAL_LOCALS[key], st)
                return ['%slet %s : Option %s := none' % (ind, t.id, OPTIONAL_LOCALS[key])]
            if isinstance(v, ast.List) and v.elts and all(isinstance(e, ast.Call) and isinstance(e.func, ast.Name) and e.func.id == 'Element'
                                                          for e in v.elts):
                cs = [fn.element_ctor(e, pre, ind, k)[0] for k, e in enumerate(v.elts)]
                fn.children_ids = t.id
                fn.bind(t.id, 'List Element', st)
                return pre + ['%slet %s : List Element := [%s]' % (ind, t.id, ', '.join(cs))]
            code, ty = fn.ex(v, pre, ind)
            old = fn.env.get(t.id)
            if old is not None and opt(old) and ty == old[7:]:
                return pre + ['%slet %s := some %s' % (ind, t.id, par(code))]
            if ty == 'VtxLit':
                fn.bind(t.id, 'Vtx', st)
                return pre + ['%slet %s : Vtx := %s' % (ind, t.id, code)]
            if ty in ('Num', 'None', 'Prop') or ty.startswith('Dict '):
                fn.err(st, 'assignment of a value of type %s' % ty)
            if old is not None and old != ty:
                fn.err(st, 'the local changes its type from %s to %s' % (old, ty))
            fn.bind(t.id, ty, st)
            if code == 'leaves_order':
                return pre + ['%slet %s : %s := %s' % (ind, t.id, ty, code)]
            return pre + ['%slet %s := %s' % (ind, t.id, code)]
        if isinstance(t, ast.Tuple) and all(isinstance(e, ast.Name) for e in t.elts):
            names = [e.id for e in t.elts]
            if isinstance(v, ast.Attribute) and v.attr == 'vertices' and isinstance(v.value, ast.Name) and fn.env.get(v.value.id) == 'Element':
                if len(names) != 4:
                    fn.err(st, 'an element has four vertices')
                for n in names:
                    fn.bind(n, 'Vtx', st)
                return ['%slet %s := %s.v%d' % (ind, n, v.value.id, k) for k, n in enumerate(names)]
            if isinstance(v, ast.Tuple):
                fn.err(st, 'parallel assignment outside an `if` swap')
            code, ty = fn.ex(v, pre, ind)
            comps = split_prod(ty)
            if len(comps) != len(names) or not is_atom(code):
                fn.err(st, 'cannot unpack a value of type %s into %d names' % (ty, len(names)))
            for n, c in zip(names, comps):
                fn.bind(n, c, st)
            return pre + ['%slet %s := %s%s' % (ind, n, code, proj(k, len(names))) for k, n in enumerate(names)]
        fn.err(st, 'assignment outside the fragment')
    if isinstance(st, ast.Expr) and isinstance(st.value, ast.Call):
        c = st.value
        m = self_method_call(c)
        if m is not None:
            return method_call(fn, st, c, None, ind)
        f = c.func
        if isinstance(f, ast.Attribute) and is_self_attr(f.value) and len(c.args) == 1 and not c.keywords:
            lst, op = norm_attr(f.value.attr), f.attr
            if lst in ('vertices', 'elements') and op == 'append':
                a, ta = fn.ex(c.args[0], pre, ind)
                if ta == 'VtxLit':
                    a, ta = '(%s : Vtx)' % a, 'Vtx'
                if ta != SELF_LISTS[lst]:
                    fn.err(st, 'append of a %s to self.%s' % (ta, lst))
                fn.stats.bump('list_appends')
                return pre + ['%slet self := { self with %s := self.%s ++ [%s] }' % (ind, lst, lst, a)]
            if lst == 'elements' and op == 'extend':
                a, ta = fn.ex(c.args[0], pre, ind)
                if ta != 'List Element' or fn.children_ids != a:
                    fn.err(st, 'self.elements.extend(..) must receive the list of the elements constructed just before')
                fn.children_ids = None
                fn.stats.bump('list_appends')
                return pre + ['%slet self := { self with elements := self.elements ++ %s }' % (ind, a)]
            if lst == 'leaf_elements' and op in ('add', 'remove', 'update'):
                a, ta = fn.ex(c.args[0], pre, ind)
                if ta != ('List Element' if op == 'update' else 'Element'):
                    fn.err(st, 'self.leaf_elements.%s of a %s' % (op, ta))
                fn.stats.bump('set_ops')
                if op == 'remove':
                    t = fn.tmp(pre, ind, 'setRemove self.leaf_elements %s' % a)
                    return pre + ['%slet self := { self with leaf_elements := %s }' % (ind, t)]
                return pre + ['%slet self := { self with leaf_elements := %s self.leaf_elements %s }' %
                              (ind, 'setAdd' if op == 'add' else 'setUpdate', a)]
        fn.err(st, 'call statement outside the fragment')
    return None


def method_call(fn, st, call, target, ind):
    """`[x =] self.bisect_edge(a, b)` / `[x =] self.refine(e)`"""
    m = call.func.attr
    if call.keywords:
        fn.err(st, 'keyword arguments in a call of self.%s' % m)
    pre = []
    args = [fn.ex(a, pre, ind) for a in call.args]
    if fn.children_ids is not None:
        fn.err(st, 'a call between the construction of the children and self.elements.extend')
    if m == 'bisect_edge':
        if [t for _, t in args] != ['Vtx', 'Vtx']:
            fn.err(st, 'bisect_edge takes two vertices')
        callee, rty = 'InitialMesh_bisect_edge self', 'Vtx'
    elif m == 'refine':
        if [t for _, t in args] != ['Element']:
            fn.err(st, 'refine takes one element')
        fn.stats.bump('refine_calls')
        if fn.recursive:
            if not fn.in_loop_body:
                fn.err(st, 'recursive call outside the neighbour loop')
            fn.uses_rec = True
            callee = 'refine_ self'
        else:
            callee = 'refineCall self'
        rty = 'List Element'
    else:
        fn.err(st, 'call of a method outside the fragment')
    fn.r += 1
    r = 'r%d' % fn.r
    lines = pre + ['%slet %s ← %s %s' % (ind, r, callee, ' '.join(par(c) for c, _ in args)), '%slet self := %s.1' % (ind, r)]
    if target is not None:
        fn.bind(target, rty, st)
        lines.append('%slet %s := %s.2' % (ind, target, r))
    return lines


# ---- control flow ---------------------------------------------------------------------------------------------------
def block(fn, stmts, ind, cx):
    if not stmts:
        return cx.tail(ind)
    st, rest = stmts[0], stmts[1:]
    lines = simple_stmt(fn, st, ind) if isinstance(st, (ast.Assign, ast.Expr)) else None
    if lines is not None:
        return lines + block(fn, rest, ind, cx)
    if isinstance(st, ast.Assert):
        return assert_stmt(fn, st, rest, ind, cx)
    if isinstance(st, ast.If):
        return if_stmt(fn, st, rest, ind, cx)
    if isinstance(st, ast.For):
        return for_stmt(fn, st, rest, ind, cx)
    if isinstance(st, ast.While):
        return while_stmt(fn, st, rest, ind, cx)
    if isinstance(st, ast.Continue):
        if rest or cx.on_continue is None:
            fn.err(st, '`continue` must end a block of a loop body')
        fn.stats.bump('continues')
        return cx.on_continue(ind)
    if isinstance(st, ast.Return):
        if rest or cx.on_return is None or st.value is None:
            fn.err(st, '`return` outside the fragment')
        fn.stats.bump('returns')
        return cx.on_return(ind, st.value)
    fn.err(st, 'statement outside the fragment')


def assert_stmt(fn, st, rest, ind, cx):
    text = ast.unparse(st.test)
    key = (fn.qual, text)
    if key not in ASSERT_TAGS or st.msg is not None:
        fn.err(st, 'assertion without a tag (ASSERT_TAGS)')
    tag = ASSERT_TAGS[key]
    fn.stats.bump('asserts')
    t = st.test
    name = None
    if isinstance(t, ast.Name) and opt(fn.env.get(t.id, '')):
        name = t.id
    elif isinstance(t, ast.Compare) and len(t.ops) == 1 and isinstance(t.ops[0], ast.IsNot) and isinstance(t.left, ast.Name) and \
            isinstance(t.comparators[0], ast.Constant) and t.comparators[0].value is None and opt(fn.env.get(t.left.id, '')):
        name = t.left.id
    if name is not None:
        # the optional local is known to be a value from here on
        fn.env[name] = fn.env[name][7:]
        return ['%smatch %s with' % (ind, name), '%s| none => .error "assert:%s"' % (ind, tag), '%s| some %s =>' % (ind, name)] + \
            block(fn, rest, ind + '  ', cx)
    pre = []
    c = fn.cond(t, pre, ind)
    return pre + ['%sassertThat (%s) "assert:%s"' % (ind, c, tag)] + block(fn, rest, ind, cx)


def swap_shape(fn, st):
    """`if c: a, b = e1, e2 [else: a, b = e3, e4]` -> (names, then-values, else-values | None)"""
    def one(body):
        if len(body) == 1 and isinstance(body[0], ast.Assign) and len(body[0].targets) == 1 and isinstance(body[0].targets[0], ast.Tuple) and \
                isinstance(body[0].value, ast.Tuple) and len(body[0].value.elts) == 2 and len(body[0].targets[0].elts) == 2 and \
                all(isinstance(e, ast.Name) for e in body[0].targets[0].elts):
            return [e.id for e in body[0].targets[0].elts], body[0].value.elts
        return None
    a = one(st.body)
    if a is None:
        return None
    if not st.orelse:
        return a[0], a[1], None
    b = one(st.orelse)
    if b is None or b[0] != a[0]:
        return None
    return a[0], a[1], b[1]


def if_stmt(fn, st, rest, ind, cx):
    fn.stats.bump('branches')
    # `if parent:` of Element.__init__
    if fn.in_elem_init:
        if not (isinstance(st.test, ast.Name) and st.test.id == 'parent' and len(st.body) == 1 and len(st.orelse) == 1):
            fn.err(st, '`if` in Element.__init__ outside the fragment')
        vals = []
        for b, env_ty in ((st.body[0], 'Element'), (st.orelse[0], None)):
            if not (isinstance(b, ast.Assign) and is_self_attr(b.targets[0], {'level'})):
                fn.err(b, 'only `self.level = ..` is supported here')
            saved = dict(fn.env)
            if env_ty:
                fn.env['parent'] = env_ty
            pre = []
            c, t = fn.ex(b.value, pre, ind)
            fn.env = saved
            if pre or t not in ('Nat', 'Num'):
                fn.err(b, 'level must be a natural number')
            vals.append(c)
        fn.fields.add('level')
        return ['%slet level : Nat := match parent with' % ind, '%s  | some parent => %s' % (ind, vals[0]), '%s  | none => %s' % (ind, vals[1])] + \
            block(fn, rest, ind, cx)
    pre = []
    sw = swap_shape(fn, st)
    if sw is not None:
        names, tv, ev = sw
        c = fn.cond(st.test, pre, ind)
        t1 = [fn.ex(e, pre, ind) for e in tv]
        t2 = [fn.ex(e, pre, ind) for e in ev] if ev is not None else [(n, fn.env.get(n)) for n in names]
        if ev is None and any(n not in fn.env for n in names):
            fn.err(st, 'swap of unbound names')
        if t1[0][1] != t2[0][1] or t1[1][1] != t2[1][1] or pre:
            fn.err(st, 'the branches assign different types')
        tys = [t1[0][1], t1[1][1]]
        for n, t in zip(names, tys):
            fn.bind(n, t, st)
        return ['%slet q_ : %s := if %s then (%s, %s) else (%s, %s)' % (ind, prod_ty(tys), c, t1[0][0], t1[1][0], t2[0][0], t2[1][0]),
                '%slet %s := q_.1' % (ind, names[0]), '%slet %s := q_.2' % (ind, names[1])] + block(fn, rest, ind, cx)
    c = fn.cond(st.test, pre, ind)
    ends = st.body and isinstance(st.body[-1], (ast.Continue, ast.Return))
    if not rest or (ends and not st.orelse):
        saved = dict(fn.env)
        then = block(fn, st.body, ind + '  ', cx)
        fn.env = dict(saved)
        other = block(fn, (st.orelse if not rest else rest), ind + '  ', cx)
        return pre + ['%sif %s then' % (ind, c)] + then + ['%selse' % ind] + other
    # a non-final if/else that assigns: the pair `r_`
    names = (['self'] if mutates_self(st.body + st.orelse) else []) + [n for n in assigned_names(st.body + st.orelse)]
    if len(names) != 2 or has_node(st.body + st.orelse, (ast.Return, ast.Continue, ast.For, ast.While)):
        fn.err(st, 'a non-final `if` must assign exactly two variables (self counted) and contain no jumps')
    saved = dict(fn.env)
    out_tys = {}

    def branch(body):
        fn.env = dict(saved)

        def tail(i):
            for n in names:
                if n not in fn.env:
                    fn.err(st, 'a branch does not assign `%s`' % n)
                out_tys.setdefault(n, fn.env[n])
                if out_tys[n] != fn.env[n]:
                    fn.err(st, 'the branches give `%s` different types' % n)
            return ['%spure (%s, %s)' % (i, names[0], names[1])]
        return block(fn, body, ind + '    ', Cx(tail))
    then = branch(st.body)
    other = branch(st.orelse)
    fn.env = dict(saved)
    for n in names:
        fn.env[n] = out_tys[n]
    ty = prod_ty([out_tys[n] for n in names])
    return pre + ['%slet r_ ← (if %s then do' % (ind, c)] + then + ['%s  else do' % ind] + other[:-1] + \
        [other[-1] + ' : Except String (%s))' % ty, '%slet %s := r_.1' % (ind, names[0]), '%slet %s := r_.2' % (ind, names[1])] + \
        block(fn, rest, ind, cx)


def state_of(fn, body, with_ret):
    """state variables of a loop: `ret_` (if the body returns), `self` (if mutated), the assigned names bound before"""
    names = (['self'] if mutates_self(body) else []) + [n for n in fn.env if n != 'self' and n in assigned_names(body)]
    return (['ret_'] if with_ret else []) + names


def for_stmt(fn, st, rest, ind, cx):
    if st.orelse:
        fn.err(st, 'for/else')
    fn.stats.bump('for_loops')
    fn.loops += 1
    name = '%s_loop%d' % (fn.lean, fn.loops)
    pre = []
    it, ity = fn.ex(st.iter, pre, ind)
    if not ity.startswith('List '):
        fn.err(st, 'iteration over something that is not a list (type %s)' % ity)
    ety = ity[5:]
    ety = ety[1:-1] if ety.startswith('(') and ety.endswith(')') else ety
    with_ret = has_node(st.body, ast.Return)
    if with_ret and cx.ret_ty is None:
        fn.err(st, '`return` inside a loop outside a `while True`')
    state = state_of(fn, st.body, with_ret)
    if not state:
        fn.err(st, 'a loop without effect')
    saved = dict(fn.env)
    uses_rec_before, fn.uses_rec = fn.uses_rec, False
    in_loop_before, fn.in_loop_body = fn.in_loop_body, True
    # loop variable(s)
    head = []
    if isinstance(st.target, ast.Name):
        var = st.target.id
        fn.bind(var, ety, st)
    elif isinstance(st.target, ast.Tuple) and all(isinstance(e, ast.Name) for e in st.target.elts):
        var = 'p_'
        comps = split_prod(ety)
        if len(comps) < len(st.target.elts):
            fn.err(st, 'cannot unpack %s' % ety)
        n = len(st.target.elts)
        comps = comps[:n - 1] + [prod_ty(comps[n - 1:]) if len(comps) > n else comps[n - 1]]
        for k, (e, c) in enumerate(zip(st.target.elts, comps)):
            fn.bind(e.id, c, st)
            head.append('  let %s := p_%s' % (e.id, proj(k, n)))
    else:
        fn.err(st, 'loop target outside the fragment')
    ret_ty = cx.ret_ty
    sty = [('Option ' + ret_ty) if n == 'ret_' else saved[n] for n in state]
    tuple_state = len(state) > 1
    if tuple_state and (len(state) != 2 or state[0] != 'ret_'):
        fn.err(st, 'loop state outside the fragment: %s' % state)
    sname = 'st_' if tuple_state else state[0]
    stype = prod_ty(sty)
    # the body
    passthrough = tuple_state and cx.in_loop and cx.state == state
    inner_pass = tuple_state and len(st.body) == 1 and isinstance(st.body[0], ast.For)
    if tuple_state:
        pack = lambda i: ['%spure (none, %s)' % (i, state[1])]   # noqa: E731
        bcx = Cx(pack, on_continue=pack, on_return=None, in_loop=True)
        bcx.state, bcx.ret_ty = state, ret_ty

        def on_return(i, value):
            p = []
            c, t = fn.ex(value, p, i)
            if t != ret_ty or p:
                fn.err(value, 'the loop returns a %s' % t)
            return ['%spure (some %s, %s)' % (i, c, state[1])]
        bcx.on_return = on_return
        if inner_pass:
            body = for_stmt(fn, st.body[0], [], '    ', bcx)
        else:
            body = ['    let %s := st_.2' % state[1]] + block(fn, st.body, '    ', bcx)
        body = ['  if st_.1.isSome = true then', '    pure st_', '  else'] + body
    else:
        tl = lambda i: ['%spure %s' % (i, sname)]   # noqa: E731
        bcx = Cx(tl, on_continue=tl, on_return=None, in_loop=True)
        bcx.state, bcx.ret_ty = state, None
        body = block(fn, st.body, '  ', bcx)
    # parameters: free variables in the binding order of the enclosing scope
    used = loaded_names(st.body)
    params = [n for n in saved if n in used and n not in state and not (n == 'self' and 'self' in state)]
    if 'self' in used and 'self' not in state and 'self' in saved and 'self' not in params:
        params.insert(0, 'self')
    sig = ''.join(' (%s : %s)' % (n, saved[n]) for n in params)
    recp = ''
    if fn.uses_rec:
        recp = ' (refine_ : InitialMesh → Element → Except String (InitialMesh × List Element))'
    doc = '/-- body of the loop `for %s in %s` of `%s`%s -/' % (ast.unparse(st.target), ast.unparse(st.iter), fn.qual,
                                                               ('; state `st_` = (%s)' % ', '.join(state)) if tuple_state else '')
    fn.defs.append('\n'.join([doc, 'def %s%s%s\n    (%s : %s) (%s : %s) : Except String %s := do' %
                              (name, recp, sig, sname, stype, var, ety, tyarg(stype))] + head + body))
    rec_arg = (' (%s fuel)' % fn.lean) if fn.uses_rec else ''
    fn.uses_rec = uses_rec_before or False
    fn.in_loop_body = in_loop_before
    fn.env = saved
    callee = name + rec_arg + ''.join(' ' + n for n in params)
    fold = '%s.foldlM %s' % (par(it), par(callee))
    if passthrough:
        return pre + ['%slet st_ ← %s st_' % (ind, fold), '%spure st_' % ind]
    if not tuple_state:
        return pre + ['%slet %s ← %s %s' % (ind, sname, fold, sname)] + block(fn, rest, ind, cx)
    # a loop that may return, directly inside the `while True`
    lines = pre + ['%slet st_ ← %s (none, %s)' % (ind, fold, state[1]), '%smatch st_.1 with' % ind,
                   '%s| some ret_ => %s' % (ind, cx.ret_line('ret_')), '%s| none =>' % ind, '%s  let %s := st_.2' % (ind, state[1])]
    return lines + block(fn, rest, ind + '  ', cx)


def while_stmt(fn, st, rest, ind, cx):
    if rest or st.orelse or not (isinstance(st.test, ast.Constant) and st.test.value is True) or cx.in_loop or fn.has_while:
        fn.err(st, 'only one `while True:` as the last statement of a method is supported')
    fn.has_while = True
    fn.stats.bump('while_loops')
    name = fn.lean + '_while'
    carried = (['self'] if mutates_self(st.body) else []) + [n for n in fn.env if n != 'self' and n in assigned_names(st.body)]
    used = loaded_names(st.body)
    params = [n for n in fn.env if n in used and n not in carried and n != 'self']
    saved = dict(fn.env)
    ret_ty = fn.result_ty
    call = '%s %s fuel %s' % (name, ' '.join(params), ' '.join(carried))
    wcx = Cx(lambda i: ['%s%s' % (i, call)], in_loop=False)
    wcx.state, wcx.ret_ty = None, ret_ty
    wcx.ret_line = lambda v: 'pure (self, %s)' % v
    body = block(fn, st.body, '    ', wcx)
    fn.env = saved
    sig = ''.join(' (%s : %s)' % (n, saved[n]) for n in params)
    fn.defs.append('\n'.join([
        '/-- the loop `while True` of `%s`; `fuel` bounds the number of passes -/' % fn.qual,
        'def %s%s :\n    Nat → %s → Except String (InitialMesh × %s)' % (name, sig, ' → '.join(tyarg(saved[n]) for n in carried), ret_ty),
        '  | 0%s => .error "fuel"' % (', _' * len(carried)),
        '  | fuel + 1, %s => do' % ', '.join(carried)] + body))
    return ['%s%s' % (ind, call)]


# ---- functions ------------------------------------------------------------------------------------------------------
class Source:
    def __init__(self, repo):
        path = os.path.join(repo, SRC_FILE)
        with open(path) as fh:
            self.text = fh.read()
        self.tree = ast.parse(self.text)
        self.classes = {n.name: n for n in self.tree.body if isinstance(n, ast.ClassDef)}
        self.funcs = {n.name: n for n in self.tree.body if isinstance(n, ast.FunctionDef)}
        for c in ('Vertex', 'Element', 'InitialMesh'):
            if c not in self.classes:
                raise TranslationError('class %s not found in %s' % (c, SRC_FILE))
            if self.classes[c].bases or self.classes[c].decorator_list:
                raise TranslationError('class %s has base classes / decorators' % c)

    def method(self, cls, name, params, allow_defaults=()):
        found = [n for n in self.classes[cls].body if isinstance(n, ast.FunctionDef) and n.name == name]
        if len(found) != 1:
            raise TranslationError('%s.%s: expected exactly one definition' % (cls, name))
        f = found[0]
        a = f.args
        names = [x.arg for x in a.args]
        if names != ['self'] + params or a.vararg or a.kwarg or a.kwonlyargs or a.posonlyargs:
            raise TranslationError('%s.%s: parameters %s, expected %s' % (cls, name, names, ['self'] + params))
        if len(a.defaults) != len(allow_defaults) or [ast.unparse(d) for d in a.defaults] != list(allow_defaults):
            raise TranslationError('%s.%s: defaults %s, expected %s' % (cls, name, [ast.unparse(d) for d in a.defaults], list(allow_defaults)))
        return f

    def check_methods(self):
        """nothing of the translated classes may be defined that the translator does not know"""
        known = {'Vertex': {'__init__', '__repr__'},
                 'Element': {'__init__', 'edges', 'diam', 'contains', 'gamma', 'connected_to_vertex', '__repr__'},
                 'InitialMesh': {'__init__', 'vertex_from_coords', 'bisect_edge', 'refine', 'uniform_refine', 'refine_msh_bdr', 'gmsh'}}
        for c, ok in known.items():
            for n in self.classes[c].body:
                if isinstance(n, ast.Expr) and isinstance(n.value, ast.Constant):
                    continue
                if not isinstance(n, ast.FunctionDef) or n.name not in ok:
                    raise TranslationError('class %s line %d: member outside the translated fragment: %s' %
                                           (c, n.lineno, getattr(n, 'name', ast.unparse(n)[:60])))
                decos = [ast.unparse(d) for d in n.decorator_list]
                if decos != (['property'] if (c, n.name) in (('Element', 'edges'), ('Element', 'diam')) else []):
                    raise TranslationError('%s.%s: decorators %s' % (c, n.name, decos))
        v = self.method('Vertex', '__init__', ['x', 'y', 'idx'])
        body = [ast.unparse(s) for s in v.body]
        if body != ['self.x = x', 'self.y = y', 'self.xy = (x, y)', 'self.xy_np = np.array([[float(x)], [float(y)]])', 'self.idx = idx']:
            raise TranslationError('Vertex.__init__ does not store exactly x, y, xy, xy_np, idx: %s' % body)
        imp = [ast.unparse(n) for n in self.tree.body if isinstance(n, (ast.Import, ast.ImportFrom))]
        if imp != ['from math import isclose', 'import numpy as np']:
            raise TranslationError('imports of the module changed: %s' % imp)


def new_fn(stats, qual, lean, params, recursive=False, result_ty=None):
    fn = Fn(stats, qual, lean, params, '', recursive)
    fn.fields, fn.uses_rec, fn.in_loop_body, fn.has_while, fn.result_ty = set(), False, False, False, result_ty
    return fn


def gen_element(src, stats):
    f = src.method('Element', '__init__', ['vertices', 'parent'], allow_defaults=('None', ))
    fn = new_fn(stats, 'Element.__init__', 'Element_init', [('parent', 'Option Element')])
    for k in range(4):
        fn.env['v%d' % k] = 'Vtx'
    stats.bump('functions')
    body = []
    for st in f.body:
        src_st = ast.unparse(st)
        if src_st in ('self.vertices = vertices', 'self.parent = parent'):
            fn.fields.add(src_st.split(' ')[0][5:])
            continue
        body.append(st)
    if fn.fields != {'vertices', 'parent'}:
        raise TranslationError('Element.__init__ must store `vertices` and `parent`')

    def tail(ind):
        if 'level' not in fn.fields:
            raise TranslationError('Element.__init__ does not set `level`')
        return ['%spure { v0 := v0, v1 := v1, v2 := v2, v3 := v3, parent := parent.map (·.id), level := level, id := id_ }' % ind]
    lines = block(fn, body, '  ', Cx(tail))
    out = ['/-- `Element.__init__(vertices, parent=None)`; `id_` = the identity of the new object -/',
           'def Element_init (v0 v1 v2 v3 : Vtx) (parent : Option Element) (id_ : Nat) : Except String Element := do'] + lines + ['']
    e = [n for n in src.classes['Element'].body if isinstance(n, ast.FunctionDef) and n.name == 'edges'][0]
    if [a.arg for a in e.args.args] != ['self'] or len(e.body) != 1 or not isinstance(e.body[0], ast.Return):
        raise TranslationError('Element.edges: a single return statement is expected')
    fe = new_fn(stats, 'Element.edges', 'Element_edges', [('self', 'Element')])
    pre = []
    c, t = fe.ex(e.body[0].value, pre, '  ')
    if t != 'List Edge' or pre:
        raise TranslationError('Element.edges must return a list of vertex pairs')
    stats.bump('functions')
    out += ['/-- `Element.edges` (a property) -/', 'def Element_edges (self : Element) : List Edge :=', '  ' + c, '']
    return out


def gen_method(src, stats, name, params, doc, result_ty=None, defaults=(), recursive=False, fuel=False, prologue=()):
    f = src.method('InitialMesh', name, [p for p, _ in params], allow_defaults=defaults)
    lean = 'InitialMesh_' + (name if name != '__init__' else 'init')
    mut = name in MUTATING
    fn = new_fn(stats, 'InitialMesh.' + name, lean, ([] if name == '__init__' else [('self', 'InitialMesh')]) + list(params),
                recursive=recursive, result_ty=result_ty)
    if name == '__init__':
        fn.env = dict([('self', 'InitialMesh')] + list(params))
    stats.bump('functions')

    def tail(ind):
        if result_ty is not None:
            fn.err(f, 'the method must end with a return statement')
        return ['%spure self' % ind]

    def on_return(ind, value):
        pre = []
        c, t = fn.ex(value, pre, ind)
        if t != result_ty and not (opt(result_ty or '') and t == 'None'):
            fn.err(value, 'the method returns a %s, expected %s' % (t, result_ty))
        return pre + ['%spure %s' % (ind, '(self, %s)' % c if mut else c)]
    cx = Cx(tail, on_return=on_return)
    cx.ret_ty = result_ty
    ind = '    ' if recursive else '  '
    lines = list(prologue) + block(fn, f.body, ind, cx)
    if fn.children_ids is not None:
        fn.err(f, 'the constructed children are never handed to self.elements.extend')
    rty = 'InitialMesh' if result_ty is None else ('(InitialMesh × %s)' % result_ty if mut else tyarg(result_ty))
    extra = ''.join(' (%s : List Element)' % n for n in fn.extra_inputs)
    if recursive:
        head = ['def %s : Nat → InitialMesh → %s → Except String %s' % (lean, ' → '.join(tyarg(t) for _, t in params), rty),
                '  | 0, _%s => .error "fuel"' % (', _' * len(params)),
                '  | fuel + 1, self, %s => do' % ', '.join(p for p, _ in params)]
    else:
        sig = ''.join(' (%s : %s)' % (p, t) for p, t in params)
        self_sig = '' if name == '__init__' else ' (self : InitialMesh)'
        head = ['def %s%s%s%s%s : Except String %s := do' % (lean, ' (fuel : Nat)' if fuel else '', self_sig, sig, extra, rty)]
    out = []
    for d in fn.defs:
        out += [d, '']
    return out + ['/-- %s -/' % doc] + head + lines + ['']


def gen_domains(src, stats):
    out = []
    for name in ('UnitSquare', 'PiSquare', 'LShape'):
        f = src.funcs.get(name)
        if f is None or f.args.args or len(f.body) != 1 or not isinstance(f.body[0], ast.Return):
            raise TranslationError('%s(): a single `return InitialMesh(vertices=…, elements=…)` is expected' % name)
        c = f.body[0].value
        kw = {k.arg: k.value for k in getattr(c, 'keywords', [])}
        if not (isinstance(c, ast.Call) and isinstance(c.func, ast.Name) and c.func.id == 'InitialMesh' and not c.args and set(kw) == {'vertices', 'elements'}):
            raise TranslationError('%s(): `InitialMesh(vertices=…, elements=…)` is expected' % name)
        uses_pi = False

        def num(n):
            nonlocal uses_pi
            if isinstance(n, ast.Constant) and isinstance(n.value, int) and not isinstance(n.value, bool):
                return '(%d : Rat)' % n.value
            if isinstance(n, ast.UnaryOp) and isinstance(n.op, ast.USub) and isinstance(n.operand, ast.Constant) and isinstance(n.operand.value, int):
                return '(-%d : Rat)' % n.operand.value
            if ast.unparse(n) == 'np.pi':
                uses_pi = True
                return 'pi'
            raise TranslationError('%s(): coordinate outside the fragment: %s' % (name, ast.unparse(n)))
        vs, es = kw['vertices'], kw['elements']
        if not isinstance(vs, ast.List) or not isinstance(es, ast.List):
            raise TranslationError('%s(): literal lists are expected' % name)
        vcode = []
        for v in vs.elts:
            if not (isinstance(v, ast.Tuple) and len(v.elts) == 2):
                raise TranslationError('%s(): a vertex is a pair' % name)
            vcode.append('(%s, %s)' % (num(v.elts[0]), num(v.elts[1])))
        ecode = []
        for e in es.elts:
            if not (isinstance(e, ast.Tuple) and len(e.elts) == 4 and all(isinstance(i, ast.Constant) and isinstance(i.value, int) and i.value >= 0 for i in e.elts)):
                raise TranslationError('%s(): an element is a 4-tuple of vertex indices' % name)
            ecode.append('(%s)' % ', '.join(str(i.value) for i in e.elts))
        stats.bump('functions')
        out += ['/-- `%s()`%s -/' % (name, ' (`np.pi` is the parameter `pi`)' if uses_pi else ''),
                'def %s%s : Except String InitialMesh :=' % (name, ' (pi : Rat)' if uses_pi else ''),
                '  InitialMesh_init [%s] [%s]' % (', '.join(vcode), ', '.join(ecode)), '']
    return out


def generate_text(repo):
    src = Source(repo)
    src.check_methods()
    stats = Stats()
    out = [HEADER + '/-! ### the translated bodies -/', '']
    out += gen_element(src, stats)
    out += gen_method(src, stats, '__init__', [('vertices', 'List (Rat × Rat)'), ('elements', 'List (Nat × Nat × Nat × Nat)')],
                      '`InitialMesh.__init__(vertices, elements)`', prologue=['  let self : InitialMesh := {}'])
    out += gen_method(src, stats, 'vertex_from_coords', [('xy', PT)], '`InitialMesh.vertex_from_coords(xy)`', result_ty='Option Vtx')
    out += gen_method(src, stats, 'bisect_edge', [('a', 'Vtx'), ('b', 'Vtx')], '`InitialMesh.bisect_edge(a, b)`', result_ty='Vtx')
    out += gen_method(src, stats, 'refine', [('element', 'Element')], '`InitialMesh.refine(element)`; `fuel` bounds the depth of the recursion',
                      result_ty='List Element', recursive=True)
    out += [REFINE_CALL.rstrip('\n'), '']
    out += gen_method(src, stats, 'uniform_refine', [],
                      '`InitialMesh.uniform_refine()`; `leaves_order` = `list(self.leaf_elements)` (an input: any enumeration of the set)')
    out += gen_method(src, stats, 'refine_msh_bdr', [('v0', PT), ('v1', PT), ('eps', 'Rat')],
                      '`InitialMesh.refine_msh_bdr(v0, v1, eps)`; `fuel` bounds the number of passes of the `while True` loop',
                      result_ty='Element', defaults=('1e-10', ), fuel=True)
    out += gen_domains(src, stats)
    out += ['end Stbem.Gen.QuadtreeGen', '']
    return '\n'.join(out), stats.n


def generate(repo, gen_dir, write):
    text, stats = generate_text(repo)
    write(os.path.join(gen_dir, 'QuadtreeGen.lean'), text)
    return stats
