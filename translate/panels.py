#!/venv/bin/python
"""Translator: control flow of `src/single_layer.py` (ast) -> lean/Stbem/Gen/Panels.lean  (Mathlib-free, executable).

Generated from the *bodies* of
  * `SingleLayerOperator.__integrate`  -> `Stbem.Gen.Panels.integrate`   (fuel-recursive, `Except String (List Panel)`)
  * `SingleLayerOperator.bilform`      -> `Stbem.Gen.Panels.bilform`     (`Except String Rat`)
  * `SingleLayerOperator.evaluate`     -> `Stbem.Gen.Panels.evaluate`    (`Rat`)
  * `SingleLayerOperator._init_elems`  -> `Stbem.Gen.Panels.init_<attr>` (the pre-evaluated curve points read by `evaluate`)
  * `MP_SL_matrix_col`                 -> `Stbem.Gen.Panels.mpCol`       (one column of the worker-pool path with its skip rule)
  * the `mat[i, j] = ...` loop nests of `bilform_matrix` -> `Stbem.Gen.Panels.matrixLoop<k>`
  * `SingleLayerOperator.__init__`     -> which rule every `self.<scheme>` is (`ruleOf`), which attributes are parameters

Every statement and every expression of these bodies is translated; what is *not* translated but bound to an existing
model of OTHER code is listed in EXTERNALS below (the quadrature classes of src/quadrature.py -> Stbem.Quad, the closed
form `spacetime_integrated_kernel` of src/single_layer_exact.py -> `Stbem.SL.stik`, the generated time kernel
`double_time_integrated_kernel` -> `Stbem.Formulas.Q.sl_dtk`, Python builtins `abs/min/tuple <=/math.isclose`).

Supported Python fragment (anything else raises TranslationError = broken obligation, nothing is guessed or defaulted):
  statements : docstring, `x = e`, `a, b = <interval>`, `assert e`, `if/elif/else` whose branches all return or all assign
               the same names, `return e`, inner `def` / `lambda` closures, the `for elem in elems` body of `_init_elems`,
               the loop nests named above;
  expressions: names, int/float literals (floats = the exact binary64 value; constant sub-expressions are folded with
               Python's own float arithmetic, e.g. `1 + 1e-10`), `+ - * / **2`, unary minus, comparisons (chained, on
               numbers and on 2-tuples), `and/or/not`, `is` on `gamma_space`, `abs`, `min`, `max`, `math.isclose(x, y)`,
               `expi`, `FPI_INV`, `np.dot`, NumPy broadcasting of scalars / (2,1) points / node arrays / (2,n) point
               arrays, `x[0]`, `x[1]`, `*interval` star arguments, calls of the externals.
"""
import ast
import os
import sys
from fractions import Fraction


class TranslationError(Exception):
    pass


SRC_FILE = os.path.join('src', 'single_layer.py')
CLASS = 'SingleLayerOperator'
FUEL = 12   # recursion bound of the hand model (Stbem.SL.bilform uses `panels cfg 12`, `stik S 12`; depth <= 5 is proved)

# resolved rule expression of a 2-D scheme -> panel kind of the model (the inverse of `Stbem.SL.ruleOf`; the generated
# `ruleOf` is proved equal to the model's in Props/PanelsTie.lean, so a wrong row here cannot go unnoticed)
KIND_OF_RULE = {
    'duffy2 (product2 log log) false': 'duffyId',
    'mirrorX2 (duffy2 (product2 log log) false)': 'duffyMx',
    'mirrorY2 (duffy2 (product2 log log) false)': 'duffyMy',
    'mirrorX2 (product2 log log)': 'logMx',
    'mirrorY2 (product2 log log)': 'logMy',
}
KIND_ORDER = ['duffyId', 'duffyMx', 'duffyMy', 'logMx', 'logMy']

# labels of the assertion failures (error strings of the model), keyed by the assertion text
ASSERT_TAGS = {
    'h_x > 1e-08 and h_y > 1e-08': 'size',
    'a < b and c < d': 'order',
    '(a, b) <= (c, d)': 'lex',
    'not math.isclose(b, c)': 'isclose',
    'not math.isclose(a, c)': 'isclose',
    'b < c': 'seam',
    'b < d': 'contained',
    'a < c': 'overlap',
}

# Python local names are kept as Lean names; they must not capture anything the emitted code refers to
RESERVED = {
    'log', 'gauss', 'gs', 'S', 'fuel', 'gamma_len', 'glue_space', 'pw_exact', 'integrate', 'integrateWith', 'bilform', 'evaluate',
    'ruleOf', 'mpCol', 'isclose', 'vsub', 'vsq', 'stik', 'sl_dtk', 'pieceOf', 'lexLe', 'lexLt', 'absR', 'minR', 'maxR', 'sumR',
    'integrate1', 'integrate2', 'mirror1', 'mirrorX2', 'mirrorY2', 'product2', 'duffy2', 'pure', 'List', 'Rat', 'Nat', 'Bool',
    'true', 'false', 'u', 'v', 'p', 'n', 'y', 'r1', 'r2', 'r3', 'r4',
    # Lean keywords / tokens
    'at', 'do', 'then', 'else', 'if', 'fun', 'let', 'have', 'show', 'from', 'end', 'in', 'match', 'with', 'where', 'by', 'open',
    'Type', 'Prop', 'Sort', 'def', 'theorem', 'example', 'namespace', 'section', 'variable', 'universe', 'import', 'return',
    'for', 'unless', 'try', 'catch', 'finally', 'mut', 'this', 'using', 'deriving', 'instance', 'structure', 'class', 'inductive',
}


def lean_name(tr, node, name):
    if name in RESERVED or name.startswith('c_') or name.startswith('init_') or not name.isidentifier() or not name.isascii():
        tr.err(node, 'the local name `%s` cannot be used as a Lean name here' % name)
    return name


EXTERNALS = {
    'spacetime_integrated_kernel': 'Stbem.SL.stik S %d  (hand model of src/single_layer_exact.py, C01/C11)' % FUEL,
    'double_time_integrated_kernel': 'fun v => Stbem.Formulas.Q.sl_dtk S a b c d (v.1^2 + v.2^2)  (generated by translate/formulas.py)',
    'QuadScheme1D.integrate / .mirror / .points / .weights': 'Stbem.Quad.integrate1 / mirror1 / node fields',
    'QuadScheme2D.integrate / mirror_x / mirror_y, ProductScheme2D, DuffyScheme2D': 'Stbem.Quad (C15)',
    'expi, FPI_INV': 'fields of Fns (parameters)',
    'elem.gamma_space': 'Stbem.SL.pieceOf gs elem.piece (exact affine piece)',
}


# ---------------------------------------------------------------------------------------------------------
class Stats:
    def __init__(self):
        self.n = {}

    def bump(self, key, k=1):
        self.n[key] = self.n.get(key, 0) + k


class Consts:
    """float literals / folded constant expressions -> named exact rationals"""
    def __init__(self):
        self.defs = {}   # name -> (Fraction, description)

    @staticmethod
    def sanitize(text):
        t = text.replace(' ', '').replace('(', '').replace(')', '')
        out = []
        i = 0
        while i < len(t):
            ch = t[i]
            if ch.isalnum():
                if ch in 'eE' and i + 1 < len(t) and t[i + 1] == '-' and i > 0 and t[i - 1].isdigit():
                    out.append('e_m')
                    i += 2
                    continue
                out.append(ch)
            elif ch == '+':
                out.append('_plus_')
            elif ch == '-':
                out.append('_minus_')
            elif ch == '.':
                out.append('p')
            elif ch == '*':
                out.append('_times_')
            elif ch == '/':
                out.append('_over_')
            else:
                raise TranslationError('cannot name the constant %r' % text)
            i += 1
        return 'c_' + ''.join(out)

    def add(self, text, value, what, name=None):
        name = name or self.sanitize(text)
        fr = Fraction(value)
        if name in self.defs and self.defs[name][0] != fr:
            raise TranslationError('two different constants named %s' % name)
        self.defs[name] = (fr, what)
        return name


def lean_rat(fr):
    fr = Fraction(fr)
    if fr.denominator == 1:
        return '(%d : Rat)' % fr.numerator if fr.numerator >= 0 else '(-%d : Rat)' % -fr.numerator
    if fr.numerator < 0:
        return '(-((%d : Rat) / %d))' % (-fr.numerator, fr.denominator)
    return '((%d : Rat) / %d)' % (fr.numerator, fr.denominator)


# ---------------------------------------------------------------------------------------------------------
class Source:
    def __init__(self, repo):
        import warnings
        path = os.path.join(repo, SRC_FILE)
        self.text = open(path).read()
        with warnings.catch_warnings():
            warnings.simplefilter('ignore')
            self.tree = ast.parse(self.text)
        cls = [n for n in self.tree.body if isinstance(n, ast.ClassDef) and n.name == CLASS]
        if len(cls) != 1:
            raise TranslationError('class %s not found exactly once' % CLASS)
        self.cls = cls[0]
        self.methods = {}
        for n in self.cls.body:
            if isinstance(n, ast.FunctionDef):
                if n.name in self.methods:
                    raise TranslationError('method %s defined twice' % n.name)
                self.methods[n.name] = n
        self.functions = {}
        for n in self.tree.body:
            if isinstance(n, ast.FunctionDef):
                if n.name in self.functions:
                    raise TranslationError('function %s defined twice' % n.name)
                self.functions[n.name] = n
        self.imports = set()
        for n in self.tree.body:
            if isinstance(n, ast.ImportFrom):
                for a in n.names:
                    self.imports.add((n.module, a.asname or a.name))
            elif isinstance(n, ast.Import):
                for a in n.names:
                    self.imports.add((None, a.asname or a.name))

    def seg(self, node):
        s = ast.get_source_segment(self.text, node)
        return ' '.join((s or ast.unparse(node)).split())

    def method(self, name):
        if name not in self.methods:
            raise TranslationError('method %s.%s not found' % (CLASS, name))
        fn = self.methods[name]
        for d in fn.decorator_list:
            ok = (isinstance(d, ast.Call) and isinstance(d.func, ast.Attribute) and d.func.attr == 'locals' and
                  isinstance(d.func.value, ast.Name) and d.func.value.id == 'cython')
            if not ok:
                raise TranslationError('%s: unsupported decorator %s' % (name, self.seg(d)))
        return fn

    def self_assignments(self, attr):
        """all statements `self.<attr> = ...` / augmented / deletions anywhere in the class: [(method, node)]"""
        out = []
        for mname, fn in self.methods.items():
            for n in ast.walk(fn):
                tg = []
                if isinstance(n, ast.Assign):
                    tg = n.targets
                elif isinstance(n, (ast.AugAssign, ast.AnnAssign)):
                    tg = [n.target]
                elif isinstance(n, ast.Delete):
                    tg = n.targets
                for t in tg:
                    for s in ast.walk(t):
                        if isinstance(s, ast.Attribute) and s.attr == attr and isinstance(s.value, ast.Name) and s.value.id == 'self':
                            out.append((mname, n))
                if isinstance(n, ast.Call) and isinstance(n.func, ast.Name) and n.func.id in ('setattr', 'delattr'):
                    raise TranslationError('%s uses %s' % (mname, n.func.id))
        return out


class Init:
    """What `__init__` binds: parameters (`gamma_len`, `glue_space`, `pw_exact`) and the quadrature schemes."""
    def __init__(self, src):
        self.src = src
        fn = src.method('__init__')
        self.args = [a.arg for a in fn.args.args]
        self.assign = {}
        for st in fn.body:
            if isinstance(st, ast.Assign) and len(st.targets) == 1 and isinstance(st.targets[0], ast.Attribute) \
                    and isinstance(st.targets[0].value, ast.Name) and st.targets[0].value.id == 'self':
                a = st.targets[0].attr
                if a in self.assign:
                    raise TranslationError('__init__ assigns self.%s twice' % a)
                self.assign[a] = st.value
        self._rules = {}

    def _once(self, attr):
        if attr not in self.assign:
            raise TranslationError('__init__ does not assign self.%s at top level' % attr)
        where = self.src.self_assignments(attr)
        if len(where) != 1 or where[0][0] != '__init__':
            raise TranslationError('self.%s is assigned outside __init__ or more than once (%s)' %
                                   (attr, [w[0] for w in where]))
        return self.assign[attr]

    def param(self, attr):
        """`self.gamma_len`, `self.glue_space`, `self.pw_exact`: (lean name, type)"""
        v = self._once(attr)
        text = ast.unparse(v)
        want = {'gamma_len': ('self.mesh.gamma_space.gamma_length', 'rat'), 'glue_space': ('self.mesh.glue_space', 'bool'),
                'pw_exact': ('pw_exact', 'bool')}
        if attr not in want:
            raise TranslationError('self.%s is not a known operator parameter' % attr)
        if text != want[attr][0]:
            raise TranslationError('__init__: self.%s = %s (expected %s)' % (attr, text, want[attr][0]))
        if attr == 'pw_exact' and 'pw_exact' not in self.args:
            raise TranslationError('__init__ has no argument pw_exact')
        if attr in ('gamma_len', 'glue_space'):
            m = ast.unparse(self._once('mesh'))
            if m != 'mesh' or 'mesh' not in self.args:
                raise TranslationError('__init__: self.mesh = %s (expected the constructor argument)' % m)
        return attr, want[attr][1]

    def rule(self, attr):
        """lean rule expression and dimension of the scheme `self.<attr>`"""
        if attr in self._rules:
            return self._rules[attr]
        v = self._once(attr)
        out = None
        if isinstance(v, ast.Call) and isinstance(v.func, ast.Name):
            name, args, kws = v.func.id, v.args, v.keywords
            if name == 'log_quadrature_scheme' and not kws and [ast.unparse(a) for a in args] == ['quad_order', 'quad_order']:
                out = ('log', 1)
            elif name == 'gauss_quadrature_scheme' and not kws and len(args) == 1:
                out = ('gauss', 1)
            elif name == 'ProductScheme2D' and not kws and len(args) == 2:
                a, b = self._scheme_arg(args[0]), self._scheme_arg(args[1])
                if a[1] != 1 or b[1] != 1:
                    raise TranslationError('ProductScheme2D of non-1D schemes')
                out = ('product2 %s %s' % (paren(a[0]), paren(b[0])), 2)
            elif name == 'DuffyScheme2D' and len(args) == 1 and len(kws) == 1 and kws[0].arg == 'symmetric' \
                    and isinstance(kws[0].value, ast.Constant) and isinstance(kws[0].value.value, bool):
                a = self._scheme_arg(args[0])
                if a[1] != 2:
                    raise TranslationError('DuffyScheme2D of a non-2D scheme')
                out = ('duffy2 %s %s' % (paren(a[0]), 'true' if kws[0].value.value else 'false'), 2)
        elif isinstance(v, ast.Call) and isinstance(v.func, ast.Attribute) and v.func.attr == 'mirror' and not v.args and not v.keywords:
            a = self._scheme_arg(v.func.value)
            if a[1] != 1:
                raise TranslationError('.mirror() of a non-1D scheme')
            out = ('mirror1 %s' % paren(a[0]), 1)
        if out is None:
            raise TranslationError('__init__: cannot interpret self.%s = %s' % (attr, self.src.seg(v)))
        self._rules[attr] = out
        return out

    def _scheme_arg(self, node):
        if isinstance(node, ast.Attribute) and isinstance(node.value, ast.Name) and node.value.id == 'self':
            return self.rule(node.attr)
        raise TranslationError('scheme argument %s is not a self attribute' % self.src.seg(node))


def paren(code):
    code = code.strip()
    if code.replace('_', 'a').replace('.', 'a').isalnum():
        return code
    if code.startswith('(') and _matching(code) == len(code) - 1:
        return code
    return '(' + code + ')'


def _matching(code):
    depth = 0
    for i, ch in enumerate(code):
        if ch == '(':
            depth += 1
        elif ch == ')':
            depth -= 1
            if depth == 0:
                return i
    return -1


# ---------------------------------------------------------------------------------------------------------
# values: (code, type)  types: rat | bool | vec | arr | varr | elem | ival | curve | fun1 | fun2 | vfun | erat | self |
#                               integrand | pairarg | elems
class Tr:
    """translator of one function body"""
    def __init__(self, src, init, consts, stats, fname, ret):
        self.src, self.init, self.consts, self.stats, self.fname, self.ret = src, init, consts, stats, fname, ret
        self.rule_use = {}      # kind -> rule expression seen at a leaf
        self.init_attrs = {}    # mangled element attributes of _init_elems: name -> type

    def err(self, node, msg):
        raise TranslationError('%s line %s: %s: `%s`' % (self.fname, getattr(node, 'lineno', '?'), msg, self.src.seg(node)[:160]))

    # ---- constants ------------------------------------------------------------------------------------
    def const_value(self, node):
        """Python value of a constant numeric expression, computed with Python's own arithmetic, or None"""
        if isinstance(node, ast.Constant) and isinstance(node.value, (int, float)) and not isinstance(node.value, bool):
            return node.value
        if isinstance(node, ast.UnaryOp) and isinstance(node.op, ast.USub):
            v = self.const_value(node.operand)
            return None if v is None else -v
        if isinstance(node, ast.BinOp):
            a, b = self.const_value(node.left), self.const_value(node.right)
            if a is None or b is None:
                return None
            try:
                if isinstance(node.op, ast.Add):
                    return a + b
                if isinstance(node.op, ast.Sub):
                    return a - b
                if isinstance(node.op, ast.Mult):
                    return a * b
                if isinstance(node.op, ast.Div):
                    return a / b
            except ZeroDivisionError:
                self.err(node, 'constant division by zero')
        return None

    def const_code(self, node, v):
        if isinstance(v, int):
            return lean_rat(v)
        if v != v or v in (float('inf'), float('-inf')):
            self.err(node, 'non-finite constant')
        text = self.src.seg(node)
        what = 'binary64 value of the literal `%s`' % text if isinstance(node, ast.Constant) else \
            'binary64 value of the constant expression `%s` (folded with float arithmetic, as Python does)' % text
        self.stats.bump('float_constants')
        return self.consts.add(text, v, what)

    # ---- element attributes ---------------------------------------------------------------------------
    def interval(self, node, env):
        """`elem.time_interval` / `elem.space_interval` / a 2-tuple of numbers -> (c0, c1)"""
        if isinstance(node, ast.Attribute) and node.attr in ('time_interval', 'space_interval'):
            e = self.expr(node.value, env)
            if e[1] != 'elem':
                self.err(node, 'interval of a non-element')
            return ('%s.t0' % e[0], '%s.t1' % e[0]) if node.attr == 'time_interval' else ('%s.x0' % e[0], '%s.x1' % e[0])
        if isinstance(node, ast.Tuple) and len(node.elts) == 2:
            return tuple(self.rat(e, env) for e in node.elts)
        if isinstance(node, ast.Name) and node.id in env and env[node.id][1] == 'ival':
            return env[node.id][0]
        self.err(node, 'not an interval')

    def star_args(self, args, env):
        """positional arguments with `*interval` expanded -> list of values"""
        out = []
        for a in args:
            if isinstance(a, ast.Starred):
                c0, c1 = self.interval(a.value, env)
                out += [(c0, 'rat'), (c1, 'rat')]
            else:
                out.append(self.expr(a, env))
        return out

    # ---- expressions ----------------------------------------------------------------------------------
    def rat(self, node, env):
        v = self.expr(node, env)
        if v[1] != 'rat':
            self.err(node, 'number expected, got %s' % v[1])
        return v[0]

    def expr(self, node, env):
        cv = self.const_value(node)
        if cv is not None:
            return (self.const_code(node, cv), 'rat')
        if isinstance(node, ast.Name):
            if node.id in env:
                return env[node.id]
            if node.id == 'FPI_INV':
                self.need_global_const('FPI_INV', '(4 * pi) ** (-1)')
                return ('S.fpiInv', 'rat')
            self.err(node, 'unknown name')
        if isinstance(node, ast.Attribute):
            return self.attribute(node, env)
        if isinstance(node, ast.Subscript):
            return self.subscript(node, env)
        if isinstance(node, ast.UnaryOp):
            if isinstance(node.op, ast.USub):
                v = self.expr(node.operand, env)
                if v[1] == 'rat':
                    return ('(-%s)' % v[0], 'rat')
                if v[1] == 'arr':
                    return ('(%s.map (fun u => (-u)))' % v[0], 'arr')
                self.err(node, 'unary minus of %s' % v[1])
            if isinstance(node.op, ast.Not):
                return ('(¬ %s)' % self.cond(node.operand, env), 'prop')
            self.err(node, 'unsupported unary operator')
        if isinstance(node, ast.BinOp):
            return self.binop(node, env)
        if isinstance(node, (ast.Compare, ast.BoolOp)):
            return (self.cond(node, env), 'prop')
        if isinstance(node, ast.Call):
            return self.call(node, env)
        if isinstance(node, ast.Lambda):
            return self.lam(node, env)
        self.err(node, 'unsupported expression')

    def need_global_const(self, name, text):
        """module constant bound to a field of Fns: its defining expression must be the known one"""
        found = [n for n in self.src.tree.body if isinstance(n, ast.Assign) and len(n.targets) == 1 and
                 isinstance(n.targets[0], ast.Name) and n.targets[0].id == name]
        vals = [ast.unparse(n.value) for n in found if not (isinstance(n.value, ast.Call) and 'declare' in ast.unparse(n.value))]
        if vals != [text]:
            raise TranslationError('module constant %s = %s (expected %s)' % (name, vals, text))

    def attribute(self, node, env):
        base = node.value
        if isinstance(base, ast.Name) and base.id in env and env[base.id][1] == 'self':
            if node.attr in ('gamma_len', 'glue_space', 'pw_exact'):
                return self.init.param(node.attr)
            self.err(node, 'unsupported operator attribute')
        if node.attr == 'gamma_space':
            e = self.expr(base, env)
            if e[1] != 'elem':
                self.err(node, 'gamma_space of a non-element')
            return ('(pieceOf gs %s.piece).at' % e[0], 'curve', e[0])
        if node.attr in ('time_interval', 'space_interval'):
            return (self.interval(node, env), 'ival')
        if node.attr in ('points', 'weights'):
            r = self.scheme(base, env)
            if r[1] != 1:
                self.err(node, '.%s of a non-1D scheme' % node.attr)
            fld = 'x' if node.attr == 'points' else 'w'
            return ('(%s.map (fun n => n.%s))' % (paren(r[0]), fld), 'arr')
        if node.attr.startswith('__') and not node.attr.endswith('__'):
            e = self.expr(base, env)
            if e[1] == 'elem':
                if node.attr not in self.init_attrs:
                    self.err(node, 'element attribute is not set by _init_elems')
                self.stats.bump('init_attr_reads')
                return ('(init%s log gs %s)' % (node.attr[1:], e[0]), self.init_attrs[node.attr])
        self.err(node, 'unsupported attribute')

    def subscript(self, node, env):
        idx = node.slice
        if not (isinstance(idx, ast.Constant) and idx.value in (0, 1) and not isinstance(idx.value, bool)):
            self.err(node, 'only [0] and [1] are supported')
        i = idx.value
        if isinstance(node.value, ast.Attribute) and node.value.attr in ('time_interval', 'space_interval'):
            return (self.interval(node.value, env)[i], 'rat')
        v = self.expr(node.value, env)
        if v[1] == 'ival':
            return (v[0][i], 'rat')
        if v[1] == 'pairarg':
            return (v[0][i], 'rat')
        if v[1] == 'vec':
            return ('%s.%d' % (paren(v[0]), i + 1), 'rat')
        if v[1] == 'varr':
            return ('(%s.map (fun p => p.%d))' % (paren(v[0]), i + 1), 'arr')
        self.err(node, 'subscript of %s' % v[1])

    def binop(self, node, env):
        if isinstance(node.op, ast.Pow):
            if not (isinstance(node.right, ast.Constant) and node.right.value == 2 and isinstance(node.right.value, int)
                    and not isinstance(node.right.value, bool)):
                self.err(node, 'only **2 is supported')
            v = self.expr(node.left, env)
            if v[1] == 'rat':
                return ('(%s ^ 2)' % v[0], 'rat')
            if v[1] == 'vec':
                return ('(vsq %s)' % paren(v[0]), 'vec')
            if v[1] == 'varr':
                return ('(%s.map (fun p => vsq p))' % paren(v[0]), 'varr')
            if v[1] == 'arr':
                return ('(%s.map (fun u => (u ^ 2)))' % paren(v[0]), 'arr')
            self.err(node, '**2 of %s' % v[1])
        ops = {ast.Add: '+', ast.Sub: '-', ast.Mult: '*', ast.Div: '/'}
        op = None
        for k, s in ops.items():
            if isinstance(node.op, k):
                op = s
        if op is None:
            self.err(node, 'unsupported binary operator')
        a, b = self.expr(node.left, env), self.expr(node.right, env)
        ta, tb = a[1], b[1]
        if ta == 'rat' and tb == 'rat':
            return ('(%s %s %s)' % (a[0], op, b[0]), 'rat')
        if ta == 'rat' and tb == 'arr':
            return ('(%s.map (fun u => (%s %s u)))' % (paren(b[0]), a[0], op), 'arr')
        if ta == 'arr' and tb == 'rat':
            return ('(%s.map (fun u => (u %s %s)))' % (paren(a[0]), op, b[0]), 'arr')
        if ta == 'arr' and tb == 'arr':
            return ('(List.zipWith (fun u v => (u %s v)) %s %s)' % (op, paren(a[0]), paren(b[0])), 'arr')
        if op == '-' and ta == 'vec' and tb == 'vec':
            return ('(vsub %s %s)' % (paren(a[0]), paren(b[0])), 'vec')
        if op == '-' and ta == 'vec' and tb == 'varr':
            return ('(%s.map (fun p => vsub %s p))' % (paren(b[0]), paren(a[0])), 'varr')
        self.err(node, 'operator %s on %s and %s' % (op, ta, tb))

    def scheme(self, node, env):
        """`self.X`, `self.X.mirror_x()`, `self.X.mirror_y()` -> (rule expression, dimension)"""
        if isinstance(node, ast.Attribute) and isinstance(node.value, ast.Name) and node.value.id in env \
                and env[node.value.id][1] == 'self':
            return self.init.rule(node.attr)
        if isinstance(node, ast.Call) and isinstance(node.func, ast.Attribute) and node.func.attr in ('mirror_x', 'mirror_y') \
                and not node.args and not node.keywords:
            r = self.scheme(node.func.value, env)
            if r[1] != 2:
                self.err(node, '%s of a non-2D scheme' % node.func.attr)
            return ('%s %s' % ('mirrorX2' if node.func.attr == 'mirror_x' else 'mirrorY2', paren(r[0])), 2)
        self.err(node, 'not a quadrature scheme of the operator')

    def call(self, node, env):
        f = node.func
        if node.keywords:
            self.err(node, 'keyword arguments are not supported')
        # builtins / module functions
        if isinstance(f, ast.Name):
            name = f.id
            if name in env:
                fv = env[name]
                if fv[1] == 'curve' and len(node.args) == 1:
                    return self.apply_curve(node, fv, self.expr(node.args[0], env))
                if fv[1] == 'vfun' and len(node.args) == 1:
                    a = self.expr(node.args[0], env)
                    if a[1] != 'vec':
                        self.err(node, 'kernel applied to %s' % a[1])
                    return ('(%s %s)' % (fv[0], paren(a[0])), 'rat')
                self.err(node, 'call of a local value of type %s' % fv[1])
            if name in ('abs', 'min', 'max'):
                n = 1 if name == 'abs' else 2
                if len(node.args) != n:
                    self.err(node, '%s takes %d arguments here' % (name, n))
                args = [self.rat(a, env) for a in node.args]
                lean = {'abs': 'absR', 'min': 'minR', 'max': 'maxR'}[name]
                return ('(%s %s)' % (lean, ' '.join(paren(a) for a in args)), 'rat')
            if name == 'expi':
                if ('scipy.special', 'expi') not in self.src.imports:
                    self.err(node, 'expi is not scipy.special.expi')
                if len(node.args) != 1:
                    self.err(node, 'expi takes one argument')
                a = self.expr(node.args[0], env)
                if a[1] == 'rat':
                    return ('(S.ei %s)' % paren(a[0]), 'rat')
                if a[1] == 'arr':
                    return ('(%s.map (fun u => S.ei u))' % paren(a[0]), 'arr')
                self.err(node, 'expi of %s' % a[1])
            if name == 'spacetime_integrated_kernel':
                if ('single_layer_exact', name) not in self.src.imports:
                    self.err(node, 'not imported from .single_layer_exact')
                args = self.star_args(node.args, env)
                if len(args) != 8 or any(a[1] != 'rat' for a in args):
                    self.err(node, 'eight numbers expected')
                self.stats.bump('external_calls')
                return ('(stik S %d %s)' % (FUEL, ' '.join(paren(a[0]) for a in args)), 'erat')
            if name == 'double_time_integrated_kernel':
                if name not in self.src.functions:
                    self.err(node, 'not a function of this module')
                args = self.star_args(node.args, env)
                if len(args) != 4 or any(a[1] != 'rat' for a in args):
                    self.err(node, 'four numbers expected')
                self.stats.bump('external_calls')
                return ('(fun (v : Rat × Rat) => sl_dtk S %s (v.1 ^ 2 + v.2 ^ 2))' % ' '.join(paren(a[0]) for a in args), 'vfun')
            self.err(node, 'call of unknown function')
        if isinstance(f, ast.Attribute):
            # math.isclose / np.dot
            if isinstance(f.value, ast.Name) and f.value.id == 'math' and f.attr == 'isclose':
                if (None, 'math') not in self.src.imports or len(node.args) != 2:
                    self.err(node, 'math.isclose(x, y) with default tolerances expected')
                a, b = self.rat(node.args[0], env), self.rat(node.args[1], env)
                self.stats.bump('isclose')
                return ('(isclose %s %s = true)' % (paren(a), paren(b)), 'prop')
            if isinstance(f.value, ast.Name) and f.value.id == 'np' and f.attr == 'dot':
                if len(node.args) != 2:
                    self.err(node, 'np.dot takes two arguments')
                a, b = self.expr(node.args[0], env), self.expr(node.args[1], env)
                if a[1] != 'arr' or b[1] != 'arr':
                    self.err(node, 'np.dot of %s and %s' % (a[1], b[1]))
                return ('(sumR (List.zipWith (fun u v => (u * v)) %s %s))' % (paren(a[0]), paren(b[0])), 'rat')
            # elem.gamma_space(y)
            if f.attr == 'gamma_space' and len(node.args) == 1:
                return self.apply_curve(node, self.attribute(f, env), self.expr(node.args[0], env))
            # self.__integrate(F, a, b, c, d) outside of __integrate itself
            if f.attr == '__integrate' and isinstance(f.value, ast.Name) and f.value.id in env and env[f.value.id][1] == 'self':
                if self.ret == 'panels':
                    self.err(node, 'recursive call in an unsupported position')
                args = self.star_args(node.args, env)
                if len(args) != 5 or args[0][1] != 'fun2' or any(a[1] != 'rat' for a in args[1:]):
                    self.err(node, 'integrand of two variables and four numbers expected')
                self.stats.bump('integrate_calls')
                return ('(integrateWith gamma_len glue_space log %s %s)' % (paren(args[0][0]), ' '.join(paren(a[0]) for a in args[1:])), 'erat')
            # self.bilform(trial, test)
            if f.attr == 'bilform' and isinstance(f.value, ast.Name) and f.value.id in env and env[f.value.id][1] in ('self', 'selfglobal'):
                args = [self.expr(a, env) for a in node.args]
                if len(args) != 2 or any(a[1] != 'elem' for a in args):
                    self.err(node, 'two elements expected')
                self.stats.bump('bilform_calls')
                return ('(bilform gamma_len glue_space S log gs pw_exact %s %s)' % (args[0][0], args[1][0]), 'erat')
            # <1-D scheme>.integrate(F, a, b)
            if f.attr == 'integrate' and len(node.args) == 3:
                r = self.scheme(f.value, env)
                if r[1] != 1:
                    self.err(node, '3-argument integrate of a non-1D scheme')
                F = self.expr(node.args[0], env)
                if F[1] != 'fun1':
                    self.err(node, 'integrand of one variable expected')
                a, b = self.rat(node.args[1], env), self.rat(node.args[2], env)
                self.stats.bump('rule1_leaves')
                return ('(integrate1 %s %s %s %s)' % (paren(r[0]), F[0], paren(a), paren(b)), 'rat')
        self.err(node, 'unsupported call')

    def apply_curve(self, node, curve, arg):
        if arg[1] == 'rat':
            return ('(%s %s)' % (curve[0], paren(arg[0])), 'vec')
        if arg[1] == 'arr':
            return ('(%s.map (fun y => %s y))' % (paren(arg[0]), curve[0]), 'varr')
        self.err(node, 'curve applied to %s' % arg[1])

    def lam(self, node, env):
        a = node.args
        if a.vararg or a.kwarg or a.kwonlyargs or a.defaults or len(a.args) != 1:
            self.err(node, 'lambda with one plain parameter expected')
        p = a.args[0].arg
        for nm in ('%s_0' % p, '%s_1' % p):
            lean_name(self, node, nm)
            if nm in env:
                self.err(node, 'the name %s is already bound' % nm)
        env2 = dict(env)
        env2[p] = (('%s_0' % p, '%s_1' % p), 'pairarg')
        body = self.rat(node.body, env2)
        # the parameter must be used only through [0] and [1]; `pairarg` has no other use, so reaching here proves it
        return ('(fun (%s_0 %s_1 : Rat) => %s)' % (p, p, body), 'fun2')

    # ---- conditions -----------------------------------------------------------------------------------
    def cond(self, node, env):
        if isinstance(node, ast.BoolOp):
            op = ' ∧ ' if isinstance(node.op, ast.And) else ' ∨ '
            return '(' + op.join(self.cond(v, env) for v in node.values) + ')'
        if isinstance(node, ast.UnaryOp) and isinstance(node.op, ast.Not):
            return '(¬ %s)' % self.cond(node.operand, env)
        if isinstance(node, ast.Compare):
            parts, left = [], node.left
            for op, right in zip(node.ops, node.comparators):
                parts.append(self.cmp1(node, op, left, right, env))
                left = right
            return parts[0] if len(parts) == 1 else '(' + ' ∧ '.join(parts) + ')'
        v = self.expr(node, env)
        if v[1] == 'bool':
            return '(%s = true)' % v[0]
        if v[1] == 'prop':
            return v[0]
        self.err(node, 'not a condition (type %s): truthiness of numbers is not supported' % v[1])

    def is_pair(self, node, env):
        if isinstance(node, ast.Tuple):
            return True
        if isinstance(node, ast.Attribute) and node.attr in ('time_interval', 'space_interval'):
            return True
        return isinstance(node, ast.Name) and node.id in env and env[node.id][1] == 'ival'

    def cmp1(self, node, op, left, right, env):
        if isinstance(op, (ast.Is, ast.IsNot)):
            ok = all(isinstance(s, ast.Attribute) and s.attr == 'gamma_space' for s in (left, right))
            if not ok:
                self.err(node, '`is` is supported between the gamma_space of two elements only')
            a, b = self.attribute(left, env), self.attribute(right, env)
            s = '(%s.piece = %s.piece)' % (a[2], b[2])
            return s if isinstance(op, ast.Is) else '(¬ %s)' % s
        if self.is_pair(left, env) or self.is_pair(right, env):
            if not (self.is_pair(left, env) and self.is_pair(right, env)):
                self.err(node, 'comparison of a pair with a non-pair')
            a, b = self.interval(left, env), self.interval(right, env)
            fn = {ast.LtE: 'lexLe', ast.Lt: 'lexLt'}.get(type(op))
            if fn is None:
                self.err(node, 'only <= and < are supported on pairs')
            self.stats.bump('tuple_comparisons')
            return '(%s %s %s %s %s = true)' % (fn, paren(a[0]), paren(a[1]), paren(b[0]), paren(b[1]))
        sym = {ast.Eq: '=', ast.NotEq: '≠', ast.Lt: '<', ast.LtE: '≤', ast.Gt: '>', ast.GtE: '≥'}.get(type(op))
        if sym is None:
            self.err(node, 'unsupported comparison operator')
        return '(%s %s %s)' % (self.rat(left, env), sym, self.rat(right, env))

    # ---- statements -----------------------------------------------------------------------------------
    @staticmethod
    def always_returns(stmts):
        for st in stmts:
            if isinstance(st, ast.Return):
                return True
            if isinstance(st, ast.If) and st.orelse and Tr.always_returns(st.body) and Tr.always_returns(st.orelse):
                return True
        return False

    @staticmethod
    def has_return(stmts):
        return any(isinstance(n, ast.Return) for st in stmts for n in ast.walk(st))

    def block(self, stmts, env, ind, first=False):
        """statement list -> lines of a Lean term of the function's result type"""
        pad = ' ' * ind
        if not stmts:
            raise TranslationError('%s: a path falls off the end of the function (Python would return None)' % self.fname)
        st, rest = stmts[0], stmts[1:]
        if first and isinstance(st, ast.Expr) and isinstance(st.value, ast.Constant) and isinstance(st.value.value, str):
            return self.block(rest, env, ind)
        if isinstance(st, ast.Return):
            if rest:
                self.err(rest[0], 'unreachable statement after return')
            if st.value is None:
                self.err(st, 'bare return')
            self.stats.bump('returns')
            return self.ret_lines(st, env, ind)
        if isinstance(st, ast.Assert):
            if st.msg is not None:
                self.err(st, 'assert with a message')
            text = ast.unparse(st.test)
            if text not in ASSERT_TAGS:
                self.err(st, 'assertion without a known label')
            if self.ret not in ('panels', 'erat'):
                self.err(st, 'assertion in a function whose model has no error result')
            self.stats.bump('asserts')
            if isinstance(st.test, ast.UnaryOp) and isinstance(st.test.op, ast.Not):
                c = self.cond(st.test.operand, env)
            else:
                c = '(¬ %s)' % self.cond(st.test, env)
            return ([pad + 'if %s then .error "assert:%s"' % (c, ASSERT_TAGS[text]), pad + 'else'] +
                    self.block(rest, env, ind + 2))
        if isinstance(st, ast.Assign):
            if len(st.targets) != 1:
                self.err(st, 'chained assignment')
            tg = st.targets[0]
            if isinstance(tg, ast.Name):
                lean_name(self, st, tg.id)
                v = self.expr(st.value, env)
                if v[1] in ('prop', 'self', 'integrand', 'pairarg', 'elems'):
                    self.err(st, 'assignment of a value of type %s' % v[1])
                env2 = dict(env)
                if v[1] == 'ival':
                    env2[tg.id] = v
                    return self.block(rest, env2, ind)
                if v[1] == 'curve':
                    env2[tg.id] = (tg.id,) + v[1:]
                else:
                    env2[tg.id] = (tg.id, v[1])
                self.stats.bump('assignments')
                return [pad + 'let %s := %s' % (tg.id, v[0])] + self.block(rest, env2, ind)
            if isinstance(tg, ast.Tuple) and len(tg.elts) == 2 and all(isinstance(e, ast.Name) for e in tg.elts):
                c0, c1 = self.interval(st.value, env)
                env2 = dict(env)
                n0, n1 = lean_name(self, st, tg.elts[0].id), lean_name(self, st, tg.elts[1].id)
                if n0 == n1:
                    self.err(st, 'same name twice')
                env2[n0], env2[n1] = (n0, 'rat'), (n1, 'rat')
                self.stats.bump('assignments', 2)
                return [pad + 'let %s := %s' % (n0, c0), pad + 'let %s := %s' % (n1, c1)] + self.block(rest, env2, ind)
            self.err(st, 'unsupported assignment target')
        if isinstance(st, ast.FunctionDef):
            a = st.args
            if st.decorator_list or a.vararg or a.kwarg or a.kwonlyargs or a.defaults or len(a.args) != 1:
                self.err(st, 'inner function with one plain parameter expected')
            p = lean_name(self, st, a.args[0].arg)
            lean_name(self, st, st.name)
            env2 = dict(env)
            env2[p] = (p, 'rat')
            sub = Tr(self.src, self.init, self.consts, self.stats, self.fname + '.' + st.name, 'rat')
            sub.init_attrs = self.init_attrs
            body = sub.block(st.body, env2, ind + 2, first=True)
            env3 = dict(env)
            env3[st.name] = (st.name, 'fun1')
            self.stats.bump('closures')
            return ([pad + 'let %s := (fun (%s : Rat) =>' % (st.name, p)] + body + [pad + '  )'] + self.block(rest, env3, ind))
        if isinstance(st, ast.If):
            return self.if_lines(st, rest, env, ind)
        self.err(st, 'unsupported statement')

    def if_lines(self, st, rest, env, ind):
        pad = ' ' * ind
        c = self.cond(st.test, env)
        self.stats.bump('branches')
        if self.always_returns(st.body):
            if st.orelse and self.always_returns(st.orelse) and rest:
                self.err(rest[0], 'unreachable statement after an if whose branches all return')
            return ([pad + 'if %s then' % c] + self.block(st.body, env, ind + 2) + [pad + 'else'] +
                    self.block(list(st.orelse) + list(rest), env, ind + 2))
        if st.orelse and self.always_returns(st.orelse):
            return ([pad + 'if %s then' % c] + self.block(list(st.body) + list(rest), env, ind + 2) + [pad + 'else'] +
                    self.block(st.orelse, env, ind + 2))
        if self.has_return(st.body) or self.has_return(st.orelse):
            self.err(st, 'if statement that returns on some paths only')
        # both branches assign the same names; each right-hand side may only use values from before the `if`
        if not st.orelse:
            self.err(st, 'assigning if without else')

        def assigns(stmts):
            out = []
            for s in stmts:
                if not (isinstance(s, ast.Assign) and len(s.targets) == 1 and isinstance(s.targets[0], ast.Name)):
                    self.err(s, 'only plain assignments are supported in a non-returning branch')
                out.append((s.targets[0].id, s.value))
            names = [n for n, _ in out]
            if len(set(names)) != len(names):
                self.err(st, 'a name is assigned twice in one branch')
            for n, v in out:
                used = {x.id for x in ast.walk(v) if isinstance(x, ast.Name)}
                if used & set(names):
                    self.err(st, 'a branch reads a name it assigns')
            return out
        A, B = assigns(st.body), assigns(st.orelse)
        if sorted(n for n, _ in A) != sorted(n for n, _ in B):
            self.err(st, 'the two branches assign different names')
        Bd = dict(B)
        lines, env2 = [], dict(env)
        for n, va in A:
            lean_name(self, st, n)
            x, y = self.expr(va, env), self.expr(Bd[n], env)
            if x[1] != y[1] or x[1] not in ('rat', 'arr', 'varr', 'vec'):
                self.err(st, 'branches give %s the types %s / %s' % (n, x[1], y[1]))
            lines.append(pad + 'let %s := (if %s then %s else %s)' % (n, c, x[0], y[0]))
            env2[n] = (n, x[1])
            self.stats.bump('assignments')
        return lines + self.block(rest, env2, ind)

    # ---- results --------------------------------------------------------------------------------------
    def ret_lines(self, st, env, ind):
        pad = ' ' * ind
        if self.ret == 'rat':
            return [pad + self.rat(st.value, env)]
        if self.ret == 'erat':
            v = self.expr(st.value, env)
            if v[1] == 'rat':
                return [pad + 'pure %s' % paren(v[0])]
            if v[1] == 'erat':
                return [pad + v[0]]
            self.err(st, 'result of type %s' % v[1])
        if self.ret == 'panels':
            return self.panel_sum(st, env, ind)
        raise TranslationError('internal: result kind %s' % self.ret)

    def panel_sum(self, st, env, ind):
        """`T1 + T2 + ...`, each Ti a rule applied to `f` on a rectangle or a recursive call, in evaluation order"""
        pad = ' ' * ind

        def flatten(n):
            if isinstance(n, ast.BinOp) and isinstance(n.op, ast.Add):
                return flatten(n.left) + flatten(n.right)
            return [n]
        # Python evaluates `(A + B) + C` left to right; list append is associative, the order of the terms is kept
        terms = flatten(st.value)
        binds, parts = [], []
        for t in terms:
            if not (isinstance(t, ast.Call) and isinstance(t.func, ast.Attribute) and not t.keywords):
                self.err(t, 'term is not a call')
            if len(t.args) != 5 or not (isinstance(t.args[0], ast.Name) and t.args[0].id in env and env[t.args[0].id][1] == 'integrand'):
                self.err(t, 'the integrand `f` and four numbers expected')
            rect = [paren(self.rat(a, env)) for a in t.args[1:]]
            f = t.func
            if f.attr == '__integrate' and isinstance(f.value, ast.Name) and f.value.id in env and env[f.value.id][1] == 'self':
                r = 'r%d' % (len(binds) + 1)
                binds.append(pad + '  let %s ← integrate gamma_len glue_space fuel %s' % (r, ' '.join(rect)))
                parts.append(r)
                self.stats.bump('recursive_calls')
            elif f.attr == 'integrate':
                rule = self.scheme(f.value, env)
                if rule[1] != 2:
                    self.err(t, '5-argument integrate of a non-2D scheme')
                if rule[0] not in KIND_OF_RULE:
                    self.err(t, 'scheme `%s` is none of the rules of the model' % rule[0])
                kind = KIND_OF_RULE[rule[0]]
                self.rule_use[kind] = rule[0]
                parts.append('[⟨.%s, %s⟩]' % (kind, ', '.join(rect)))
                self.stats.bump('panel_leaves')
                self.stats.bump('leaf_' + kind)
            else:
                self.err(t, 'term is neither a rule applied to f nor a recursive call')
        total = parts[0]
        for p in parts[1:]:
            total = '(%s ++ %s)' % (total, p)
        if not binds:
            return [pad + 'pure %s' % total]
        return [pad + 'do'] + binds + [pad + '  pure %s' % total]


# ---------------------------------------------------------------------------------------------------------
def check_args(src, fn, names):
    a = fn.args
    got = [x.arg for x in a.args]
    if a.vararg or a.kwarg or a.kwonlyargs or a.defaults or got != names:
        raise TranslationError('%s: parameters %s (expected %s)' % (fn.name, got, names))


def gen_integrate(src, init, consts, stats):
    fn = src.method('__integrate')
    check_args(src, fn, ['self', 'f', 'a', 'b', 'c', 'd'])
    tr = Tr(src, init, consts, stats, '__integrate', 'panels')
    env = {'self': ('self', 'self'), 'f': ('f', 'integrand'), 'a': ('a', 'rat'), 'b': ('b', 'rat'), 'c': ('c', 'rat'), 'd': ('d', 'rat')}
    init.param('gamma_len'), init.param('glue_space')
    body = tr.block(fn.body, env, 4, first=True)
    lines = ['/-- `SingleLayerOperator.__integrate(f, a, b, c, d)`: the rules applied to `f` and their rectangles, in evaluation',
             'order (`+` of the source = `++`); assertion failures are errors; `fuel` bounds the recursion depth -/',
             'def integrate (gamma_len : Rat) (glue_space : Bool) : Nat → Rat → Rat → Rat → Rat → Except String (List Panel)',
             '  | 0, _, _, _, _ => .error "fuel"',
             '  | fuel + 1, a, b, c, d =>'] + body
    return lines, tr.rule_use


def gen_rule_of(rule_use):
    missing = [k for k in KIND_ORDER if k not in rule_use]
    if missing:
        raise TranslationError('__integrate uses no rule of kind %s any more' % missing)
    lines = ['/-- the 2-D rule behind every panel kind, resolved through the assignments of `__init__` -/',
             'def ruleOf (log : Rule1) : PKind → Rule2']
    for k in KIND_ORDER:
        lines.append('  | .%s => %s' % (k, rule_use[k]))
    return lines


def gen_init_elems(src, init, consts, stats):
    """`_init_elems`: for every element the attributes `elem.__X = <expr>`; one Lean definition per attribute"""
    fn = src.method('_init_elems')
    check_args(src, fn, ['self', 'elems'])
    body = [s for s in fn.body if not (isinstance(s, ast.Expr) and isinstance(s.value, ast.Constant) and isinstance(s.value.value, str))]
    if len(body) != 1 or not isinstance(body[0], ast.For):
        raise TranslationError('_init_elems: a single for loop expected')
    loop = body[0]
    if loop.orelse or not (isinstance(loop.target, ast.Name) and isinstance(loop.iter, ast.Name) and loop.iter.id == 'elems'):
        raise TranslationError('_init_elems: `for elem in elems` expected')
    tr = Tr(src, init, consts, stats, '_init_elems', 'rat')
    ev = lean_name(tr, loop, loop.target.id)
    env = {'self': ('self', 'self'), ev: (ev, 'elem')}
    lets, defs, attrs = [], [], {}
    for st in loop.body:
        if isinstance(st, ast.Assign) and len(st.targets) == 1 and isinstance(st.targets[0], ast.Attribute):
            tg = st.targets[0]
            if not (isinstance(tg.value, ast.Name) and tg.value.id == ev and tg.attr.startswith('__') and not tg.attr.endswith('__')):
                tr.err(st, 'only private attributes of the loop element may be set')
            if tg.attr in attrs:
                tr.err(st, 'attribute set twice')
            v = tr.expr(st.value, env)
            if v[1] not in ('varr', 'arr', 'rat', 'vec'):
                tr.err(st, 'attribute of type %s' % v[1])
            ty = {'varr': 'List (Rat × Rat)', 'arr': 'List Rat', 'rat': 'Rat', 'vec': 'Rat × Rat'}[v[1]]
            attrs[tg.attr] = v[1]
            defs.append(['/-- `%s.%s` as set by `_init_elems` -/' % (ev, tg.attr),
                         'def init%s (log : Rule1) (gs : List Piece) (%s : Elem) : %s :=' % (tg.attr[1:], ev, ty)] +
                        list(lets) + ['  ' + v[0]])
            stats.bump('init_attrs')
        elif isinstance(st, ast.Assign) and len(st.targets) == 1 and isinstance(st.targets[0], ast.Tuple):
            tg = st.targets[0]
            if len(tg.elts) != 2 or not all(isinstance(e, ast.Name) for e in tg.elts):
                tr.err(st, 'unsupported assignment target')
            c0, c1 = tr.interval(st.value, env)
            n0, n1 = lean_name(tr, st, tg.elts[0].id), lean_name(tr, st, tg.elts[1].id)
            if n0 == n1 or n0 in env or n1 in env:
                tr.err(st, 'name bound twice')
            env[n0], env[n1] = (n0, 'rat'), (n1, 'rat')
            lets += ['  let %s := %s' % (n0, c0), '  let %s := %s' % (n1, c1)]
        else:
            tr.err(st, 'unsupported statement in _init_elems')
    # the attributes must not be written anywhere else in the module
    for attr in attrs:
        n_set = 0
        for n in ast.walk(src.tree):
            tg = []
            if isinstance(n, ast.Assign):
                tg = n.targets
            elif isinstance(n, (ast.AugAssign, ast.AnnAssign)):
                tg = [n.target]
            for t in tg:
                for s in ast.walk(t):
                    if isinstance(s, ast.Attribute) and s.attr == attr:
                        n_set += 1
        if n_set != 1:
            raise TranslationError('element attribute %s is written %d times in the module' % (attr, n_set))
    return [l for d in defs for l in d + ['']], attrs


def gen_bilform(src, init, consts, stats):
    fn = src.method('bilform')
    check_args(src, fn, ['self', 'elem_trial', 'elem_test'])
    tr = Tr(src, init, consts, stats, 'bilform', 'erat')
    env = {'self': ('self', 'self'), 'elem_trial': ('elem_trial', 'elem'), 'elem_test': ('elem_test', 'elem')}
    init.param('pw_exact')
    body = tr.block(fn.body, env, 2, first=True)
    return ['/-- `SingleLayerOperator.bilform(elem_trial, elem_test)` -/',
            'def bilform (gamma_len : Rat) (glue_space : Bool) (S : Fns) (log : Rule1) (gs : List Piece) (pw_exact : Bool)',
            '    (elem_trial elem_test : Elem) : Except String Rat :='] + body


def gen_evaluate(src, init, consts, stats, attrs):
    fn = src.method('evaluate')
    check_args(src, fn, ['self', 'elem_trial', 't', 'x_hat', 'x'])
    tr = Tr(src, init, consts, stats, 'evaluate', 'rat')
    tr.init_attrs = attrs
    env = {'self': ('self', 'self'), 'elem_trial': ('elem_trial', 'elem'), 't': ('t', 'rat'), 'x_hat': ('x_hat', 'rat'),
           'x': ('x', 'vec')}
    body = tr.block(fn.body, env, 2, first=True)
    return ['/-- `SingleLayerOperator.evaluate(elem_trial, t, x_hat, x)`; `x` is the point `γ(x_hat)` as a (2,1) array -/',
            'def evaluate (gamma_len : Rat) (glue_space : Bool) (S : Fns) (log : Rule1) (gs : List Piece) (elem_trial : Elem)',
            '    (t x_hat : Rat) (x : Rat × Rat) : Rat :='] + body


# ---- matrix assembly ----------------------------------------------------------------------------------
def _enumerate_loop(tr, node, want_list=None):
    """`for i, e in enumerate(L)` -> (i, e, L)"""
    if not (isinstance(node, ast.For) and not node.orelse and isinstance(node.target, ast.Tuple) and len(node.target.elts) == 2
            and all(isinstance(e, ast.Name) for e in node.target.elts) and isinstance(node.iter, ast.Call)
            and isinstance(node.iter.func, ast.Name) and node.iter.func.id == 'enumerate' and len(node.iter.args) == 1
            and not node.iter.keywords and isinstance(node.iter.args[0], ast.Name)):
        tr.err(node, '`for i, e in enumerate(list)` expected')
    return node.target.elts[0].id, lean_name(tr, node, node.target.elts[1].id), node.iter.args[0].id


def gen_mp_col(src, init, consts, stats):
    """`MP_SL_matrix_col(j)`: column `j` of the worker-pool path; `col = np.zeros(...)`, skipped entries stay 0"""
    if 'MP_SL_matrix_col' not in src.functions:
        raise TranslationError('function MP_SL_matrix_col not found')
    fn = src.functions['MP_SL_matrix_col']
    check_args(src, fn, ['j'])
    if fn.decorator_list:
        raise TranslationError('MP_SL_matrix_col: decorator')
    tr = Tr(src, init, consts, stats, 'MP_SL_matrix_col', 'erat')
    body = [s for s in fn.body if not (isinstance(s, ast.Expr) and isinstance(s.value, ast.Constant) and isinstance(s.value.value, str))]
    texts = [ast.unparse(s) for s in body]
    if len(body) != 5:
        raise TranslationError('MP_SL_matrix_col: five statements expected, got %d' % len(body))
    if texts[0] != 'global __SL, __elems_test, __elems_trial':
        raise TranslationError('MP_SL_matrix_col: %s' % texts[0])
    if texts[1] != 'elem_trial = __elems_trial[j]':
        raise TranslationError('MP_SL_matrix_col: %s' % texts[1])
    if texts[2] != 'col = np.zeros(len(__elems_test))':
        raise TranslationError('MP_SL_matrix_col: %s' % texts[2])
    if texts[4] != 'return col':
        raise TranslationError('MP_SL_matrix_col: %s' % texts[4])
    i, ev, lst = _enumerate_loop(tr, body[3])
    if lst != '__elems_test' or ev == 'elem_trial':
        tr.err(body[3], 'loop `for i, <elem> in enumerate(__elems_test)` expected')
    env = {'__SL': ('self', 'selfglobal'), 'elem_trial': ('elem_trial', 'elem'), ev: (ev, 'elem')}
    stmts = list(body[3].body)
    lines = []
    ind = 4
    # leading `if <cond>: continue` statements = skip rules (entry stays the 0 of np.zeros)
    n_skip = 0
    while stmts and isinstance(stmts[0], ast.If) and not stmts[0].orelse and len(stmts[0].body) == 1 \
            and isinstance(stmts[0].body[0], ast.Continue):
        c = tr.cond(stmts[0].test, env)
        lines += [' ' * ind + 'if %s then pure 0' % c, ' ' * ind + 'else']
        ind += 2
        stmts = stmts[1:]
        n_skip += 1
        stats.bump('branches')
        stats.bump('skip_rules')
    if len(stmts) != 1 or not isinstance(stmts[0], ast.Assign) or ast.unparse(stmts[0].targets[0]) != 'col[%s]' % i:
        tr.err(body[3], 'loop body `[if ...: continue] col[i] = ...` expected')
    v = tr.expr(stmts[0].value, env)
    if v[1] != 'erat':
        tr.err(stmts[0], 'entry of type %s' % v[1])
    lines.append(' ' * ind + v[0])
    # the globals are what bilform_matrix stores: checked in gen_matrix
    return (['/-- `MP_SL_matrix_col(j)` with `elem_trial = __elems_trial[j]`: the entries `col[i]`, `i` over `__elems_test` -/',
             'def mpCol (gamma_len : Rat) (glue_space : Bool) (S : Fns) (log : Rule1) (gs : List Piece) (pw_exact : Bool)',
             '    (elems_test : List Elem) (elem_trial : Elem) : Except String (List Rat) :=',
             '  elems_test.mapM fun %s =>' % ev] + lines), n_skip


def gen_matrix(src, init, consts, stats):
    """the loop nests of `bilform_matrix` that fill `mat[i, j]` (inline for N*M < 100, serial) and the pool path
    `mat[:, j] = col`; everything else in that method (cache file, timing, prints) is NOT translated (C17 models it)"""
    fn = src.method('bilform_matrix')
    tr = Tr(src, init, consts, stats, 'bilform_matrix', 'erat')
    got = [a.arg for a in fn.args.args]
    if got != ['self', 'elems_test', 'elems_trial', 'use_mp']:
        raise TranslationError('bilform_matrix: parameters %s' % got)
    defs, k = [], 0
    for node in sorted((n for n in ast.walk(fn) if isinstance(n, ast.For)), key=lambda n: n.lineno):
        # outer loops only: their body is a single inner loop
        if len(node.body) == 1 and isinstance(node.body[0], ast.For):
            i, e1, l1 = _enumerate_loop(tr, node)
            inner = node.body[0]
            j, e2, l2 = _enumerate_loop(tr, inner)
            if len(inner.body) != 1 or not isinstance(inner.body[0], ast.Assign):
                tr.err(inner, 'single assignment in the inner loop expected')
            asg = inner.body[0]
            if ast.unparse(asg.targets[0]) != 'mat[%s, %s]' % (i, j):
                tr.err(asg, 'mat[%s, %s] = ... expected (first index = outer loop)' % (i, j))
            if (l1, l2) != ('elems_test', 'elems_trial'):
                tr.err(node, 'outer loop over elems_test, inner loop over elems_trial expected')
            env = {'self': ('self', 'self'), e1: (e1, 'elem'), e2: (e2, 'elem')}
            v = tr.expr(asg.value, env)
            if v[1] != 'erat':
                tr.err(asg, 'entry of type %s' % v[1])
            k += 1
            defs += ['/-- loop nest %d of `bilform_matrix` (line %d): `mat[%s, %s]`, rows = outer loop -/' % (k, node.lineno, i, j),
                     'def matrixLoop%d (gamma_len : Rat) (glue_space : Bool) (S : Fns) (log : Rule1) (gs : List Piece) (pw_exact : Bool)' % k,
                     '    (elems_test elems_trial : List Elem) : Except String (List (List Rat)) :=',
                     '  elems_test.mapM fun %s => elems_trial.mapM fun %s =>' % (e1, e2), '    ' + v[0], '']
            stats.bump('matrix_loop_nests')
        elif any(isinstance(s, ast.For) for s in node.body):
            tr.err(node, 'unsupported loop nest')
    # any other write to `mat[...]` must be the pool path `mat[:, j] = col` fed by MP_SL_matrix_col over range(M)
    others = [n for n in ast.walk(fn) if isinstance(n, ast.Assign) and isinstance(n.targets[0], ast.Subscript)
              and ast.unparse(n.targets[0].value) == 'mat' and not ast.unparse(n.targets[0]).startswith('mat[i, j]')]
    if [ast.unparse(n) for n in others] != ['mat[:, j] = col']:
        raise TranslationError('bilform_matrix: writes to mat other than mat[i, j] / mat[:, j] = col: %s' % [ast.unparse(n) for n in others])
    pool = [n for n in ast.walk(fn) if isinstance(n, ast.For) and others[0] in n.body]
    if len(pool) != 1:
        raise TranslationError('bilform_matrix: pool loop not found')
    it = ast.unparse(pool[0].iter)
    if ast.unparse(pool[0].target) != '(j, col)' or not (it.startswith('enumerate(mp.Pool(') and '.imap(MP_SL_matrix_col, range(M),' in it):
        raise TranslationError('bilform_matrix: pool loop is `%s`' % it[:120])
    stores = sorted(ast.unparse(n) for n in ast.walk(fn) if isinstance(n, ast.Assign) and ast.unparse(n.targets[0]).startswith('globals()['))
    if stores != ["globals()['__SL'] = self", "globals()['__elems_test'] = elems_test", "globals()['__elems_trial'] = elems_trial"]:
        raise TranslationError('bilform_matrix: globals handed to the workers are %s' % stores)
    m_def = [ast.unparse(n) for n in ast.walk(fn) if isinstance(n, ast.Assign) and ast.unparse(n.targets[0]) == 'M']
    if m_def != ['M = len(elems_trial)']:
        raise TranslationError('bilform_matrix: %s' % m_def)
    if k != 2:
        raise TranslationError('bilform_matrix: %d loop nests filling mat[i, j] (expected the inline and the serial one)' % k)
    defs += ['/-- pool path: `mat[:, j] = MP_SL_matrix_col(j)` for `j` over `range(len(elems_trial))`, as a list of COLUMNS -/',
             'def matrixPoolCols (gamma_len : Rat) (glue_space : Bool) (S : Fns) (log : Rule1) (gs : List Piece) (pw_exact : Bool)',
             '    (elems_test elems_trial : List Elem) : Except String (List (List Rat)) :=',
             '  elems_trial.mapM fun elem_trial => mpCol gamma_len glue_space S log gs pw_exact elems_test elem_trial', '']
    return defs


# ---------------------------------------------------------------------------------------------------------
ISCLOSE_REL_TOL = 1e-09   # CPython: math.isclose(a, b, *, rel_tol=1e-09, abs_tol=0.0)


def generate_text(repo, parts=('integrate', 'bilform', 'evaluate', 'matrix')):
    src = Source(repo)
    init = Init(src)
    consts, stats = Consts(), Stats()
    integ, rule_use = gen_integrate(src, init, consts, stats)
    rule_of = gen_rule_of(rule_use)
    init_defs, attrs = gen_init_elems(src, init, consts, stats)
    bil = gen_bilform(src, init, consts, stats)
    ev = gen_evaluate(src, init, consts, stats, attrs)
    col, n_skip = gen_mp_col(src, init, consts, stats)
    mats = gen_matrix(src, init, consts, stats)
    rel = consts.add('', ISCLOSE_REL_TOL, 'default `rel_tol=1e-09` of `math.isclose` (CPython)', name='c_isclose_rel_tol')
    out = ['/- GENERATED by translate/panels.py from src/single_layer.py -- do not edit. -/',
           'import Stbem.Model.SingleLayer',
           'namespace Stbem.Gen.Panels',
           'open Stbem.Quad Stbem.Formulas.Q Stbem.SL',
           '',
           '/-! ### float literals of the source (exact values of the binary64 numbers Python computes with) -/']
    for name in sorted(consts.defs):
        fr, what = consts.defs[name]
        out += ['/-- %s -/' % what, 'def %s : Rat := %s' % (name, lean_rat(fr))]
    out += ['',
            '/-! ### Python / NumPy semantics used by the translated bodies -/',
            '/-- `math.isclose(x, y)` with the default tolerances (`abs_tol = 0`) -/',
            'def isclose (x y : Rat) : Bool := decide (absR (x - y) ≤ %s * maxR (absR x) (absR y))' % rel,
            '/-- difference of two (2,1) arrays -/',
            'def vsub (p q : Rat × Rat) : Rat × Rat := (p.1 - q.1, p.2 - q.2)',
            '/-- element-wise square of a (2,1) array -/',
            'def vsq (p : Rat × Rat) : Rat × Rat := (p.1 ^ 2, p.2 ^ 2)',
            '']
    out += integ + ['']
    out += rule_of + ['']
    out += ['/-- `self.__integrate(F, a, b, c, d)` as a number: every panel integrated with its rule (recursion bound %d) -/' % FUEL,
            'def integrateWith (gamma_len : Rat) (glue_space : Bool) (log : Rule1) (F : Rat → Rat → Rat) (a b c d : Rat) :',
            '    Except String Rat := do',
            '  let ps ← integrate gamma_len glue_space %d a b c d' % FUEL,
            '  pure (sumR (ps.map fun p => integrate2 (ruleOf log p.kind) F p.a p.b p.c p.d))', '']
    out += bil + ['']
    out += init_defs
    out += ev + ['']
    out += col + ['']
    out += mats
    out += ['end Stbem.Gen.Panels', '']
    return '\n'.join(out), stats.n


def generate(repo, gen_dir, write):
    text, stats = generate_text(repo)
    write(os.path.join(gen_dir, 'Panels.lean'), text)
    return stats


if __name__ == '__main__':
    sys.path.insert(0, os.path.join(os.path.dirname(os.path.abspath(__file__)), '..'))
    from harness.common import write_if_changed
    gen = os.path.join(os.path.dirname(os.path.abspath(__file__)), '..', 'lean', 'Stbem', 'Gen')
    if len(sys.argv) < 2:
        sys.exit('usage: panels.py <repo> [--print]')
    if '--print' in sys.argv:
        t, s = generate_text(sys.argv[1])
        print(t)
        print(s, file=sys.stderr)
    else:
        print(generate(sys.argv[1], gen, write_if_changed))
