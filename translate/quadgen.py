#!/venv/bin/python
"""Translator: `src/quadrature.py` (ast) -> lean/Stbem/Gen/QuadGen.lean  (Mathlib-free, executable, imports nothing).

Every class and every function of the module is translated statement by statement (or the translation fails):

  * base classes `QuadScheme1D/2D/3D`  -> a Lean structure with the fields `__init__` sets (memo fields `self._m = None`
    are not stored: the memo is modelled as pure, see `memo_method`), `<Class>.init`, one definition per method;
  * subclasses (`ProductScheme2D`, `DuffyScheme2D`, `ProductScheme3D`, `DuffySchemeIdentical3D`, `DuffySchemeTouch3D`)
    -> `<Class>.init … : <base structure>`, the body of `__init__` ending in `super().__init__(points=…, weights=…)`;
  * `mirror*`   -> the expression of the memo pattern `if self._m is None: self._m = E` / `return self._m`;
  * `integrate` -> `Except String Rat` when the body has assertions (`assert:size`), the `a == b` shortcut, affine map, dot;
  * the module functions `*_quadrature_scheme` -> functions of the degree(s) with the tabulated rule function
    (`src/quadrature_rules.py`, `np.polynomial.legendre.leggauss`) as an EXTERNAL PARAMETER `Int → … → List Rat × List Rat`.

Not translated, by design (named here, never skipped silently): the class `QuadpyScheme2D` (wrapper of the external package
quadpy) — nothing that is translated may refer to it.

Supported Python fragment (anything else raises TranslationError = broken obligation, nothing is guessed or defaulted):
  statements : docstring; `x = e`; `a = b = e`; `n, w = <rule function>(…)`; `self.f = e` (base `__init__` only);
               `assert isinstance(p, C) [and …]` (must agree with the declared parameter type, becomes the Lean type);
               `assert e` (known texts only -> `Except.error "assert:<tag>"`); `if p is None: p = e` for a `=None` parameter;
               `if/else` (the continuation is duplicated into both branches); `return e`;
               the terminal `super().__init__(points=…, weights=…)`; the memo pattern;
  expressions: names, int / float literals (floats = the exact binary64 value; constant sub-expressions folded with Python's
               own arithmetic), `+ - * /`, `** <int literal>`, `// %` by a positive int literal on ints, unary minus,
               comparisons, `and/or/not`, truthiness of a bool parameter, `.points`, `.weights`, `m[i]`, `m.shape[1]`,
               `len(a)`, list displays of arrays, `np.array/asarray/repeat(…[, axis=1])/tile/kron/hstack/concatenate/vstack/dot`,
               calls of the integrand on the point array, constructor calls of the translated classes.
NumPy semantics (element order of repeat/tile/kron/hstack, broadcasting scalar∘array) is the small prelude emitted at the
top of the generated file (PRELUDE below): TRUSTED, tested on every run against NumPy itself (driver `gnp …`, C15.py).
"""
import ast
import os
import sys

sys.path.insert(0, os.path.dirname(os.path.abspath(__file__)))
from panels import Consts, Stats, TranslationError, lean_rat  # noqa: E402  (shared helpers: float literals, counters)

SRC_FILE = os.path.join('src', 'quadrature.py')

# dimension of the three base classes (what `points` is: 1-D array / 2-D array with 2 resp. 3 rows)
CLASS_DIM = {'QuadScheme1D': 1, 'QuadScheme2D': 2, 'QuadScheme3D': 3}
# classes that stay outside the model (external package); nothing translated may mention them
EXTERNAL_CLASSES = {'QuadpyScheme2D': 'wrapper of a quadpy scheme (external package)'}

# declared parameter and result types (positional; the NAMES are taken from the source)
SIGS = {
    'QuadScheme1D.__init__': (['arr', 'arr'], 'scheme1'),
    'QuadScheme2D.__init__': (['mat', 'arr'], 'scheme2'),
    'QuadScheme3D.__init__': (['mat', 'arr'], 'scheme3'),
    'QuadScheme1D.integrate': (['fun1', 'rat', 'rat'], 'rat'),
    'QuadScheme2D.integrate': (['fun2', 'rat', 'rat', 'rat', 'rat'], 'rat'),
    'QuadScheme3D.integrate': (['fun3', 'rat', 'rat', 'rat', 'rat', 'rat', 'rat'], 'rat'),
    'ProductScheme2D.__init__': (['scheme1', 'optscheme1'], 'scheme2'),
    'DuffyScheme2D.__init__': (['scheme2', 'bool'], 'scheme2'),
    'ProductScheme3D.__init__': (['scheme1'], 'scheme3'),
    'DuffySchemeIdentical3D.__init__': (['scheme3', 'bool'], 'scheme3'),
    'DuffySchemeTouch3D.__init__': (['scheme3'], 'scheme3'),
    'gauss_quadrature_scheme': (['int'], 'scheme1'),
    'gauss_sqrtinv_quadrature_scheme': (['int'], 'scheme1'),
    'gauss_x_quadrature_scheme': (['int'], 'scheme1'),
    'gauss_log_quadrature_scheme': (['int'], 'scheme1'),
    'log_quadrature_scheme': (['int', 'int'], 'scheme1'),
    'log_log_quadrature_scheme': (['int', 'int'], 'scheme1'),
    'sqrt_quadrature_scheme': (['int', 'int'], 'scheme1'),
    'sqrtinv_quadrature_scheme': (['int', 'int'], 'scheme1'),
}
RULES_MODULE = 'quadrature_rules'          # `from .quadrature_rules import (…)`: the external rule functions
LEGGAUSS = 'np.polynomial.legendre.leggauss'

# labels of the assertion failures, keyed by the (unparsed) assertion text
ASSERT_TAGS = {
    'b - a > 1e-05': 'size',
    'b - a > 1e-07 and d - c > 1e-07': 'size',
    'N_poly % 2 != 0': 'odd',
}

LEAN_TYPES = {'rat': 'Rat', 'int': 'Int', 'nat': 'Nat', 'bool': 'Bool', 'arr': 'List Rat', 'mat': 'List (List Rat)',
              'alist': 'List (List Rat)', 'scheme1': 'QuadScheme1D', 'scheme2': 'QuadScheme2D', 'scheme3': 'QuadScheme3D',
              'optscheme1': 'Option QuadScheme1D', 'fun1': 'Rat → Rat', 'fun2': 'Rat → Rat → Rat',
              'fun3': 'Rat → Rat → Rat → Rat', 'ext1': 'Int → List Rat × List Rat', 'ext2': 'Int → Int → List Rat × List Rat'}

PRELUDE = r'''/-! ### NumPy semantics used by the translated bodies
TRUSTED (not derived from the source): a 1-D array is a `List Rat`, a 2-D array is the list of its rows.  Every definition
names the NumPy behaviour it stands for; each one is executed against NumPy itself on every run (driver `gnp`, C15.py).
Shapes: NumPy raises (or broadcasts a length-1 axis) when the shapes of an element-wise operation differ and raises
`IndexError` for a missing row; the definitions below truncate / give `[]` instead.  The theorems of `Props/QuadTie.lean`
and the driver only feed schemes whose rows and weights have one common length, where the two agree. -/
section NumPy
/-- `sum` of the entries (the order of summation does not matter in exact arithmetic) -/
def npSum (a : List Rat) : Rat := a.foldr (· + ·) 0
/-- `np.array(a)` / `np.asarray(a)` of a 1-D array (or sequence of numbers): the same numbers in the same order -/
def npArray (a : List Rat) : List Rat := a
/-- `np.array(m)` / `np.asarray(m)` of a list of equally long 1-D arrays, or of a 2-D array: the 2-D array with these rows -/
def npArrayM (m : List (List Rat)) : List (List Rat) := m
/-- `m[i]`: row `i` of a 2-D array (entry `i` of a list of arrays) -/
def npRow (m : List (List Rat)) (i : Nat) : List Rat := m.getD i []
/-- `len(a)` of a 1-D array -/
def npLen (a : List Rat) : Nat := a.length
/-- `m.shape[1]`: the number of columns of a 2-D array -/
def npShape1 (m : List (List Rat)) : Nat := (m.headD []).length
/-- `np.repeat(a, k)`: every entry `k` times in place: `[a0,…,a0, a1,…,a1, …]` -/
def npRepeat (a : List Rat) (k : Nat) : List Rat := a.flatMap fun u => List.replicate k u
/-- `np.repeat(m, k, axis=1)`: every column `k` times in place, i.e. `np.repeat` on every row -/
def npRepeatAxis1 (m : List (List Rat)) (k : Nat) : List (List Rat) := m.map fun r => npRepeat r k
/-- `np.tile(a, k)`: the whole array `k` times: `[a0,a1,…, a0,a1,…, …]` -/
def npTile (a : List Rat) (k : Nat) : List Rat := (List.replicate k a).flatten
/-- `np.kron(a, b)` of 1-D arrays: `[a0*b0, a0*b1, …, a1*b0, a1*b1, …]` -/
def npKron (a b : List Rat) : List Rat := a.flatMap fun u => b.map fun v => u * v
/-- `np.hstack([a0, a1, …])` / `np.concatenate([a0, a1, …])` of 1-D arrays: one after the other -/
def npHstack (l : List (List Rat)) : List Rat := l.flatten
/-- `np.hstack([m0, m1, …])` of 2-D arrays (or lists of 1-D arrays) with equally many rows: row `i` is
`m0[i] ++ m1[i] ++ …` -/
def npHstackM : List (List (List Rat)) → List (List Rat)
  | [] => []
  | [m] => m
  | m :: ms => List.zipWith (· ++ ·) m (npHstackM ms)
/-- what `np.vstack` makes of a 1-D argument: a single row -/
def npRow2d (a : List Rat) : List (List Rat) := [a]
/-- `np.vstack([m0, m1, …])` of 2-D arrays: the rows of `m0`, then the rows of `m1`, … -/
def npVstack (l : List (List (List Rat))) : List (List Rat) := l.flatten
/-- `np.dot(a, b)` of 1-D arrays: `Σ a[i]*b[i]` -/
def npDot (a b : List Rat) : Rat := npSum (List.zipWith (fun u v => u * v) a b)
/-- `c ∘ a`, scalar `c` (broadcast), 1-D array `a`, `∘` one of `+ - * /`: entry-wise `c ∘ a[i]` -/
def npSA (op : Rat → Rat → Rat) (c : Rat) (a : List Rat) : List Rat := a.map fun u => op c u
/-- `a ∘ c`, 1-D array `a`, scalar `c` (broadcast): entry-wise `a[i] ∘ c` -/
def npAS (op : Rat → Rat → Rat) (a : List Rat) (c : Rat) : List Rat := a.map fun u => op u c
/-- `a ∘ b`, 1-D arrays of the same length: entry-wise `a[i] ∘ b[i]` -/
def npAA (op : Rat → Rat → Rat) (a b : List Rat) : List Rat := List.zipWith op a b
/-- `a ** k`, 1-D array, literal exponent `k ≥ 0`: entry-wise power -/
def npPow (a : List Rat) (k : Nat) : List Rat := a.map fun u => u ^ k
/-- `-a` -/
def npNeg (a : List Rat) : List Rat := a.map fun u => -u
/-- the integrand called on a 1-D array of points: it acts entry-wise (vectorised callable) -/
def npMap1 (f : Rat → Rat) (x : List Rat) : List Rat := x.map f
/-- the integrand called on a `(2, n)` array `x`: the `n` values `f(x[0][i], x[1][i])` (it uses `x` through `x[0]`, `x[1]`
entry-wise) -/
def npMap2 (f : Rat → Rat → Rat) (x : List (List Rat)) : List Rat := List.zipWith f (npRow x 0) (npRow x 1)
/-- the integrand called on a `(3, n)` array `x`: the `n` values `f(x[0][i], x[1][i], x[2][i])` -/
def npMap3 (f : Rat → Rat → Rat → Rat) (x : List (List Rat)) : List Rat :=
  List.zipWith (fun u vw => f u vw.1 vw.2) (npRow x 0) (List.zip (npRow x 1) (npRow x 2))
end NumPy
'''
PRELUDE_NAMES = {'npSum', 'npArray', 'npArrayM', 'npRow', 'npLen', 'npShape1', 'npRepeat', 'npRepeatAxis1', 'npTile', 'npKron',
                 'npHstack', 'npHstackM', 'npRow2d', 'npVstack', 'npDot', 'npSA', 'npAS', 'npAA', 'npPow', 'npNeg', 'npMap1',
                 'npMap2', 'npMap3'}

RESERVED = PRELUDE_NAMES | {
    'pure', 'List', 'Rat', 'Nat', 'Int', 'Bool', 'Option', 'Except', 'String', 'true', 'false', 'none', 'some', 'u', 'v', 'vw', 'r',
    'init', 'self_', 'op',
    'at', 'do', 'then', 'else', 'if', 'fun', 'let', 'have', 'show', 'from', 'end', 'in', 'match', 'with', 'where', 'by', 'open',
    'Type', 'Prop', 'Sort', 'def', 'theorem', 'example', 'namespace', 'section', 'variable', 'universe', 'import', 'return',
    'for', 'unless', 'try', 'catch', 'finally', 'mut', 'this', 'using', 'deriving', 'instance', 'structure', 'class', 'inductive',
    'abbrev', 'axiom', 'sorry', 'macro', 'syntax', 'notation', 'private', 'protected', 'partial', 'unsafe', 'nomatch', 'nofun',
    'calc', 'suffices', 'obtain', 'rcases', 'extends', 'mutual', 'attribute', 'export', 'set_option', 'infix', 'infixl',
    'infixr', 'prefix', 'postfix', 'noncomputable', 'local', 'scoped', 'omit', 'include', 'opaque', 'elab', 'termination_by',
    'decreasing_by', 'fun', 'λ', 'Σ', 'Π',
}


def is_mat(t):
    return t[0] in ('mat', 'alist')


def ty(name):
    """type name of SIGS -> internal type"""
    if name == 'mat':
        return ('mat', None)
    return (name, )


def lean_type(t):
    return LEAN_TYPES[t[0]]


def paren(code):
    code = code.strip()
    if code.replace('_', 'a').replace('.', 'a').isalnum():
        return code
    if code.startswith('(') and _matching(code) == len(code) - 1:
        return code
    if code.startswith('[') and code.endswith(']') and code.count('[') == 1:
        return code
    return '(' + code + ')'


def _matching(code):
    depth = 0
    for i, ch in enumerate(code):
        if ch == '(':
            depth += 1
        elif ch == ')':
            depth -= 1
            if depth == 0:
                return i
    return -1


# ---------------------------------------------------------------------------------------------------------
class ClassInfo:
    def __init__(self, name, node, base, dim):
        self.name, self.node, self.base, self.dim = name, node, base, dim
        self.fields = []       # base classes: [(field, type)] in the order of __init__
        self.memo = []         # fields initialised with None
        self.init_params = []  # [(name, type)] of the Lean `<Class>.init`
        self.init_except = False
        self.memo_used = {}


class Module:
    def __init__(self, repo):
        import warnings
        path = os.path.join(repo, SRC_FILE)
        self.text = open(path).read()
        with warnings.catch_warnings():
            warnings.simplefilter('ignore')
            self.tree = ast.parse(self.text)
        self.classes = {}     # name -> ClassInfo (in source order)
        self.functions = {}   # name -> FunctionDef
        self.ext_rules = set()
        self.np_ok = False
        for n in self.tree.body:
            if isinstance(n, ast.Import):
                for a in n.names:
                    if (a.name, a.asname) == ('numpy', 'np'):
                        self.np_ok = True
                    else:
                        raise TranslationError('unsupported import %s' % ast.unparse(n))
            elif isinstance(n, ast.ImportFrom):
                if n.module != RULES_MODULE or n.level != 1:
                    raise TranslationError('unsupported import %s' % ast.unparse(n))
                for a in n.names:
                    if a.asname:
                        raise TranslationError('renamed import %s' % ast.unparse(n))
                    self.ext_rules.add(a.name)
            elif isinstance(n, ast.FunctionDef):
                if n.name in self.functions or n.name in self.classes:
                    raise TranslationError('%s defined twice' % n.name)
                self.functions[n.name] = n
            elif isinstance(n, ast.ClassDef):
                if n.name in self.functions or n.name in self.classes:
                    raise TranslationError('%s defined twice' % n.name)
                if n.decorator_list or n.keywords:
                    raise TranslationError('class %s: decorators / keywords are not supported' % n.name)
                if len(n.bases) == 0:
                    base = None
                    if n.name not in CLASS_DIM:
                        raise TranslationError('unknown base class %s (dimension not declared)' % n.name)
                    dim = CLASS_DIM[n.name]
                elif len(n.bases) == 1 and isinstance(n.bases[0], ast.Name) and n.bases[0].id in self.classes \
                        and self.classes[n.bases[0].id].base is None:
                    base = n.bases[0].id
                    dim = self.classes[base].dim
                else:
                    raise TranslationError('class %s: base %s is not a translated base class defined before it' %
                                           (n.name, [ast.unparse(b) for b in n.bases]))
                self.classes[n.name] = ClassInfo(n.name, n, base, dim)
            elif isinstance(n, ast.Expr) and isinstance(n.value, ast.Constant) and isinstance(n.value.value, str):
                pass
            else:
                raise TranslationError('unsupported module-level statement line %d: %s' % (n.lineno, self.seg(n)[:100]))
        if not self.np_ok:
            raise TranslationError('`import numpy as np` not found')
        for d, cname in ((1, 'QuadScheme1D'), (2, 'QuadScheme2D'), (3, 'QuadScheme3D')):
            if cname not in self.classes:
                raise TranslationError('base class %s not found' % cname)
        # the data fields may only be written by `__init__` of the base classes: no other attribute store in the module
        for cname, ci in self.classes.items():
            for fn in ci.node.body:
                if not isinstance(fn, ast.FunctionDef):
                    continue
                for n in ast.walk(fn):
                    tg = []
                    if isinstance(n, ast.Assign):
                        tg = n.targets
                    elif isinstance(n, (ast.AugAssign, ast.AnnAssign)):
                        tg = [n.target]
                    elif isinstance(n, ast.Delete):
                        tg = n.targets
                    for t in tg:
                        for s in ast.walk(t):
                            if isinstance(s, ast.Attribute) and not (isinstance(s.value, ast.Name) and s.value.id == 'self'):
                                raise TranslationError('%s.%s line %d: store to an attribute of another object: %s' %
                                                       (cname, fn.name, n.lineno, self.seg(n)[:100]))
                    if isinstance(n, ast.Call) and isinstance(n.func, ast.Name) and n.func.id in ('setattr', 'delattr', 'exec', 'eval'):
                        raise TranslationError('%s.%s uses %s' % (cname, fn.name, n.func.id))
        for fn in self.functions.values():
            for n in ast.walk(fn):
                if isinstance(n, (ast.Attribute, )) and isinstance(n.ctx, (ast.Store, ast.Del)):
                    raise TranslationError('%s line %d: attribute store in a module function' % (fn.name, n.lineno))

    def seg(self, node):
        s = ast.get_source_segment(self.text, node)
        return ' '.join((s or ast.unparse(node)).split())

    def base_of_dim(self, d):
        return {1: 'QuadScheme1D', 2: 'QuadScheme2D', 3: 'QuadScheme3D'}[d]


# ---------------------------------------------------------------------------------------------------------
class Fn:
    """translator of one function body; values are (code, type)"""
    def __init__(self, mod, consts, stats, fname, ret, exc, cls=None):
        self.mod, self.consts, self.stats, self.fname, self.ret, self.exc, self.cls = mod, consts, stats, fname, ret, exc, cls
        self.externals = []   # [(name, nargs)] external rule functions this body calls (become parameters)

    def err(self, node, msg):
        raise TranslationError('%s line %s: %s: `%s`' % (self.fname, getattr(node, 'lineno', '?'), msg, self.mod.seg(node)[:160]))

    def lean_name(self, node, name):
        if name in RESERVED or name.startswith('c_') or name.startswith('np') or not name.isidentifier() or not name.isascii() \
                or name in self.mod.classes or name in self.mod.functions or name in self.mod.ext_rules:
            self.err(node, 'the local name `%s` cannot be used as a Lean name here' % name)
        return name

    # ---- constants ------------------------------------------------------------------------------------
    def const_value(self, node):
        if isinstance(node, ast.Constant) and isinstance(node.value, (int, float)) and not isinstance(node.value, bool):
            return node.value
        if isinstance(node, ast.UnaryOp) and isinstance(node.op, ast.USub):
            v = self.const_value(node.operand)
            return None if v is None else -v
        if isinstance(node, ast.BinOp):
            a, b = self.const_value(node.left), self.const_value(node.right)
            if a is None or b is None:
                return None
            try:
                if isinstance(node.op, ast.Add):
                    return a + b
                if isinstance(node.op, ast.Sub):
                    return a - b
                if isinstance(node.op, ast.Mult):
                    return a * b
                if isinstance(node.op, ast.Div):
                    return a / b
            except ZeroDivisionError:
                self.err(node, 'constant division by zero')
        return None

    def const(self, node, v):
        if isinstance(v, int):
            return (v, ('lit', ))
        if v != v or v in (float('inf'), float('-inf')):
            self.err(node, 'non-finite constant')
        text = self.mod.seg(node)
        what = 'binary64 value of the literal `%s`' % text if isinstance(node, ast.Constant) else \
            'binary64 value of the constant expression `%s` (folded with float arithmetic, as Python does)' % text
        self.stats.bump('float_constants')
        return (self.consts.add(text, v, what), ('rat', ))

    # ---- coercions ------------------------------------------------------------------------------------
    def rat(self, node, v):
        if v[1][0] == 'rat':
            return v[0]
        if v[1][0] == 'lit':
            return lean_rat(v[0])
        self.err(node, 'number expected, got %s' % v[1][0])

    def count(self, node, v):
        if v[1][0] == 'nat':
            return v[0]
        if v[1][0] == 'lit' and v[0] >= 0:
            return str(v[0])
        self.err(node, 'non-negative count expected, got %s' % v[1][0])

    def int_(self, node, v):
        if v[1][0] == 'int':
            return v[0]
        if v[1][0] == 'lit':
            return '(%d : Int)' % v[0] if v[0] >= 0 else '(-%d : Int)' % -v[0]
        self.err(node, 'integer expected, got %s' % v[1][0])

    def arr(self, node, v):
        if v[1][0] != 'arr':
            self.err(node, '1-D array expected, got %s' % v[1][0])
        return v[0]

    # ---- expressions ----------------------------------------------------------------------------------
    def expr(self, node, env):
        cv = self.const_value(node)
        if cv is not None:
            return self.const(node, cv)
        if isinstance(node, ast.Constant):
            if node.value is None:
                return ('none', ('none', ))
            if isinstance(node.value, bool):
                return ('true' if node.value else 'false', ('bool', ))
            self.err(node, 'unsupported constant')
        if isinstance(node, ast.Name):
            if node.id in env:
                return env[node.id]
            if node.id in EXTERNAL_CLASSES:
                self.err(node, 'reference to the untranslated class %s' % node.id)
            self.err(node, 'unknown name')
        if isinstance(node, ast.Attribute):
            return self.attribute(node, env)
        if isinstance(node, ast.Subscript):
            return self.subscript(node, env)
        if isinstance(node, ast.List):
            return self.list_display(node, env)
        if isinstance(node, ast.UnaryOp):
            if isinstance(node.op, ast.USub):
                v = self.expr(node.operand, env)
                if v[1][0] in ('rat', 'lit'):
                    return ('(-%s)' % self.rat(node, v), ('rat', ))
                if v[1][0] == 'arr':
                    return ('(npNeg %s)' % paren(v[0]), ('arr', ))
                self.err(node, 'unary minus of %s' % v[1][0])
            if isinstance(node.op, ast.Not):
                return ('(¬ %s)' % self.cond(node.operand, env), ('prop', ))
            self.err(node, 'unsupported unary operator')
        if isinstance(node, ast.BinOp):
            return self.binop(node, env)
        if isinstance(node, (ast.Compare, ast.BoolOp)):
            return (self.cond(node, env), ('prop', ))
        if isinstance(node, ast.Call):
            return self.call(node, env)
        self.err(node, 'unsupported expression')

    def attribute(self, node, env):
        v = self.expr(node.value, env)
        if v[1][0] in ('scheme1', 'scheme2', 'scheme3'):
            ci = self.mod.classes[self.mod.base_of_dim(int(v[1][0][-1]))]
            for f, t in ci.fields:
                if f == node.attr:
                    self.stats.bump('field_reads')
                    return ('%s.%s' % (paren(v[0]), f), t)
            if node.attr in ci.memo:
                self.err(node, 'memo field used outside the memo pattern')
            self.err(node, 'the class %s has no data field `%s`' % (ci.name, node.attr))
        self.err(node, 'unsupported attribute of a value of type %s' % v[1][0])

    def subscript(self, node, env):
        idx = node.slice
        # m.shape[1]
        if isinstance(node.value, ast.Attribute) and node.value.attr == 'shape':
            m = self.expr(node.value.value, env)
            if not (isinstance(idx, ast.Constant) and isinstance(idx.value, int) and not isinstance(idx.value, bool)):
                self.err(node, 'only shape[<literal>] is supported')
            if m[1][0] == 'mat' and idx.value == 1:
                return ('(npShape1 %s)' % paren(m[0]), ('nat', ))
            if m[1][0] == 'arr' and idx.value == 0:
                return ('(npLen %s)' % paren(m[0]), ('nat', ))
            self.err(node, 'shape[%s] of %s' % (idx.value, m[1][0]))
        if not (isinstance(idx, ast.Constant) and isinstance(idx.value, int) and not isinstance(idx.value, bool) and idx.value >= 0):
            self.err(node, 'only non-negative literal indices are supported')
        v = self.expr(node.value, env)
        if is_mat(v[1]):
            if v[1][1] is not None and idx.value >= v[1][1]:
                self.err(node, 'row %d of an array with %d rows (IndexError)' % (idx.value, v[1][1]))
            self.stats.bump('row_reads')
            return ('(npRow %s %d)' % (paren(v[0]), idx.value), ('arr', ))
        self.err(node, 'subscript of %s' % v[1][0])

    def list_display(self, node, env):
        if not node.elts:
            self.err(node, 'empty list')
        vs = [self.expr(e, env) for e in node.elts]
        if any(isinstance(e, ast.Starred) for e in node.elts):
            self.err(node, 'starred list element')
        if all(v[1][0] == 'arr' for v in vs):
            return ('[%s]' % ', '.join(v[0] for v in vs), ('alist', len(vs)))
        if all(is_mat(v[1]) for v in vs):
            ks = {v[1][1] for v in vs}
            k = ks.pop() if len(ks) == 1 else None
            return ('[%s]' % ', '.join(v[0] for v in vs), ('mlist', k))
        self.err(node, 'list of %s' % [v[1][0] for v in vs])

    OPS = {ast.Add: '+', ast.Sub: '-', ast.Mult: '*', ast.Div: '/'}

    def binop(self, node, env):
        if isinstance(node.op, ast.Pow):
            if not (isinstance(node.right, ast.Constant) and isinstance(node.right.value, int) and
                    not isinstance(node.right.value, bool) and node.right.value >= 0):
                self.err(node, 'only ** <non-negative int literal> is supported')
            k = node.right.value
            v = self.expr(node.left, env)
            if v[1][0] in ('rat', 'lit'):
                return ('(%s ^ %d)' % (self.rat(node, v), k), ('rat', ))
            if v[1][0] == 'arr':
                return ('(npPow %s %d)' % (paren(v[0]), k), ('arr', ))
            self.err(node, '** of %s' % v[1][0])
        if isinstance(node.op, (ast.FloorDiv, ast.Mod)):
            # Python `//` and `%` on ints by a POSITIVE literal: floor division = Lean's `Int` division (`Int.ediv`/`emod`)
            if not (isinstance(node.right, ast.Constant) and isinstance(node.right.value, int) and
                    not isinstance(node.right.value, bool) and node.right.value > 0):
                self.err(node, 'only // and % by a positive int literal are supported')
            a = self.expr(node.left, env)
            if a[1][0] != 'int':
                self.err(node, '// or % of %s' % a[1][0])
            sym = '/' if isinstance(node.op, ast.FloorDiv) else '%'
            return ('(%s %s (%d : Int))' % (a[0], sym, node.right.value), ('int', ))
        op = self.OPS.get(type(node.op))
        if op is None:
            self.err(node, 'unsupported binary operator')
        a, b = self.expr(node.left, env), self.expr(node.right, env)
        ta, tb = a[1][0], b[1][0]
        num = ('rat', 'lit')
        if ta in num and tb in num:
            return ('(%s %s %s)' % (self.rat(node, a), op, self.rat(node, b)), ('rat', ))
        if 'int' in (ta, tb) and ta in ('int', 'lit') and tb in ('int', 'lit') and op != '/':
            return ('(%s %s %s)' % (self.int_(node, a), op, self.int_(node, b)), ('int', ))
        self.stats.bump('array_ops')
        if ta in num and tb == 'arr':
            return ('(npSA (· %s ·) %s %s)' % (op, paren(self.rat(node, a)), paren(b[0])), ('arr', ))
        if ta == 'arr' and tb in num:
            return ('(npAS (· %s ·) %s %s)' % (op, paren(a[0]), paren(self.rat(node, b))), ('arr', ))
        if ta == 'arr' and tb == 'arr':
            return ('(npAA (· %s ·) %s %s)' % (op, paren(a[0]), paren(b[0])), ('arr', ))
        self.err(node, 'operator %s on %s and %s' % (op, ta, tb))

    def np_func(self, f):
        """`np.<name>` -> name"""
        if isinstance(f, ast.Attribute) and isinstance(f.value, ast.Name) and f.value.id == 'np':
            return f.attr
        return None

    def call(self, node, env):
        f = node.func
        npf = self.np_func(f)
        if npf is not None:
            return self.np_call(node, npf, env)
        if any(isinstance(a, ast.Starred) for a in node.args) or any(k.arg is None for k in node.keywords):
            self.err(node, 'star arguments are not supported')
        if isinstance(f, ast.Name):
            name = f.id
            if name in env:
                fv = env[name]
                if fv[1][0] in ('fun1', 'fun2', 'fun3') and len(node.args) == 1 and not node.keywords:
                    d = int(fv[1][0][-1])
                    x = self.expr(node.args[0], env)
                    self.stats.bump('integrand_calls')
                    if d == 1:
                        return ('(npMap1 %s %s)' % (fv[0], paren(self.arr(node, x))), ('arr', ))
                    if x[1][0] != 'mat' or x[1][1] != d:
                        self.err(node, 'the integrand of %d variables is called on %s%s' % (d, x[1][0], x[1][1:]))
                    return ('(npMap%d %s %s)' % (d, fv[0], paren(x[0])), ('arr', ))
                self.err(node, 'call of a local value of type %s' % fv[1][0])
            if name == 'len' and len(node.args) == 1 and not node.keywords:
                a = self.expr(node.args[0], env)
                return ('(npLen %s)' % paren(self.arr(node, a)), ('nat', ))
            if name in self.mod.classes:
                return self.ctor_call(node, name, node.args, node.keywords, env)
            if name in EXTERNAL_CLASSES:
                self.err(node, 'call of the untranslated class %s' % name)
            self.err(node, 'call of unknown function')
        self.err(node, 'unsupported call')

    def ctor_call(self, node, cname, args, keywords, env):
        ci = self.mod.classes[cname]
        if not ci.init_params and cname not in getattr(self.mod, 'done', ()):
            self.err(node, 'the class %s is used before its definition' % cname)
        if ci.init_except:
            self.err(node, 'constructor with assertions inside an expression')
        vals = {}
        names = [p for p, _ in ci.init_params]
        if len(args) > len(names):
            self.err(node, 'too many arguments')
        for p, a in zip(names, args):
            vals[p] = a
        for k in keywords:
            if k.arg not in names or k.arg in vals:
                self.err(node, 'unexpected keyword argument %s' % k.arg)
            vals[k.arg] = k.value
        codes = []
        for p, t in ci.init_params:
            if p not in vals:
                if t[0] == 'optscheme1':
                    codes.append('none')
                    continue
                self.err(node, 'argument %s is missing' % p)
            v = self.expr(vals[p], env)
            if t[0] == 'mat':
                if not is_mat(v[1]):
                    self.err(node, 'argument %s: 2-D array (or list of arrays) expected, got %s' % (p, v[1][0]))
                if v[1][1] is not None and v[1][1] != ci.dim:
                    self.err(node, 'argument %s: %d rows given to a %d-dimensional scheme' % (p, v[1][1], ci.dim))
                codes.append(paren(v[0]))
            elif t[0] == 'optscheme1':
                if v[1][0] == 'scheme1':
                    codes.append('(some %s)' % paren(v[0]))
                elif v[1][0] in ('optscheme1', 'none'):
                    codes.append(paren(v[0]))
                else:
                    self.err(node, 'argument %s: scheme or None expected' % p)
            elif t[0] == 'bool':
                if v[1][0] != 'bool':
                    self.err(node, 'argument %s: bool expected' % p)
                codes.append(paren(v[0]))
            elif t[0] == 'rat':
                codes.append(paren(self.rat(node, v)))
            else:
                if v[1][0] != t[0]:
                    self.err(node, 'argument %s: %s expected, got %s' % (p, t[0], v[1][0]))
                codes.append(paren(v[0]))
        self.stats.bump('constructor_calls')
        return ('(%s.init %s)' % (cname, ' '.join(codes)), ('scheme%d' % ci.dim, ))

    def np_call(self, node, name, env):
        args, kws = node.args, {k.arg: k.value for k in node.keywords}
        if any(isinstance(a, ast.Starred) for a in args) or None in kws:
            self.err(node, 'star arguments are not supported')
        self.stats.bump('numpy_calls')

        def no_kw():
            if kws:
                self.err(node, 'keyword arguments of np.%s are not supported' % name)

        if name in ('array', 'asarray'):
            no_kw()
            if len(args) != 1:
                self.err(node, 'np.%s takes one argument here' % name)
            v = self.expr(args[0], env)
            if v[1][0] == 'arr':
                return ('(npArray %s)' % paren(v[0]), ('arr', ))
            if is_mat(v[1]):
                return ('(npArrayM %s)' % paren(v[0]), ('mat', v[1][1]))
            self.err(node, 'np.%s of %s' % (name, v[1][0]))
        if name == 'repeat':
            if len(args) != 2 or set(kws) - {'axis'}:
                self.err(node, 'np.repeat(a, k[, axis=1]) expected')
            a, k = self.expr(args[0], env), self.count(node, self.expr(args[1], env))
            if 'axis' in kws:
                ax = kws['axis']
                if not (isinstance(ax, ast.Constant) and ax.value == 1 and isinstance(ax.value, int) and not isinstance(ax.value, bool)):
                    self.err(node, 'only axis=1 is supported')
                if a[1][0] != 'mat':
                    self.err(node, 'np.repeat(…, axis=1) of %s' % a[1][0])
                return ('(npRepeatAxis1 %s %s)' % (paren(a[0]), paren(k)), ('mat', a[1][1]))
            return ('(npRepeat %s %s)' % (paren(self.arr(node, a)), paren(k)), ('arr', ))
        if name == 'tile':
            no_kw()
            if len(args) != 2:
                self.err(node, 'np.tile(a, k) expected')
            a, k = self.expr(args[0], env), self.count(node, self.expr(args[1], env))
            return ('(npTile %s %s)' % (paren(self.arr(node, a)), paren(k)), ('arr', ))
        if name == 'kron':
            no_kw()
            if len(args) != 2:
                self.err(node, 'np.kron(a, b) expected')
            a, b = self.expr(args[0], env), self.expr(args[1], env)
            return ('(npKron %s %s)' % (paren(self.arr(node, a)), paren(self.arr(node, b))), ('arr', ))
        if name == 'dot':
            no_kw()
            if len(args) != 2:
                self.err(node, 'np.dot(a, b) expected')
            a, b = self.expr(args[0], env), self.expr(args[1], env)
            return ('(npDot %s %s)' % (paren(self.arr(node, a)), paren(self.arr(node, b))), ('rat', ))
        if name in ('hstack', 'concatenate'):
            no_kw()
            if len(args) != 1:
                self.err(node, 'np.%s([...]) expected' % name)
            l = self.expr(args[0], env)
            if l[1][0] == 'alist':
                return ('(npHstack %s)' % paren(l[0]), ('arr', ))
            if l[1][0] == 'mlist' and name == 'hstack':
                if l[1][1] is None:
                    self.err(node, 'np.hstack of 2-D arrays whose numbers of rows are not known to agree')
                return ('(npHstackM %s)' % paren(l[0]), ('mat', l[1][1]))
            self.err(node, 'np.%s of %s' % (name, l[1][0]))
        if name == 'vstack':
            no_kw()
            if len(args) != 1 or not isinstance(args[0], ast.List) or not args[0].elts:
                self.err(node, 'np.vstack([...]) of a list display expected')
            parts, rows = [], 0
            for e in args[0].elts:
                v = self.expr(e, env)
                if v[1][0] == 'arr':
                    parts.append('npRow2d %s' % paren(v[0]))
                    rows = None if rows is None else rows + 1
                elif is_mat(v[1]):
                    parts.append(v[0])
                    rows = None if rows is None or v[1][1] is None else rows + v[1][1]
                else:
                    self.err(node, 'np.vstack of %s' % v[1][0])
            return ('(npVstack [%s])' % ', '.join(parts), ('mat', rows))
        self.err(node, 'np.%s is not supported' % name)

    # ---- conditions -----------------------------------------------------------------------------------
    def cond(self, node, env):
        if isinstance(node, ast.BoolOp):
            op = ' ∧ ' if isinstance(node.op, ast.And) else ' ∨ '
            return '(' + op.join(self.cond(v, env) for v in node.values) + ')'
        if isinstance(node, ast.UnaryOp) and isinstance(node.op, ast.Not):
            return '(¬ %s)' % self.cond(node.operand, env)
        if isinstance(node, ast.Compare):
            parts, left = [], node.left
            for op, right in zip(node.ops, node.comparators):
                parts.append(self.cmp1(node, op, left, right, env))
                left = right
            return parts[0] if len(parts) == 1 else '(' + ' ∧ '.join(parts) + ')'
        v = self.expr(node, env)
        if v[1][0] == 'bool':
            return '(%s = true)' % v[0]
        if v[1][0] == 'prop':
            return v[0]
        self.err(node, 'not a condition (type %s): truthiness of numbers / arrays is not supported' % v[1][0])

    def cmp1(self, node, op, left, right, env):
        sym = {ast.Eq: '=', ast.NotEq: '≠', ast.Lt: '<', ast.LtE: '≤', ast.Gt: '>', ast.GtE: '≥'}.get(type(op))
        if sym is None:
            self.err(node, 'unsupported comparison operator')
        a, b = self.expr(left, env), self.expr(right, env)
        if 'int' in (a[1][0], b[1][0]):
            return '(%s %s %s)' % (self.int_(node, a), sym, self.int_(node, b))
        return '(%s %s %s)' % (self.rat(node, a), sym, self.rat(node, b))

    # ---- statements -----------------------------------------------------------------------------------
    @staticmethod
    def always_returns(stmts):
        for st in stmts:
            if isinstance(st, ast.Return) or Fn.is_super_init(st):
                return True
            if isinstance(st, ast.If) and st.orelse and Fn.always_returns(st.body) and Fn.always_returns(st.orelse):
                return True
        return False

    @staticmethod
    def is_super_init(st):
        return (isinstance(st, ast.Expr) and isinstance(st.value, ast.Call) and isinstance(st.value.func, ast.Attribute)
                and st.value.func.attr == '__init__' and isinstance(st.value.func.value, ast.Call)
                and isinstance(st.value.func.value.func, ast.Name) and st.value.func.value.func.id == 'super')

    def result(self, node, v, ind):
        pad = ' ' * ind
        want = self.ret
        if want == 'rat':
            code = self.rat(node, v)
        elif v[1][0] != want:
            self.err(node, 'result of type %s (expected %s)' % (v[1][0], want))
        else:
            code = v[0]
        self.stats.bump('returns')
        return [pad + ('pure %s' % paren(code) if self.exc else code)]

    def isinstance_only(self, test):
        """`isinstance(x, C) [and isinstance(y, D) …]` -> [(x, C)] or None"""
        parts = test.values if isinstance(test, ast.BoolOp) and isinstance(test.op, ast.And) else [test]
        out = []
        for p in parts:
            if not (isinstance(p, ast.Call) and isinstance(p.func, ast.Name) and p.func.id == 'isinstance' and len(p.args) == 2
                    and not p.keywords and isinstance(p.args[0], ast.Name) and isinstance(p.args[1], ast.Name)):
                return None
            out.append((p.args[0].id, p.args[1].id))
        return out

    def block(self, stmts, env, ind, first=False):
        pad = ' ' * ind
        if not stmts:
            raise TranslationError('%s: a path falls off the end of the function (Python would return None)' % self.fname)
        st, rest = stmts[0], stmts[1:]
        if first and isinstance(st, ast.Expr) and isinstance(st.value, ast.Constant) and isinstance(st.value.value, str):
            return self.block(rest, env, ind)
        if isinstance(st, ast.Return):
            if rest:
                self.err(rest[0], 'unreachable statement after return')
            if st.value is None:
                self.err(st, 'bare return')
            if self.cls is not None and self.fname.endswith('__init__'):
                self.err(st, 'return in __init__')
            return self.result(st, self.expr(st.value, env), ind)
        if self.is_super_init(st):
            if rest:
                self.err(rest[0], 'statement after super().__init__(…): the translated constructors end with this call')
            if self.cls is None or self.cls.base is None or not self.fname.endswith('__init__'):
                self.err(st, 'super().__init__ outside the constructor of a subclass')
            if st.value.func.value.args or st.value.func.value.keywords:
                self.err(st, 'super() with arguments')
            v = self.ctor_call(st, self.cls.base, st.value.args, st.value.keywords, env)
            self.stats.bump('super_init_calls')
            return self.result(st, v, ind)
        if isinstance(st, ast.Assert):
            if st.msg is not None:
                self.err(st, 'assert with a message')
            inst = self.isinstance_only(st.test)
            if inst is not None:
                for name, cname in inst:
                    if name not in env or cname not in self.mod.classes:
                        self.err(st, 'isinstance of an unknown name / class')
                    want = 'scheme%d' % self.mod.classes[cname].dim
                    if self.mod.classes[cname].base is not None or env[name][1][0] != want:
                        self.err(st, 'isinstance(%s, %s) disagrees with the declared type %s of the model' % (name, cname, env[name][1][0]))
                    self.stats.bump('isinstance_asserts')
                return self.block(rest, env, ind)
            text = ast.unparse(st.test)
            if text not in ASSERT_TAGS:
                self.err(st, 'assertion without a known label')
            if not self.exc:
                raise TranslationError('internal: assertion in a function translated without error result')
            self.stats.bump('asserts')
            c = self.cond(st.test, env)
            return ([pad + 'if ¬ %s then .error "assert:%s"' % (c, ASSERT_TAGS[text]), pad + 'else'] +
                    self.block(rest, env, ind + 2))
        if isinstance(st, ast.Assign):
            return self.assign(st, rest, env, ind)
        if isinstance(st, ast.If):
            return self.if_lines(st, rest, env, ind)
        self.err(st, 'unsupported statement')

    def bind(self, st, name, v, env, lines, pad):
        self.lean_name(st, name)
        t = v[1]
        if t[0] in ('prop', 'none', 'pair', 'fun1', 'fun2', 'fun3'):
            self.err(st, 'assignment of a value of type %s' % t[0])
        if t[0] == 'lit':
            v, t = (lean_rat(v[0]), ('rat', )), ('rat', )
        lines.append(pad + 'let %s := %s' % (name, v[0]))
        env[name] = (name, t)
        self.stats.bump('assignments')

    def assign(self, st, rest, env, ind):
        pad = ' ' * ind
        env2, lines = dict(env), []
        tgs = st.targets
        if all(isinstance(t, ast.Name) for t in tgs):
            v = self.expr(st.value, env)
            self.bind(st, tgs[0].id, v, env2, lines, pad)
            for t in tgs[1:]:
                # `a = b = e`: `e` is evaluated once, both names are bound to that object
                self.bind(st, t.id, env2[tgs[0].id], env2, lines, pad)
            return lines + self.block(rest, env2, ind)
        if len(tgs) == 1 and isinstance(tgs[0], ast.Tuple) and len(tgs[0].elts) == 2 and all(isinstance(e, ast.Name) for e in tgs[0].elts):
            call = self.external_call(st, st.value, env)
            n0, n1 = tgs[0].elts[0].id, tgs[0].elts[1].id
            if n0 == n1:
                self.err(st, 'same name twice')
            self.bind(st, n0, ('%s.1' % call, ('arr', )), env2, lines, pad)
            self.bind(st, n1, ('%s.2' % call, ('arr', )), env2, lines, pad)
            return lines + self.block(rest, env2, ind)
        self.err(st, 'unsupported assignment target')

    def external_call(self, st, node, env):
        """`<rule function>(ints…)` / `np.polynomial.legendre.leggauss(n)` -> Lean application of the external parameter"""
        if not (isinstance(node, ast.Call) and not node.keywords and not any(isinstance(a, ast.Starred) for a in node.args)):
            self.err(st, 'a call of a tabulated rule function expected on the right-hand side')
        f = node.func
        if isinstance(f, ast.Name) and f.id in self.mod.ext_rules:
            name = f.id
        elif ast.unparse(f) == LEGGAUSS:
            name = 'leggauss'
        else:
            self.err(st, 'not a rule function imported from .%s (or %s)' % (RULES_MODULE, LEGGAUSS))
        if name in env:
            self.err(st, 'the name of the rule function is shadowed')
        if len(node.args) not in (1, 2):
            self.err(st, 'rule function with %d arguments' % len(node.args))
        args = [self.int_(node, self.expr(a, env)) for a in node.args]
        if (name, len(args)) not in self.externals:
            if any(n == name for n, _ in self.externals):
                self.err(st, 'rule function called with different numbers of arguments')
            self.externals.append((name, len(args)))
        self.stats.bump('external_rule_calls')
        return '(%s %s)' % (name, ' '.join(paren(a) for a in args))

    def if_lines(self, st, rest, env, ind):
        pad = ' ' * ind
        # `if p is None: p = e` for a parameter with default None
        t = st.test
        if isinstance(t, ast.Compare) and len(t.ops) == 1 and isinstance(t.ops[0], ast.Is) and isinstance(t.left, ast.Name) \
                and isinstance(t.comparators[0], ast.Constant) and t.comparators[0].value is None:
            p = t.left.id
            if p not in env or env[p][1][0] != 'optscheme1':
                self.err(st, '`is None` is supported for a parameter with default None only')
            if st.orelse or len(st.body) != 1 or not (isinstance(st.body[0], ast.Assign) and len(st.body[0].targets) == 1 and
                                                      isinstance(st.body[0].targets[0], ast.Name) and st.body[0].targets[0].id == p):
                self.err(st, '`if %s is None: %s = <default>` expected' % (p, p))
            v = self.expr(st.body[0].value, env)
            if v[1][0] != 'scheme1':
                self.err(st, 'default of type %s' % v[1][0])
            env2 = dict(env)
            env2[p] = (p, ('scheme1', ))
            self.stats.bump('default_arguments')
            return [pad + 'let %s := (match %s with | some v => v | none => %s)' % (p, env[p][0], v[0])] + self.block(rest, env2, ind)
        c = self.cond(st.test, env)
        self.stats.bump('branches')
        if self.always_returns(st.body) and st.orelse and self.always_returns(st.orelse) and rest:
            self.err(rest[0], 'unreachable statement after an if whose branches all return')
        then_stmts = list(st.body) if self.always_returns(st.body) else list(st.body) + list(rest)
        else_stmts = list(st.orelse) if (st.orelse and self.always_returns(st.orelse)) else list(st.orelse) + list(rest)
        return ([pad + 'if %s then' % c] + self.block(then_stmts, env, ind + 2) + [pad + 'else'] + self.block(else_stmts, env, ind + 2))


# ---------------------------------------------------------------------------------------------------------
def params_of(mod, fn, key, skip_self):
    a = fn.args
    if a.vararg or a.kwarg or a.kwonlyargs or a.posonlyargs:
        raise TranslationError('%s: unsupported parameter kinds' % key)
    if fn.decorator_list:
        raise TranslationError('%s: decorators are not supported' % key)
    names = [x.arg for x in a.args]
    if skip_self:
        if not names or names[0] != 'self':
            raise TranslationError('%s: first parameter is not self' % key)
        names = names[1:]
    if key not in SIGS:
        raise TranslationError('%s: no declared signature (unknown function / method: not translated, not skipped)' % key)
    tys, ret = SIGS[key]
    if len(tys) != len(names):
        raise TranslationError('%s: parameters %s (expected %d of types %s)' % (key, names, len(tys), tys))
    # defaults: only `=None` for an optional scheme
    defaults = [None] * (len(a.args) - len(a.defaults)) + list(a.defaults)
    if skip_self:
        defaults = defaults[1:]
    for n, t, d in zip(names, tys, defaults):
        if t == 'optscheme1':
            if not (isinstance(d, ast.Constant) and d.value is None):
                raise TranslationError('%s: parameter %s must have the default None' % (key, n))
        elif d is not None:
            raise TranslationError('%s: default value of parameter %s is not supported' % (key, n))
    for x in a.args:
        if x.annotation is not None and ast.unparse(x.annotation) != 'float':
            raise TranslationError('%s: annotation %s' % (key, ast.unparse(x.annotation)))
    for x, t in zip(a.args[1:] if skip_self else a.args, tys):
        if x.annotation is not None and t != 'rat':
            raise TranslationError('%s: parameter %s annotated float but declared %s' % (key, x.arg, t))
    if fn.returns is not None and not (ast.unparse(fn.returns) == 'float' and ret == 'rat'):
        raise TranslationError('%s: return annotation %s' % (key, ast.unparse(fn.returns)))
    return [(n, ty(t)) for n, t in zip(names, tys)], ret


def has_real_assert(fn_tr, fn):
    for n in ast.walk(fn):
        if isinstance(n, ast.Assert) and fn_tr.isinstance_only(n.test) is None:
            return True
    return False


def header(name, params, ret_lean):
    ps = ' '.join('(%s : %s)' % (p, lean_type(t)) for p, t in params)
    return 'def %s %s : %s :=' % (name, ps, ret_lean) if ps else 'def %s : %s :=' % (name, ret_lean)


def body_stmts(fn):
    return [s for i, s in enumerate(fn.body)
            if not (i == 0 and isinstance(s, ast.Expr) and isinstance(s.value, ast.Constant) and isinstance(s.value.value, str))]


def gen_base_class(mod, ci, consts, stats):
    """structure + init of `QuadScheme<d>D`, then its methods"""
    methods = [n for n in ci.node.body if isinstance(n, ast.FunctionDef)]
    other = [n for n in ci.node.body if not isinstance(n, ast.FunctionDef) and
             not (isinstance(n, ast.Expr) and isinstance(n.value, ast.Constant) and isinstance(n.value.value, str))]
    if other:
        raise TranslationError('class %s: unsupported class-level statement `%s`' % (ci.name, mod.seg(other[0])[:80]))
    names = [m.name for m in methods]
    if len(set(names)) != len(names):
        raise TranslationError('class %s: a method is defined twice' % ci.name)
    if not methods or methods[0].name != '__init__':
        raise TranslationError('class %s: __init__ must be the first method' % ci.name)
    init = methods[0]
    key = '%s.__init__' % ci.name
    params, _ = params_of(mod, init, key, True)
    tr = Fn(mod, consts, stats, key, 'scheme%d' % ci.dim, False, ci)
    env = {p: (p, t) for p, t in params}
    for p, _ in params:
        tr.lean_name(init, p)
    fields = []
    for st in body_stmts(init):
        if not (isinstance(st, ast.Assign) and len(st.targets) == 1 and isinstance(st.targets[0], ast.Attribute) and
                isinstance(st.targets[0].value, ast.Name) and st.targets[0].value.id == 'self'):
            tr.err(st, 'only `self.<field> = <expr>` is supported in the constructor of a base class')
        f = st.targets[0].attr
        if f in [x[0] for x in fields] or f in ci.memo:
            tr.err(st, 'field assigned twice')
        if isinstance(st.value, ast.Constant) and st.value.value is None:
            ci.memo.append(f)
            stats.bump('memo_fields')
            continue
        tr.lean_name(st, f)
        v = tr.expr(st.value, env)
        if v[1][0] not in ('arr', 'mat'):
            tr.err(st, 'field of type %s' % v[1][0])
        t = v[1]
        if t[0] == 'mat':
            t = ('mat', ci.dim)     # class invariant: the constructor is only called with `dim` rows (checked at every call)
        fields.append((f, t, v[0]))
        stats.bump('fields')
    if [f for f, _, _ in fields] != ['points', 'weights']:
        raise TranslationError('class %s: data fields %s (expected points, weights)' % (ci.name, [f for f, _, _ in fields]))
    ci.fields = [(f, t) for f, t, _ in fields]
    ci.init_params = params
    out = ['/-- the data of a `%s` object (`points`: %s; the memo fields %s start as `None` and are not stored: the memo '
           'is pure) -/' % (ci.name, '1-D array' if ci.dim == 1 else 'the %d rows of the `(%d, n)` array' % (ci.dim, ci.dim),
                            ', '.join('`%s`' % m for m in ci.memo) or '(none)'),
           'structure %s where' % ci.name]
    for f, t, _ in fields:
        out.append('  %s : %s' % (f, lean_type(t)))
    out += ['deriving Repr, DecidableEq', '',
            '/-- `%s.__init__(%s)` -/' % (ci.name, ', '.join(p for p, _ in params)),
            header('%s.init' % ci.name, params, ci.name),
            '  { %s }' % ', '.join('%s := %s' % (f, c) for f, _, c in fields), '']
    mod.done.add(ci.name)
    # every memo field must be the target of exactly one memo method
    memo_used = {}
    for m in methods[1:]:
        if m.name == 'integrate':
            out += gen_integrate(mod, ci, m, consts, stats) + ['']
        else:
            lines, fld = memo_method(mod, ci, m, consts, stats)
            if fld in memo_used:
                raise TranslationError('%s: the memo field %s is used by %s and %s' % (ci.name, fld, memo_used[fld], m.name))
            memo_used[fld] = m.name
            out += lines + ['']
    ci.memo_used = memo_used
    for f in ci.memo:
        if f not in memo_used:
            raise TranslationError('class %s: the field %s is set to None and never used by a memo method' % (ci.name, f))
    return out


def memo_method(mod, ci, fn, consts, stats):
    """`def m(self): if self._f is None: self._f = E` / `return self._f`  ->  `def <Class>.m (self) := E`.
    Pure model of the memo: E reads only the data fields (written by `__init__` only, checked in Module), `_f` starts as
    None (`__init__`) and is written nowhere else, so every call returns an object with the value of E."""
    key = '%s.%s' % (ci.name, fn.name)
    a = fn.args
    if [x.arg for x in a.args] != ['self'] or a.vararg or a.kwarg or a.kwonlyargs or a.defaults or fn.decorator_list:
        raise TranslationError('%s: unknown method (neither `integrate` nor a parameterless memo method): not translated, '
                               'not skipped' % key)
    body = body_stmts(fn)
    ok = (len(body) == 2 and isinstance(body[0], ast.If) and not body[0].orelse and len(body[0].body) == 1
          and isinstance(body[1], ast.Return))
    fld = None
    if ok:
        t, asg, ret = body[0].test, body[0].body[0], body[1].value
        ok = (isinstance(t, ast.Compare) and len(t.ops) == 1 and isinstance(t.ops[0], ast.Is) and
              isinstance(t.comparators[0], ast.Constant) and t.comparators[0].value is None and
              isinstance(t.left, ast.Attribute) and isinstance(t.left.value, ast.Name) and t.left.value.id == 'self' and
              isinstance(asg, ast.Assign) and len(asg.targets) == 1 and ast.unparse(asg.targets[0]) == ast.unparse(t.left) and
              ret is not None and ast.unparse(ret) == ast.unparse(t.left))
        if ok:
            fld = t.left.attr
    if not ok or fld not in ci.memo:
        raise TranslationError('%s line %d: the body is not the memo pattern `if self._f is None: self._f = E; return self._f` '
                               'on a field that __init__ sets to None' % (key, fn.lineno))
    tr = Fn(mod, consts, stats, key, 'scheme%d' % ci.dim, False, ci)
    env = {'self': ('self', ('scheme%d' % ci.dim, ))}
    v = tr.expr(body[0].body[0].value, env)
    if v[1][0] != 'scheme%d' % ci.dim:
        tr.err(fn, 'memo value of type %s' % v[1][0])
    stats.bump('memo_methods')
    tr.lean_name(fn, fn.name)
    return (['/-- `%s.%s()` (memo field `%s`, modelled as pure: every call returns this value) -/' % (ci.name, fn.name, fld),
             header('%s.%s' % (ci.name, fn.name), [('self', ('scheme%d' % ci.dim, ))], ci.name),
             '  ' + v[0]], fld)


def gen_integrate(mod, ci, fn, consts, stats):
    key = '%s.integrate' % ci.name
    params, ret = params_of(mod, fn, key, True)
    tr0 = Fn(mod, consts, stats, key, ret, False, ci)
    exc = has_real_assert(tr0, fn)
    tr = Fn(mod, consts, stats, key, ret, exc, ci)
    env = {'self': ('self', ('scheme%d' % ci.dim, ))}
    for p, t in params:
        tr.lean_name(fn, p)
        env[p] = (p, t)
    body = tr.block(fn.body, env, 2, first=True)
    stats.bump('methods')
    ps = [('self', ('scheme%d' % ci.dim, ))] + params
    return (['/-- `%s.integrate(%s)`%s; the integrand acts entry-wise on the array of points -/' %
             (ci.name, ', '.join(p for p, _ in params), ' (assertion failures are errors)' if exc else ''),
             header(key, ps, 'Except String Rat' if exc else 'Rat')] + body)


def gen_subclass(mod, ci, consts, stats):
    methods = [n for n in ci.node.body if isinstance(n, ast.FunctionDef)]
    other = [n for n in ci.node.body if not isinstance(n, ast.FunctionDef) and
             not (isinstance(n, ast.Expr) and isinstance(n.value, ast.Constant) and isinstance(n.value.value, str))]
    if other:
        raise TranslationError('class %s: unsupported class-level statement `%s`' % (ci.name, mod.seg(other[0])[:80]))
    if [m.name for m in methods] != ['__init__']:
        raise TranslationError('class %s: a subclass may only define __init__ (methods %s: overriding is not modelled)' %
                               (ci.name, [m.name for m in methods]))
    fn = methods[0]
    key = '%s.__init__' % ci.name
    params, ret = params_of(mod, fn, key, True)
    if ret != 'scheme%d' % ci.dim:
        raise TranslationError('%s: declared result %s for a subclass of %s' % (key, ret, ci.base))
    tr0 = Fn(mod, consts, stats, key, ret, False, ci)
    exc = has_real_assert(tr0, fn)
    tr = Fn(mod, consts, stats, key, ret, exc, ci)
    env = {}
    for p, t in params:
        tr.lean_name(fn, p)
        env[p] = (p, t)
    body = tr.block(fn.body, env, 2, first=True)
    ci.init_params = params
    ci.init_except = exc
    mod.done.add(ci.name)
    stats.bump('constructors')
    base = mod.base_of_dim(ci.dim)
    return (['/-- `%s(%s)`: the `%s` that `__init__` hands to `super().__init__` -/' % (ci.name, ', '.join(p for p, _ in params), base),
             header('%s.init' % ci.name, params, 'Except String %s' % base if exc else base)] + body)


def gen_function(mod, fn, consts, stats):
    key = fn.name
    params, ret = params_of(mod, fn, key, False)
    tr0 = Fn(mod, consts, stats, key, ret, False)
    exc = has_real_assert(tr0, fn)
    tr = Fn(mod, consts, stats, key, ret, exc)
    env = {}
    for p, t in params:
        tr.lean_name(fn, p)
        env[p] = (p, t)
    body = tr.block(fn.body, env, 2, first=True)
    if len(tr.externals) != 1:
        raise TranslationError('%s: exactly one tabulated rule function is expected (found %s)' % (key, tr.externals))
    ename, nargs = tr.externals[0]
    if key in RESERVED or key.startswith('c_') or key.startswith('np') or not key.isascii():
        raise TranslationError('the function name `%s` cannot be used as a Lean name' % key)
    stats.bump('module_functions')
    ext_doc = ('`%s` (external: NumPy)' % LEGGAUSS) if ename == 'leggauss' else '`%s` of src/quadrature_rules.py (external: C05)' % ename
    ps = [(ename, ('ext%d' % nargs, ))] + params
    lean_ret = mod.base_of_dim(int(ret[-1]))
    return (['/-- `%s(%s)`; parameter `%s` = %s -/' % (key, ', '.join(p for p, _ in params), ename, ext_doc),
             header(key, ps, 'Except String %s' % lean_ret if exc else lean_ret)] + body), (key, ename, nargs, exc)


def generate_text(repo):
    mod = Module(repo)
    mod.done = set()
    consts, stats = Consts(), Stats()
    parts = []
    for name, ci in mod.classes.items():
        if name in EXTERNAL_CLASSES:
            stats.bump('external_classes_not_translated')
            continue
        if ci.base is None:
            parts.append(gen_base_class(mod, ci, consts, stats))
        else:
            if ci.base in EXTERNAL_CLASSES:
                raise TranslationError('class %s derives from the untranslated class %s' % (name, ci.base))
            parts.append(gen_subclass(mod, ci, consts, stats))
        stats.bump('classes')
    # memo fields may be read / written only inside `__init__` and their own memo method (syntactic check, whole module)
    all_memo = {f for c in mod.classes.values() for f in c.memo}
    for n in ast.walk(mod.tree):
        if isinstance(n, ast.Attribute) and n.attr in all_memo:
            ok = False
            for c in mod.classes.values():
                if n.attr not in c.memo:
                    continue
                for m in c.node.body:
                    if isinstance(m, ast.FunctionDef) and m.name in ('__init__', c.memo_used[n.attr]) and any(x is n for x in ast.walk(m)):
                        ok = True
            if not ok:
                raise TranslationError('memo field %s is used outside __init__ / its memo method (line %d)' % (n.attr, n.lineno))
    # nothing translated may refer to an external class: Fn.expr raises on such names; the external class itself must be
    # a plain subclass (so that removing it from the model loses nothing the other classes depend on)
    for name in EXTERNAL_CLASSES:
        if name in mod.classes and mod.classes[name].base is None:
            raise TranslationError('external class %s is a base class' % name)
    ctors = []
    for name, fn in mod.functions.items():
        lines, info = gen_function(mod, fn, consts, stats)
        parts.append(lines)
        ctors.append(info)
    out = ['/- GENERATED by translate/quadgen.py from src/quadrature.py -- do not edit. -/',
           'namespace Stbem.Gen.QuadGen',
           '',
           '/-! ### float literals of the source (exact values of the binary64 numbers Python computes with) -/']
    for name in sorted(consts.defs):
        fr, what = consts.defs[name]
        out += ['/-- %s -/' % what, 'def %s : Rat := %s' % (name, lean_rat(fr))]
    out += ['', PRELUDE]
    out += ['/-! ### the classes and functions of `src/quadrature.py`, statement by statement -/']
    for p in parts:
        out += p + ['']
    out += ['end Stbem.Gen.QuadGen', '']
    st = dict(stats.n)
    st['_ctors'] = ctors
    return '\n'.join(out), st


# what the driver (Driver/QuadGenCmd.lean), the bridge (Model/QuadConv.lean) and the theorems refer to: the generated file is
# only written when all of it is there with the declared parameter types (result types may gain / lose `Except`), so that a
# change of src/quadrature.py can break the obligations of C15 / C14 but never the shared driver build of the other checks
REQUIRED_DEFS = ['QuadScheme1D.init', 'QuadScheme1D.mirror', 'QuadScheme1D.integrate', 'QuadScheme2D.init', 'QuadScheme2D.mirror_x',
                 'QuadScheme2D.mirror_y', 'QuadScheme2D.integrate', 'ProductScheme2D.init', 'DuffyScheme2D.init', 'QuadScheme3D.init',
                 'QuadScheme3D.integrate', 'QuadScheme3D.mirror_x', 'QuadScheme3D.mirror_y', 'QuadScheme3D.mirror_z',
                 'ProductScheme3D.init', 'DuffySchemeIdentical3D.init', 'DuffySchemeTouch3D.init']
REQUIRED_CTORS = {'gauss_quadrature_scheme': 1, 'gauss_sqrtinv_quadrature_scheme': 1, 'gauss_x_quadrature_scheme': 1,
                  'gauss_log_quadrature_scheme': 1, 'log_quadrature_scheme': 2, 'log_log_quadrature_scheme': 2,
                  'sqrt_quadrature_scheme': 2, 'sqrtinv_quadrature_scheme': 2}


def check_required(text, stats):
    for d in REQUIRED_DEFS:
        if '\ndef %s ' % d not in text:
            raise TranslationError('the source no longer defines %s (class / method removed or renamed)' % d.replace('.init', '.__init__'))
    got = {name: nargs for name, _, nargs, _ in stats['_ctors']}
    for name, nargs in REQUIRED_CTORS.items():
        if got.get(name) != nargs:
            raise TranslationError('%s: %s (expected a function calling its rule table with %d key(s))' %
                                   (name, 'missing' if name not in got else 'calls its rule table with %d key(s)' % got[name], nargs))


def generate(repo, gen_dir, write, compiles=None):
    """`compiles(text) -> error message or None`: optional test compilation of a CHANGED file before it is written"""
    text, stats = generate_text(repo)
    check_required(text, stats)
    path = os.path.join(gen_dir, 'QuadGen.lean')
    try:
        same = open(path).read() == text
    except FileNotFoundError:
        same = False
    if not same and compiles is not None:
        msg = compiles(text)
        if msg:
            raise TranslationError('the generated Lean text does not compile (the previous Gen/QuadGen.lean is kept):\n' + msg)
    write(path, text)
    stats['changed'] = int(not same)
    return stats


if __name__ == '__main__':
    sys.path.insert(0, os.path.join(os.path.dirname(os.path.abspath(__file__)), '..'))
    from harness.common import write_if_changed
    gen = os.path.join(os.path.dirname(os.path.abspath(__file__)), '..', 'lean', 'Stbem', 'Gen')
    if len(sys.argv) < 2:
        sys.exit('usage: quadgen.py <repo> [--print]')
    if '--print' in sys.argv:
        t, s = generate_text(sys.argv[1])
        print(t)
        print(s, file=sys.stderr)
    else:
        print(generate(sys.argv[1], gen, write_if_changed))
